//! Parses and compiles programs with the real front end and dumps the
//! bytecode of the top-level chunk (one op per line, Debug format).
use serde_json::json;
use std::io::Write;
use std::panic::{catch_unwind, AssertUnwindSafe};
use tsrun::compiler::Compiler;
use tsrun::parser::Parser;
use tsrun::StringDict;

pub fn compile_dump(src: &str) -> serde_json::Value {
    let r = catch_unwind(AssertUnwindSafe(|| {
        let mut dict = StringDict::new();
        let mut parser = Parser::new(src, &mut dict);
        let program = match parser.parse_program() {
            Ok(p) => p,
            Err(e) => {
                let (c, m) = crate::run::error_class(&e);
                return json!({"status": "parse_error", "class": c, "message": m});
            }
        };
        match Compiler::compile_program(&program) {
            Ok(chunk) => {
                let ops: Vec<String> = chunk.code.iter().map(|o| format!("{:?}", o)).collect();
                let pool: Vec<String> = chunk
                    .constants
                    .iter()
                    .map(|c| match c {
                        tsrun::compiler::Constant::String(s) => format!("S:{}", s),
                        tsrun::compiler::Constant::Number(n) => format!("N:{:?}", n),
                        _ => "other".to_string(),
                    })
                    .collect();
                json!({"status": "ok", "ops": ops, "register_count": chunk.register_count,
                       "constants": chunk.constants.len(), "pool": pool})
            }
            Err(e) => {
                let (c, m) = crate::run::error_class(&e);
                json!({"status": "compile_error", "class": c, "message": m})
            }
        }
    }));
    match r {
        Ok(v) => v,
        Err(_) => json!({"status": "panic"}),
    }
}

pub fn main(args: &[String]) -> i32 {
    let (input, output) = match (args.first(), args.get(1)) {
        (Some(a), Some(b)) => (a.clone(), b.clone()),
        _ => return 2,
    };
    let text = match std::fs::read_to_string(&input) {
        Ok(t) => t,
        Err(_) => return 2,
    };
    let mut fout = match std::fs::OpenOptions::new().create(true).append(true).open(&output) {
        Ok(f) => f,
        Err(_) => return 2,
    };
    let skip: usize = args.get(2).and_then(|x| x.parse().ok()).unwrap_or(0);
    std::panic::set_hook(Box::new(|_| {}));
    let mut idx = 0usize;
    for block in text.split("%%%% ").skip(1) {
        idx += 1;
        if idx <= skip {
            continue;
        }
        let (head, src) = match block.find('\n') {
            Some(p) => (&block[..p], &block[p + 1..]),
            None => (block, ""),
        };
        let name = head.split(' ').next().unwrap_or("").to_string();
        let _ = writeln!(fout, "{}", json!({"name": name, "begin": true}));
        let _ = fout.flush();
        let mut j = compile_dump(src);
        j["name"] = json!(name);
        let _ = writeln!(fout, "{}", j);
        let _ = fout.flush();
    }
    0
}
