//! C08/C07: scripted host driving the order protocol of the real interpreter.
//! One JSON request per line:
//!   {"program": "<ts>", "path": "/main.ts", "host": [ {"step": n?} | {"fulfil": [[id, {"ok": json} | {"err": "msg"} | {"promise": k}], ...]}
//!                                                      | {"resolve": [k, json]} | {"reject": [k, json]} | {"collect": true} ], "gc": n}
//! Output: {"trace": [obs...]} where obs = {"r": "suspended", "pending": [[id, payload-json]], "cancelled": [ids]} | {"r":"complete","value":..} | ...
use serde_json::{json, Value};
use std::cell::RefCell;
use std::collections::HashMap;
use std::io::Write;
use std::panic::{catch_unwind, AssertUnwindSafe};
use std::rc::Rc;
use tsrun::{
    api, create_eval_internal_module, Interpreter, InterpreterConfig, ModulePath, OrderId, OrderResponse, RuntimeValue,
    StepResult,
};

fn obs(interp: &mut Interpreter, r: Result<StepResult, tsrun::JsError>) -> Value {
    match r {
        Err(e) => {
            let (c, m) = crate::run::error_class(&e);
            json!({"r": "error", "class": c, "message": m})
        }
        Ok(StepResult::Continue) => json!({"r": "continue"}),
        Ok(StepResult::Done) => json!({"r": "done"}),
        Ok(StepResult::Complete(v)) => {
            let j = tsrun::js_value_to_json(v.value()).unwrap_or(json!("!unserialisable"));
            json!({"r": "complete", "value": crate::run::render_value(v.value()), "json": j})
        }
        Ok(StepResult::NeedImports(reqs)) => {
            let l: Vec<Value> = reqs
                .iter()
                .map(|r| json!([r.specifier, r.resolved_path.as_str(), r.importer.as_ref().map(|p| p.as_str().to_string())]))
                .collect();
            json!({"r": "needimports", "requests": l})
        }
        Ok(StepResult::Suspended { pending, cancelled }) => {
            let p: Vec<Value> = pending
                .iter()
                .map(|o| json!([o.id.0, tsrun::js_value_to_json(o.payload.value()).unwrap_or(json!("!"))]))
                .collect();
            let c: Vec<u64> = cancelled.iter().map(|c| c.0).collect();
            let _ = interp;
            json!({"r": "suspended", "pending": p, "cancelled": c})
        }
    }
}

fn drive(interp: &mut Interpreter, first: Option<Result<StepResult, tsrun::JsError>>, max: u64) -> Value {
    let mut cur = match first {
        Some(r) => r,
        None => interp.step(),
    };
    let mut n = 0u64;
    loop {
        match cur {
            Ok(StepResult::Continue) => {
                n += 1;
                if n > max {
                    return json!({"r": "steplimit"});
                }
                cur = interp.step();
            }
            other => {
                let mut o = obs(interp, other);
                o["steps"] = json!(n);
                return o;
            }
        }
    }
}

pub fn one(req: &Value) -> Value {
    let log = Rc::new(RefCell::new(Vec::new()));
    let config = InterpreterConfig { internal_modules: vec![create_eval_internal_module()], ..Default::default() };
    let mut interp = Interpreter::with_config(config);
    interp.set_console(Box::new(crate::run::Capture(log.clone())));
    if let Some(t) = req.get("gc").and_then(|v| v.as_u64()) {
        interp.set_gc_threshold(t as usize);
    }
    let program = req.get("program").and_then(|v| v.as_str()).unwrap_or("");
    let path = req.get("path").and_then(|v| v.as_str()).unwrap_or("/main.ts");
    let use_eval = req.get("eval").and_then(|v| v.as_bool()).unwrap_or(false);
    let mut trace = Vec::new();
    let mut promises: HashMap<u64, RuntimeValue> = HashMap::new();
    let guard = api::create_guard(&interp);
    if let Some(early) = req.get("early").and_then(|v| v.as_array()) {
        for e in early {
            let pth = e.get(0).and_then(|v| v.as_str()).unwrap_or("");
            let src = e.get(1).and_then(|v| v.as_str()).unwrap_or("");
            if let Err(err) = interp.provide_module(ModulePath::new(pth.to_string()), src) {
                trace.push(json!({"r": "provide_error", "class": crate::run::error_class(&err).0}));
            }
        }
    }
    let first = if use_eval {
        interp.eval(program, Some(ModulePath::new(path.to_string())))
    } else {
        interp.prepare(program, Some(ModulePath::new(path.to_string())))
    };
    trace.push(drive(&mut interp, Some(first), 5_000_000));
    if let Some(auto) = req.get("auto") {
        // automatic host: answers every order with twice its numeric payload, following a schedule policy
        let lifo = auto.get("order").and_then(|v| v.as_str()) == Some("lifo");
        let random = auto.get("order").and_then(|v| v.as_str()) == Some("rand");
        let mut prng = auto.get("seed").and_then(|v| v.as_u64()).unwrap_or(1) | 1;
        let batch = auto.get("batch").and_then(|v| v.as_u64()).unwrap_or(1000) as usize;
        let extra = auto.get("extra_steps").and_then(|v| v.as_u64()).unwrap_or(0);
        let collect = auto.get("collect").and_then(|v| v.as_bool()).unwrap_or(false);
        let mut outstanding: Vec<(u64, Value)> = Vec::new();
        let mut idle = 0;
        for _round in 0..2000 {
            let last = trace.last().cloned().unwrap_or(json!({}));
            match last.get("r").and_then(|v| v.as_str()) {
                Some("suspended") => {
                    if let Some(p) = last.get("pending").and_then(|v| v.as_array()) {
                        for it in p {
                            outstanding.push((it.get(0).and_then(|v| v.as_u64()).unwrap_or(0), it.get(1).cloned().unwrap_or(Value::Null)));
                        }
                    }
                    let mut ended = false;
                    for _ in 0..extra {
                        let o = drive(&mut interp, None, 5_000_000);
                        if o.get("r").and_then(|v| v.as_str()) != Some("suspended") {
                            trace.push(o);
                            ended = true;
                            break;
                        }
                        // a spurious step may have resumed an order answered early and issued new ones
                        if let Some(p) = o.get("pending").and_then(|v| v.as_array()) {
                            for it in p {
                                outstanding.push((it.get(0).and_then(|v| v.as_u64()).unwrap_or(0), it.get(1).cloned().unwrap_or(Value::Null)));
                            }
                        }
                    }
                    if ended {
                        break;
                    }
                    if collect {
                        interp.collect();
                    }
                    if outstanding.is_empty() {
                        // an order answered before it was awaited: the response is already there, a further step picks it up
                        let o = drive(&mut interp, None, 5_000_000);
                        let again = o.get("r").and_then(|v| v.as_str()) == Some("suspended")
                            && o.get("pending").and_then(|v| v.as_array()).map(|a| a.is_empty()).unwrap_or(true);
                        idle = if again { idle + 1 } else { 0 };
                        if idle > 64 {
                            trace.push(json!({"r": "stuck"}));
                            break;
                        }
                        trace.push(o);
                        continue;
                    }
                    let mut resp = Vec::new();
                    for _ in 0..batch.min(outstanding.len()) {
                        let (id, payload) = if random {
                            prng = prng.wrapping_mul(6364136223846793005).wrapping_add(1442695040888963407);
                            outstanding.remove(((prng >> 33) as usize) % outstanding.len())
                        } else if lifo {
                            outstanding.pop().unwrap_or((0, Value::Null))
                        } else {
                            outstanding.remove(0)
                        };
                        let answer = match payload.as_f64() {
                            Some(x) => json!(x * 2.0),
                            None => payload.clone(),
                        };
                        let v = api::create_from_json(&mut interp, &guard, &answer).unwrap_or(tsrun::JsValue::Undefined);
                        resp.push(OrderResponse { id: OrderId(id), result: Ok(RuntimeValue::unguarded(v)) });
                    }
                    interp.fulfill_orders(resp);
                    trace.push(drive(&mut interp, None, 5_000_000));
                }
                _ => break,
            }
        }
    }
    if let Some(actions) = req.get("host").and_then(|v| v.as_array()) {
        for a in actions {
            if a.get("step").is_some() {
                let o = if a.get("step").and_then(|v| v.as_str()) == Some("single") {
                    let r = interp.step();
                    obs(&mut interp, r)
                } else {
                    drive(&mut interp, None, 5_000_000)
                };
                trace.push(o);
            } else if let Some(list) = a.get("fulfil").and_then(|v| v.as_array()) {
                let mut resp = Vec::new();
                for item in list {
                    let id = item.get(0).and_then(|v| v.as_u64()).unwrap_or(0);
                    let body = item.get(1).cloned().unwrap_or(Value::Null);
                    let result = if let Some(okv) = body.get("ok") {
                        match api::create_from_json(&mut interp, &guard, okv) {
                            Ok(v) => Ok(RuntimeValue::unguarded(v)),
                            Err(e) => Err(e),
                        }
                    } else if let Some(k) = body.get("promise").and_then(|v| v.as_u64()) {
                        let p = if body.get("linked").and_then(|v| v.as_bool()).unwrap_or(false) {
                            api::create_order_promise(&mut interp, OrderId(id))
                        } else {
                            api::create_promise(&mut interp)
                        };
                        let v = p.value().clone();
                        promises.insert(k, p);
                        Ok(RuntimeValue::unguarded(v))
                    } else {
                        let m = body.get("err").and_then(|v| v.as_str()).unwrap_or("error").to_string();
                        Err(tsrun::JsError::type_error(m))
                    };
                    resp.push(OrderResponse { id: OrderId(id), result });
                }
                interp.fulfill_orders(resp);
            } else if let Some(pair) = a.get("resolve").and_then(|v| v.as_array()) {
                let k = pair.first().and_then(|v| v.as_u64()).unwrap_or(0);
                let val = pair.get(1).cloned().unwrap_or(Value::Null);
                if let Some(p) = promises.get(&k) {
                    if let Ok(v) = api::create_from_json(&mut interp, &guard, &val) {
                        let p = RuntimeValue::unguarded(p.value().clone());
                        let _ = api::resolve_promise(&mut interp, &p, RuntimeValue::unguarded(v));
                    }
                }
            } else if let Some(pair) = a.get("reject").and_then(|v| v.as_array()) {
                let k = pair.first().and_then(|v| v.as_u64()).unwrap_or(0);
                let val = pair.get(1).cloned().unwrap_or(Value::Null);
                if let Some(p) = promises.get(&k) {
                    if let Ok(v) = api::create_from_json(&mut interp, &guard, &val) {
                        let p = RuntimeValue::unguarded(p.value().clone());
                        let _ = api::reject_promise(&mut interp, &p, RuntimeValue::unguarded(v));
                    }
                }
            } else if let Some(pv) = a.get("provide").and_then(|v| v.as_array()) {
                let pth = pv.first().and_then(|v| v.as_str()).unwrap_or("");
                let src = pv.get(1).and_then(|v| v.as_str()).unwrap_or("");
                if let Err(err) = interp.provide_module(ModulePath::new(pth.to_string()), src) {
                    trace.push(json!({"r": "provide_error", "class": crate::run::error_class(&err).0}));
                }
            } else if let Some(names) = a.get("exports").and_then(|v| v.as_array()) {
                let mut m = serde_json::Map::new();
                for n in names {
                    if let Some(ns) = n.as_str() {
                        let v = interp.get_export(ns).and_then(|v| tsrun::js_value_to_json(&v).ok());
                        m.insert(ns.to_string(), v.unwrap_or(json!("!none")));
                    }
                }
                let mut names_all = interp.get_export_names();
                names_all.sort();
                trace.push(json!({"r": "exports", "values": m, "names": names_all}));
            } else if a.get("collect").is_some() {
                interp.collect();
            }
        }
    }
    json!({"trace": trace, "log": *log.borrow(), "call_depth": interp.call_depth()})
}

pub fn main(args: &[String]) -> i32 {
    let (input, output) = match (args.first(), args.get(1)) {
        (Some(a), Some(b)) => (a.clone(), b.clone()),
        _ => return 2,
    };
    std::panic::set_hook(Box::new(|_| {}));
    crate::util::for_each_line(&input, &output, |line, w| {
        let req: Value = match serde_json::from_str(line) {
            Ok(v) => v,
            Err(e) => {
                let _ = writeln!(w, "{}", json!({"error": format!("bad request: {}", e)}));
                return;
            }
        };
        let r = catch_unwind(AssertUnwindSafe(|| one(&req)));
        let _ = writeln!(w, "{}", r.unwrap_or(json!({"error": "panic"})));
    })
}
