//! C18: ModulePath::resolve on "hexspec hexbase|-" lines.
use crate::util::*;
use std::io::Write;
use tsrun::ModulePath;

pub fn main(args: &[String]) -> i32 {
    let (input, output) = match (args.first(), args.get(1)) {
        (Some(a), Some(b)) => (a.clone(), b.clone()),
        _ => {
            eprintln!("usage: th path <cases> <out>");
            return 2;
        }
    };
    for_each_line(&input, &output, |line, w| {
        let mut it = line.split(' ');
        let spec = it.next().unwrap_or("");
        let base = it.next().unwrap_or("-");
        let spec = String::from_utf8_lossy(&unhex(spec)).into_owned();
        let res = if base == "-" {
            ModulePath::resolve(&spec, None)
        } else {
            let b = ModulePath::new(String::from_utf8_lossy(&unhex(base)).into_owned());
            ModulePath::resolve(&spec, Some(&b))
        };
        let _ = writeln!(w, "{}", hex(res.as_str().as_bytes()));
    })
}
