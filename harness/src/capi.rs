//! C17: sequences of C API calls. Request (one JSON per line): {"ops": [ {"op": .., ...}, ... ]}
//! Slots: "ctx"/"val"/... are indices into the tables of contexts and values created so far by the
//! sequence; -1 (or null) means a NULL pointer. The generator never passes a released handle
//! except to the release functions in the orders the property allows.
//! Output: one line per request: {"results": [ ... one record per op ... ], "stale": [...]} ; every
//! record is also appended to a progress file first so that a crash is attributable.
use serde_json::{json, Value};
use std::ffi::{CStr, CString};
use std::io::Write;
use std::os::raw::c_char;
use tsrun::ffi::{TsRunContext, TsRunGcStats, TsRunNativeFn, TsRunOrderResponse, TsRunResult, TsRunStepResult, TsRunStepStatus, TsRunType, TsRunValue, TsRunValueResult};

#[allow(improper_ctypes)]
unsafe extern "C" {
    fn tsrun_new() -> *mut TsRunContext;
    fn tsrun_free(ctx: *mut TsRunContext);
    fn tsrun_prepare(ctx: *mut TsRunContext, code: *const c_char, path: *const c_char) -> TsRunResult;
    fn tsrun_run(out: *mut TsRunStepResult, ctx: *mut TsRunContext);
    fn tsrun_step(out: *mut TsRunStepResult, ctx: *mut TsRunContext);
    fn tsrun_step_result_free(result: *mut TsRunStepResult);
    fn tsrun_free_strings(strings: *mut *mut c_char, count: usize);
    fn tsrun_free_string(s: *mut c_char);
    fn tsrun_fulfill_orders(ctx: *mut TsRunContext, responses: *const TsRunOrderResponse, count: usize) -> TsRunResult;
    fn tsrun_json_parse(ctx: *mut TsRunContext, json: *const c_char) -> TsRunValueResult;
    fn tsrun_json_stringify(ctx: *mut TsRunContext, val: *mut TsRunValue) -> *mut c_char;
    fn tsrun_number(ctx: *mut TsRunContext, n: f64) -> *mut TsRunValue;
    fn tsrun_string(ctx: *mut TsRunContext, s: *const c_char) -> *mut TsRunValue;
    fn tsrun_boolean(ctx: *mut TsRunContext, b: bool) -> *mut TsRunValue;
    fn tsrun_null(ctx: *mut TsRunContext) -> *mut TsRunValue;
    fn tsrun_undefined(ctx: *mut TsRunContext) -> *mut TsRunValue;
    fn tsrun_object_new(ctx: *mut TsRunContext) -> TsRunValueResult;
    fn tsrun_array_new(ctx: *mut TsRunContext) -> TsRunValueResult;
    fn tsrun_value_dup(ctx: *mut TsRunContext, val: *const TsRunValue) -> *mut TsRunValue;
    fn tsrun_value_free(val: *mut TsRunValue);
    fn tsrun_typeof(val: *const TsRunValue) -> TsRunType;
    fn tsrun_is_undefined(val: *const TsRunValue) -> bool;
    fn tsrun_is_null(val: *const TsRunValue) -> bool;
    fn tsrun_is_nullish(val: *const TsRunValue) -> bool;
    fn tsrun_is_boolean(val: *const TsRunValue) -> bool;
    fn tsrun_is_number(val: *const TsRunValue) -> bool;
    fn tsrun_is_string(val: *const TsRunValue) -> bool;
    fn tsrun_is_object(val: *const TsRunValue) -> bool;
    fn tsrun_is_array(val: *const TsRunValue) -> bool;
    fn tsrun_is_function(val: *const TsRunValue) -> bool;
    fn tsrun_get_bool(val: *const TsRunValue) -> bool;
    fn tsrun_get_number(val: *const TsRunValue) -> f64;
    fn tsrun_get_string(val: *const TsRunValue) -> *const c_char;
    fn tsrun_get_string_len(val: *const TsRunValue) -> usize;
    fn tsrun_get(ctx: *mut TsRunContext, obj: *mut TsRunValue, key: *const c_char) -> TsRunValueResult;
    fn tsrun_set(ctx: *mut TsRunContext, obj: *mut TsRunValue, key: *const c_char, val: *mut TsRunValue) -> TsRunResult;
    fn tsrun_has(ctx: *mut TsRunContext, obj: *mut TsRunValue, key: *const c_char) -> bool;
    fn tsrun_delete(ctx: *mut TsRunContext, obj: *mut TsRunValue, key: *const c_char) -> TsRunResult;
    fn tsrun_keys(ctx: *mut TsRunContext, obj: *mut TsRunValue, count_out: *mut usize) -> *mut *mut c_char;
    fn tsrun_array_len(arr: *const TsRunValue) -> usize;
    fn tsrun_array_get(ctx: *mut TsRunContext, arr: *mut TsRunValue, index: usize) -> TsRunValueResult;
    fn tsrun_array_set(ctx: *mut TsRunContext, arr: *mut TsRunValue, index: usize, val: *mut TsRunValue) -> TsRunResult;
    fn tsrun_array_push(ctx: *mut TsRunContext, arr: *mut TsRunValue, val: *mut TsRunValue) -> TsRunResult;
    fn tsrun_call(ctx: *mut TsRunContext, func: *mut TsRunValue, this_arg: *mut TsRunValue, args: *mut *mut TsRunValue, argc: usize) -> TsRunValueResult;
    fn tsrun_call_method(ctx: *mut TsRunContext, obj: *mut TsRunValue, method: *const c_char, args: *mut *mut TsRunValue, argc: usize) -> TsRunValueResult;
    fn tsrun_get_global(ctx: *mut TsRunContext, name: *const c_char) -> TsRunValueResult;
    fn tsrun_set_global(ctx: *mut TsRunContext, name: *const c_char, val: *mut TsRunValue) -> TsRunResult;
    fn tsrun_native_function(ctx: *mut TsRunContext, name: *const c_char, func: TsRunNativeFn, arity: usize, userdata: *mut std::ffi::c_void) -> TsRunValueResult;
    fn tsrun_gc_stats(ctx: *mut TsRunContext) -> TsRunGcStats;
}

unsafe fn cstr(p: *const c_char) -> Option<String> {
    if p.is_null() {
        None
    } else {
        match unsafe { CStr::from_ptr(p) }.to_str() {
            Ok(s) => Some(s.to_string()),
            Err(_) => Some("!invalid-utf8".to_string()),
        }
    }
}

/// a native callback that re-enters the API: serialises its first argument, builds a fresh object
/// {"got": <json text>, "argc": n}, and returns it
extern "C" fn reenter(
    ctx: *mut TsRunContext,
    _this: *mut TsRunValue,
    args: *mut *mut TsRunValue,
    argc: usize,
    _userdata: *mut std::ffi::c_void,
    _error_out: *mut *const c_char,
) -> *mut TsRunValue {
    unsafe {
        let first = if argc > 0 && !args.is_null() { *args } else { std::ptr::null_mut() };
        let text = if first.is_null() {
            None
        } else {
            let s = tsrun_json_stringify(ctx, first);
            let t = cstr(s as *const c_char);
            if !s.is_null() {
                tsrun_free_string(s);
            }
            t
        };
        let o = tsrun_object_new(ctx);
        if o.value.is_null() {
            return std::ptr::null_mut();
        }
        let got = CString::new(text.unwrap_or_else(|| "none".to_string())).unwrap_or_default();
        let gv = tsrun_string(ctx, got.as_ptr());
        let k = CString::new("got").unwrap_or_default();
        let _ = tsrun_set(ctx, o.value, k.as_ptr(), gv);
        tsrun_value_free(gv);
        let nv = tsrun_number(ctx, argc as f64);
        let k2 = CString::new("argc").unwrap_or_default();
        let _ = tsrun_set(ctx, o.value, k2.as_ptr(), nv);
        tsrun_value_free(nv);
        o.value
    }
}

struct Tables {
    ctxs: Vec<*mut TsRunContext>,
    vals: Vec<*mut TsRunValue>,
}

fn i64f(v: Option<&Value>) -> i64 {
    v.and_then(|x| x.as_i64()).unwrap_or(-1)
}

impl Tables {
    fn ctx(&self, op: &Value, key: &str) -> *mut TsRunContext {
        let i = i64f(op.get(key));
        if i < 0 {
            std::ptr::null_mut()
        } else {
            self.ctxs.get(i as usize).copied().unwrap_or(std::ptr::null_mut())
        }
    }
    fn val(&self, op: &Value, key: &str) -> *mut TsRunValue {
        let i = i64f(op.get(key));
        if i < 0 {
            std::ptr::null_mut()
        } else {
            self.vals.get(i as usize).copied().unwrap_or(std::ptr::null_mut())
        }
    }
}

fn res_unit(r: TsRunResult) -> Value {
    json!({"ok": r.ok, "error": unsafe { cstr(r.error) }})
}

fn describe(ctx: *mut TsRunContext, v: *mut TsRunValue) -> Value {
    unsafe {
        if v.is_null() {
            return json!({"null_handle": true});
        }
        let s = if ctx.is_null() { std::ptr::null_mut() } else { tsrun_json_stringify(ctx, v) };
        let text = cstr(s as *const c_char);
        if !s.is_null() {
            tsrun_free_string(s);
        }
        json!({"type": tsrun_typeof(v) as i32, "json": text})
    }
}

fn push_val(t: &mut Tables, r: TsRunValueResult) -> Value {
    let err = unsafe { cstr(r.error) };
    if r.value.is_null() {
        t.vals.push(std::ptr::null_mut());
        json!({"slot": t.vals.len() - 1, "null": true, "error": err})
    } else {
        t.vals.push(r.value);
        json!({"slot": t.vals.len() - 1, "null": false, "error": err})
    }
}

fn push_raw(t: &mut Tables, v: *mut TsRunValue) -> Value {
    t.vals.push(v);
    json!({"slot": t.vals.len() - 1, "null": v.is_null()})
}

fn run_script(ctx: *mut TsRunContext, src: &str, t: &mut Tables, stepwise: bool, release_responses_first: bool) -> Value {
    unsafe {
        let c = CString::new(src).unwrap_or_default();
        let p = CString::new("/capi.ts").unwrap_or_default();
        let r = tsrun_prepare(ctx, c.as_ptr(), p.as_ptr());
        if !r.ok {
            return json!({"status": "prepare-error", "error": cstr(r.error)});
        }
        let mut guard = 0u64;
        loop {
            guard += 1;
            if guard > 2_000_000 {
                return json!({"status": "steplimit"});
            }
            let mut out = TsRunStepResult::default();
            if stepwise {
                tsrun_step(&mut out, ctx);
            } else {
                tsrun_run(&mut out, ctx);
            }
            match out.status {
                TsRunStepStatus::Continue => tsrun_step_result_free(&mut out),
                TsRunStepStatus::Complete => {
                    let d = describe(ctx, out.value);
                    let slot = push_raw(t, out.value);
                    tsrun_step_result_free(&mut out);
                    return json!({"status": "complete", "value": d, "slot": slot});
                }
                TsRunStepStatus::Done => {
                    tsrun_step_result_free(&mut out);
                    return json!({"status": "done"});
                }
                TsRunStepStatus::Error => {
                    let e = cstr(out.error);
                    tsrun_step_result_free(&mut out);
                    return json!({"status": "error", "error": e});
                }
                TsRunStepStatus::NeedImports => {
                    tsrun_step_result_free(&mut out);
                    return json!({"status": "needimports"});
                }
                TsRunStepStatus::Suspended => {
                    if out.pending_count == 0 {
                        tsrun_step_result_free(&mut out);
                        return json!({"status": "suspended"});
                    }
                    // answer every order with {"echo": <payload json>, "n": id}; the response values are released
                    // right after (or, on request, right before the step that consumes them)
                    let mut made = Vec::new();
                    let mut responses = Vec::new();
                    for i in 0..out.pending_count {
                        let o = &*out.pending_orders.add(i);
                        let s = tsrun_json_stringify(ctx, o.payload);
                        let text = cstr(s as *const c_char).unwrap_or_else(|| "null".to_string());
                        if !s.is_null() {
                            tsrun_free_string(s);
                        }
                        let body = CString::new(format!("{{\"echo\": {}, \"n\": {}}}", text, o.id)).unwrap_or_default();
                        let v = tsrun_json_parse(ctx, body.as_ptr());
                        made.push(v.value);
                        responses.push(TsRunOrderResponse { id: o.id, value: v.value, error: std::ptr::null() });
                    }
                    tsrun_step_result_free(&mut out);
                    let _ = tsrun_fulfill_orders(ctx, responses.as_ptr(), responses.len());
                    let _ = release_responses_first;
                    for v in made {
                        if !v.is_null() {
                            tsrun_value_free(v);
                        }
                    }
                }
            }
        }
    }
}

fn one_op(t: &mut Tables, op: &Value) -> Value {
    let name = op.get("op").and_then(|v| v.as_str()).unwrap_or("");
    let key = CString::new(op.get("key").and_then(|v| v.as_str()).unwrap_or("")).unwrap_or_default();
    let key_ptr = if op.get("key").map(|v| v.is_null()).unwrap_or(true) { std::ptr::null() } else { key.as_ptr() };
    unsafe {
        match name {
            "new" => {
                let c = tsrun_new();
                t.ctxs.push(c);
                json!({"ctx": t.ctxs.len() - 1, "null": c.is_null()})
            }
            "free" => {
                let i = i64f(op.get("ctx"));
                let c = t.ctx(op, "ctx");
                tsrun_free(c);
                if i >= 0 {
                    if let Some(s) = t.ctxs.get_mut(i as usize) {
                        *s = std::ptr::null_mut();
                    }
                }
                json!({"freed": true})
            }
            "number" => {
                let v = tsrun_number(t.ctx(op, "ctx"), op.get("v").and_then(|x| x.as_f64()).unwrap_or(0.0));
                push_raw(t, v)
            }
            "string" => {
                let s = op.get("v").and_then(|x| x.as_str()).map(|s| CString::new(s).unwrap_or_default());
                let v = tsrun_string(t.ctx(op, "ctx"), s.as_ref().map(|c| c.as_ptr()).unwrap_or(std::ptr::null()));
                push_raw(t, v)
            }
            "boolean" => {
                let v = tsrun_boolean(t.ctx(op, "ctx"), op.get("v").and_then(|x| x.as_bool()).unwrap_or(false));
                push_raw(t, v)
            }
            "null" => {
                let v = tsrun_null(t.ctx(op, "ctx"));
                push_raw(t, v)
            }
            "undefined" => {
                let v = tsrun_undefined(t.ctx(op, "ctx"));
                push_raw(t, v)
            }
            "object_new" => {
                let r = tsrun_object_new(t.ctx(op, "ctx"));
                push_val(t, r)
            }
            "array_new" => {
                let r = tsrun_array_new(t.ctx(op, "ctx"));
                push_val(t, r)
            }
            "json_parse" => {
                let s = op.get("v").and_then(|x| x.as_str()).map(|s| CString::new(s).unwrap_or_default());
                let r = tsrun_json_parse(t.ctx(op, "ctx"), s.as_ref().map(|c| c.as_ptr()).unwrap_or(std::ptr::null()));
                push_val(t, r)
            }
            "dup" => {
                let v = tsrun_value_dup(t.ctx(op, "ctx"), t.val(op, "val"));
                push_raw(t, v)
            }
            "vfree" => {
                let i = i64f(op.get("val"));
                tsrun_value_free(t.val(op, "val"));
                if i >= 0 {
                    if let Some(s) = t.vals.get_mut(i as usize) {
                        *s = std::ptr::null_mut();
                    }
                }
                json!({"freed": true})
            }
            "inspect" => {
                let v = t.val(op, "val");
                let c = t.ctx(op, "ctx");
                let strv = if !v.is_null() && tsrun_is_string(v) { cstr(tsrun_get_string(v)) } else { None };
                json!({"type": tsrun_typeof(v) as i32, "undefined": tsrun_is_undefined(v), "isnull": tsrun_is_null(v), "nullish": tsrun_is_nullish(v),
                       "boolean": tsrun_is_boolean(v), "number": tsrun_is_number(v), "string": tsrun_is_string(v), "object": tsrun_is_object(v),
                       "array": tsrun_is_array(v), "function": tsrun_is_function(v), "get_bool": tsrun_get_bool(v),
                       "get_number": format!("{:016x}", tsrun_get_number(v).to_bits()), "get_string": strv, "string_len": tsrun_get_string_len(v),
                       "array_len": tsrun_array_len(v), "described": describe(c, v)})
            }
            "get" => {
                let r = tsrun_get(t.ctx(op, "ctx"), t.val(op, "obj"), key_ptr);
                push_val(t, r)
            }
            "set" => res_unit(tsrun_set(t.ctx(op, "ctx"), t.val(op, "obj"), key_ptr, t.val(op, "val"))),
            "has" => json!({"has": tsrun_has(t.ctx(op, "ctx"), t.val(op, "obj"), key_ptr)}),
            "delete" => res_unit(tsrun_delete(t.ctx(op, "ctx"), t.val(op, "obj"), key_ptr)),
            "keys" => {
                let mut n: usize = 0;
                let ks = tsrun_keys(t.ctx(op, "ctx"), t.val(op, "obj"), &mut n);
                let mut out = Vec::new();
                if !ks.is_null() {
                    for i in 0..n {
                        out.push(cstr(*ks.add(i)));
                    }
                    tsrun_free_strings(ks, n);
                }
                json!({"keys": out, "null": ks.is_null()})
            }
            "array_get" => {
                let r = tsrun_array_get(t.ctx(op, "ctx"), t.val(op, "obj"), op.get("index").and_then(|x| x.as_u64()).unwrap_or(0) as usize);
                push_val(t, r)
            }
            "array_set" => res_unit(tsrun_array_set(t.ctx(op, "ctx"), t.val(op, "obj"), op.get("index").and_then(|x| x.as_u64()).unwrap_or(0) as usize, t.val(op, "val"))),
            "array_push" => res_unit(tsrun_array_push(t.ctx(op, "ctx"), t.val(op, "obj"), t.val(op, "val"))),
            "get_global" => {
                let r = tsrun_get_global(t.ctx(op, "ctx"), key_ptr);
                push_val(t, r)
            }
            "set_global" => res_unit(tsrun_set_global(t.ctx(op, "ctx"), key_ptr, t.val(op, "val"))),
            "native" => {
                let r = tsrun_native_function(t.ctx(op, "ctx"), key_ptr, reenter, 1, std::ptr::null_mut());
                push_val(t, r)
            }
            "call" | "call_method" => {
                let mut args: Vec<*mut TsRunValue> = op
                    .get("args")
                    .and_then(|a| a.as_array())
                    .map(|a| a.iter().map(|x| { let i = x.as_i64().unwrap_or(-1); if i < 0 { std::ptr::null_mut() } else { t.vals.get(i as usize).copied().unwrap_or(std::ptr::null_mut()) } }).collect())
                    .unwrap_or_default();
                let argv = if op.get("null_argv").and_then(|x| x.as_bool()).unwrap_or(false) { std::ptr::null_mut() } else { args.as_mut_ptr() };
                let r = if name == "call" {
                    tsrun_call(t.ctx(op, "ctx"), t.val(op, "obj"), t.val(op, "this"), argv, args.len())
                } else {
                    tsrun_call_method(t.ctx(op, "ctx"), t.val(op, "obj"), key_ptr, argv, args.len())
                };
                push_val(t, r)
            }
            "eval" => {
                let c = t.ctx(op, "ctx");
                if c.is_null() {
                    let r = tsrun_prepare(c, std::ptr::null(), std::ptr::null());
                    return json!({"status": "null-ctx", "ok": r.ok});
                }
                let src = op.get("src").and_then(|x| x.as_str()).unwrap_or("");
                run_script(c, src, t, op.get("stepwise").and_then(|x| x.as_bool()).unwrap_or(false), false)
            }
            "gc_stats" => {
                let s = tsrun_gc_stats(t.ctx(op, "ctx"));
                json!({"total": s.total_objects, "pooled": s.pooled_objects, "live": s.live_objects})
            }
            _ => json!({"unknown_op": name}),
        }
    }
}

pub fn main(args: &[String]) -> i32 {
    let (input, output) = match (args.first(), args.get(1)) {
        (Some(a), Some(b)) => (a.clone(), b.clone()),
        _ => return 2,
    };
    let skip: usize = args.get(2).and_then(|x| x.parse().ok()).unwrap_or(0);
    let text = match std::fs::read_to_string(&input) {
        Ok(t) => t,
        Err(_) => return 2,
    };
    let mut fout = match std::fs::OpenOptions::new().create(true).append(true).open(&output) {
        Ok(f) => f,
        Err(_) => return 2,
    };
    std::panic::set_hook(Box::new(|_| {}));
    for (idx, line) in text.lines().enumerate() {
        if idx < skip || line.trim().is_empty() {
            continue;
        }
        let req: Value = match serde_json::from_str(line) {
            Ok(v) => v,
            Err(_) => continue,
        };
        tsrun::verif_hooks::reset();
        let mut t = Tables { ctxs: Vec::new(), vals: Vec::new() };
        let mut results = Vec::new();
        let _ = writeln!(fout, "{}", json!({"begin": idx}));
        let _ = fout.flush();
        if let Some(ops) = req.get("ops").and_then(|v| v.as_array()) {
            for (k, op) in ops.iter().enumerate() {
                let _ = writeln!(fout, "{}", json!({"at": k}));
                let _ = fout.flush();
                results.push(one_op(&mut t, op));
            }
        }
        // release what the sequence left behind: values first or contexts first, as asked
        let ctx_first = req.get("free_contexts_first").and_then(|v| v.as_bool()).unwrap_or(false);
        unsafe {
            if ctx_first {
                for c in t.ctxs.iter_mut() {
                    if !c.is_null() {
                        tsrun_free(*c);
                        *c = std::ptr::null_mut();
                    }
                }
            }
            for v in t.vals.iter_mut() {
                if !v.is_null() {
                    tsrun_value_free(*v);
                    *v = std::ptr::null_mut();
                }
            }
            for c in t.ctxs.iter_mut() {
                if !c.is_null() {
                    tsrun_free(*c);
                    *c = std::ptr::null_mut();
                }
            }
        }
        let stale = tsrun::verif_hooks::snapshot().stale_events;
        let _ = writeln!(fout, "{}", json!({"done": idx, "results": results, "stale": stale}));
        let _ = fout.flush();
    }
    0
}
