//! C05: the front end alone. Input: one JSON per line {"name": .., "src": ..}; output one JSON per line
//! {"name", "begin": true} before and {"name", "status", "class", "message", "parser_advances", "lexer_tokens", "len"} after,
//! flushed, so that a dying process (stack overflow, abort) loses only the current input. args: in out [skip]
use serde_json::{json, Value};
use std::io::Write;
use std::panic::{catch_unwind, AssertUnwindSafe};
use tsrun::compiler::Compiler;
use tsrun::parser::Parser;
use tsrun::StringDict;

pub fn main(args: &[String]) -> i32 {
    let (input, output) = match (args.first(), args.get(1)) {
        (Some(a), Some(b)) => (a.clone(), b.clone()),
        _ => return 2,
    };
    let skip: usize = args.get(2).and_then(|x| x.parse().ok()).unwrap_or(0);
    let text = match std::fs::read_to_string(&input) {
        Ok(t) => t,
        Err(_) => return 2,
    };
    let mut fout = match std::fs::OpenOptions::new().create(true).append(true).open(&output) {
        Ok(f) => f,
        Err(_) => return 2,
    };
    std::panic::set_hook(Box::new(|_| {}));
    for (idx, line) in text.lines().enumerate() {
        if idx < skip || line.trim().is_empty() {
            continue;
        }
        let req: Value = match serde_json::from_str(line) {
            Ok(v) => v,
            Err(_) => continue,
        };
        let name = req.get("name").and_then(|v| v.as_str()).unwrap_or("").to_string();
        let src = req.get("src").and_then(|v| v.as_str()).unwrap_or("").to_string();
        let as_module = req.get("module").and_then(|v| v.as_bool()).unwrap_or(false);
        let _ = writeln!(fout, "{}", json!({"name": name, "begin": true}));
        let _ = fout.flush();
        tsrun::verif_hooks::reset();
        let r = catch_unwind(AssertUnwindSafe(|| {
            let mut dict = StringDict::new();
            let mut parser = Parser::new(&src, &mut dict);
            match parser.parse_program() {
                Err(e) => {
                    let (c, m) = crate::run::error_class(&e);
                    json!({"status": "rejected", "stage": "parse", "class": c, "message": m})
                }
                Ok(program) => {
                    let compiled = if as_module {
                        Compiler::compile_program_with_source(&program, "/m.ts".to_string())
                    } else {
                        Compiler::compile_program(&program)
                    };
                    match compiled {
                        Ok(chunk) => json!({"status": "accepted", "ops": chunk.code.len()}),
                        Err(e) => {
                            let (c, m) = crate::run::error_class(&e);
                            json!({"status": "rejected", "stage": "compile", "class": c, "message": m})
                        }
                    }
                }
            }
        }));
        let mut j = r.unwrap_or(json!({"status": "panic"}));
        let h = tsrun::verif_hooks::snapshot();
        j["name"] = json!(name);
        j["parser_advances"] = json!(h.parser_advances);
        j["lexer_tokens"] = json!(h.lexer_tokens);
        j["len"] = json!(src.chars().count());
        let _ = writeln!(fout, "{}", j);
        let _ = fout.flush();
    }
    0
}
