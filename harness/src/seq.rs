//! C11/C14/C02: several runs on ONE interpreter.
//! One JSON request per line:
//!   {"gc": n?, "runs": [ {"src": "...", "path": "/m.ts"|null, "abandon_after": k?, "collect_every": k?, "modules": {"/dep.ts": "..."}? } ... ]}
//! Orders are answered with twice their numeric payload as soon as they are reported.
//! Output: {"runs": [ {"status", "value"/"class"/"message", "log", "summary", "live", "call_depth", "steps", "stale"} ... ]}
use serde_json::{json, Value};
use std::cell::RefCell;
use std::io::Write;
use std::panic::{catch_unwind, AssertUnwindSafe};
use std::rc::Rc;
use tsrun::{
    api, create_eval_internal_module, Interpreter, InterpreterConfig, ModulePath, OrderResponse, RuntimeValue, StepResult,
};

fn one_run(interp: &mut Interpreter, run: &Value, log: &Rc<RefCell<Vec<String>>>) -> Value {
    let src = run.get("src").and_then(|v| v.as_str()).unwrap_or("");
    let path = run.get("path").and_then(|v| v.as_str()).map(|p| ModulePath::new(p.to_string()));
    let abandon = run.get("abandon_after").and_then(|v| v.as_u64());
    let collect_every = run.get("collect_every").and_then(|v| v.as_u64());
    let use_eval = run.get("eval").and_then(|v| v.as_bool()).unwrap_or(false);
    let on_mark = run.get("abandon_on_mark").and_then(|v| v.as_bool()).unwrap_or(false);
    log.borrow_mut().clear();
    let guard = api::create_guard(interp);
    let mut steps = 0u64;
    let mut cur = if use_eval { interp.eval(src, path) } else { interp.prepare(src, path) };
    let mut idle = 0;
    let out = loop {
        match cur {
            Err(e) => {
                let (c, m) = crate::run::error_class(&e);
                let stack: Vec<Value> = match &e {
                    tsrun::JsError::RuntimeError { stack, .. } => stack
                        .iter()
                        .map(|f| json!([f.function_name.clone(), f.file.clone(), f.line, f.column]))
                        .collect(),
                    _ => Vec::new(),
                };
                let location = match &e {
                    tsrun::JsError::SyntaxError { location, .. } => json!([location.file.clone(), location.line, location.column, location.length]),
                    tsrun::JsError::TypeError { location: Some(l), .. } => json!([l.file.clone(), l.line, l.column, l.length]),
                    _ => Value::Null,
                };
                break json!({"status": "error", "class": c, "message": m, "stack": stack, "location": location, "text": e.to_string()});
            }
            Ok(StepResult::Continue) => {
                steps += 1;
                if let Some(k) = abandon {
                    if steps > k {
                        break json!({"status": "abandoned"});
                    }
                }
                if on_mark && log.borrow().iter().any(|l| l == "MARK") {
                    break json!({"status": "abandoned"});
                }
                if steps > 5_000_000 {
                    break json!({"status": "steplimit"});
                }
                if let Some(k) = collect_every {
                    if k > 0 && steps % k == 0 {
                        interp.collect();
                    }
                }
                cur = interp.step();
            }
            Ok(StepResult::Complete(v)) => {
                let j = tsrun::js_value_to_json(v.value()).unwrap_or(json!("!unserialisable"));
                break json!({"status": "complete", "value": crate::run::render_value(v.value()), "json": j});
            }
            Ok(StepResult::Done) => break json!({"status": "done"}),
            Ok(StepResult::NeedImports(reqs)) => {
                let mut missing = Vec::new();
                for r in &reqs {
                    let p = r.resolved_path.as_str().to_string();
                    match run.get("modules").and_then(|m| m.get(&p)).and_then(|v| v.as_str()) {
                        Some(s) => {
                            if let Err(e) = interp.provide_module(r.resolved_path.clone(), s) {
                                let (c, m) = crate::run::error_class(&e);
                                missing.push(format!("{}: {} {}", p, c, m));
                            }
                        }
                        None => missing.push(p),
                    }
                }
                if !missing.is_empty() {
                    break json!({"status": "needimports", "missing": missing});
                }
                cur = interp.step();
            }
            Ok(StepResult::Suspended { pending, .. }) => {
                if run.get("collect_when_suspended").and_then(|v| v.as_bool()).unwrap_or(false) {
                    // the host collects while the whole stack of the run is parked in the saved state
                    interp.collect();
                }
                if pending.is_empty() {
                    idle += 1;
                    if idle > 8 {
                        break json!({"status": "suspended"});
                    }
                } else {
                    idle = 0;
                    if run.get("never_answer").and_then(|v| v.as_bool()).unwrap_or(false) {
                        break json!({"status": "abandoned-suspended"});
                    }
                    let mut resp = Vec::new();
                    for o in &pending {
                        let payload = tsrun::js_value_to_json(o.payload.value()).unwrap_or(Value::Null);
                        let answer = match payload.as_f64() {
                            Some(x) => json!(x * 2.0),
                            None => payload,
                        };
                        let v = api::create_from_json(interp, &guard, &answer).unwrap_or(tsrun::JsValue::Undefined);
                        resp.push(OrderResponse { id: o.id, result: Ok(RuntimeValue::unguarded(v)) });
                    }
                    interp.fulfill_orders(resp);
                }
                cur = interp.step();
            }
        }
    };
    drop(guard);
    let mut out = out;
    out["steps"] = json!(steps);
    out["log"] = json!(*log.borrow());
    out["call_depth"] = json!(interp.call_depth());
    out["summary"] = crate::run::summary_json(interp);
    interp.collect();
    out["live"] = json!(interp.gc_stats().live_objects);
    out["stale"] = json!(tsrun::verif_hooks::snapshot().stale_events);
    out
}

pub fn one(req: &Value) -> Value {
    let log = Rc::new(RefCell::new(Vec::new()));
    let config = InterpreterConfig { internal_modules: vec![create_eval_internal_module()], ..Default::default() };
    let mut interp = Interpreter::with_config(config);
    interp.set_console(Box::new(crate::run::Capture(log.clone())));
    if let Some(t) = req.get("gc").and_then(|v| v.as_u64()) {
        interp.set_gc_threshold(t as usize);
    }
    tsrun::verif_hooks::reset();
    let mut outs = Vec::new();
    interp.collect();
    let base = interp.gc_stats().live_objects;
    if let Some(runs) = req.get("runs").and_then(|v| v.as_array()) {
        for r in runs {
            outs.push(one_run(&mut interp, r, &log));
        }
    }
    json!({"runs": outs, "base_live": base})
}

pub fn main(args: &[String]) -> i32 {
    let (input, output) = match (args.first(), args.get(1)) {
        (Some(a), Some(b)) => (a.clone(), b.clone()),
        _ => return 2,
    };
    let text = match std::fs::read_to_string(&input) {
        Ok(t) => t,
        Err(_) => return 2,
    };
    let mut fout = match std::fs::File::create(&output) {
        Ok(f) => f,
        Err(_) => return 2,
    };
    std::panic::set_hook(Box::new(|_| {}));
    for line in text.lines() {
        if line.trim().is_empty() {
            continue;
        }
        let req: Value = match serde_json::from_str(line) {
            Ok(v) => v,
            Err(e) => {
                let _ = writeln!(fout, "{}", json!({"error": format!("bad request: {}", e)}));
                continue;
            }
        };
        let res = catch_unwind(AssertUnwindSafe(|| one(&req)));
        let j = match res {
            Ok(v) => v,
            Err(_) => json!({"error": "panic"}),
        };
        let _ = writeln!(fout, "{}", j);
        let _ = fout.flush();
    }
    0
}
