use std::io::{BufRead, BufReader, BufWriter, Write};

pub fn hex(b: &[u8]) -> String {
    let mut s = String::with_capacity(b.len() * 2);
    for x in b {
        s.push_str(&format!("{:02x}", x));
    }
    s
}

pub fn unhex(s: &str) -> Vec<u8> {
    let b = s.as_bytes();
    let mut out = Vec::with_capacity(b.len() / 2);
    let mut i = 0;
    while i + 1 < b.len() {
        let h = (b[i] as char).to_digit(16).unwrap_or(0) as u8;
        let l = (b[i + 1] as char).to_digit(16).unwrap_or(0) as u8;
        out.push(h * 16 + l);
        i += 2;
    }
    out
}

pub fn for_each_line<F: FnMut(&str, &mut dyn Write)>(input: &str, output: &str, mut f: F) -> i32 {
    let fin = match std::fs::File::open(input) {
        Ok(f) => f,
        Err(e) => {
            eprintln!("cannot open {}: {}", input, e);
            return 2;
        }
    };
    let fout = match std::fs::File::create(output) {
        Ok(f) => f,
        Err(e) => {
            eprintln!("cannot create {}: {}", output, e);
            return 2;
        }
    };
    let mut w = BufWriter::new(fout);
    for line in BufReader::new(fin).lines() {
        let line = match line {
            Ok(l) => l,
            Err(_) => break,
        };
        f(&line, &mut w);
    }
    let _ = w.flush();
    0
}
