//! C10: the real RegisterAllocator (reached through BytecodeBuilder::registers)
//! on op sequences: A | F r | R c | S | X | NEW.
use crate::util::*;
use std::io::Write;
use tsrun::compiler::BytecodeBuilder;

pub fn main(args: &[String]) -> i32 {
    let (input, output) = match (args.first(), args.get(1)) {
        (Some(a), Some(b)) => (a.clone(), b.clone()),
        _ => return 2,
    };
    let mut b = BytecodeBuilder::new();
    for_each_line(&input, &output, |line, w| {
        let mut it = line.split(' ');
        let op = it.next().unwrap_or("");
        let arg: u8 = it.next().and_then(|x| x.parse().ok()).unwrap_or(0);
        let r = match op {
            "NEW" => {
                b = BytecodeBuilder::new();
                "new".to_string()
            }
            "A" => match b.registers().alloc() {
                Ok(r) => format!("ok {}", r),
                Err(_) => "err".to_string(),
            },
            "F" => {
                b.registers().free(arg);
                "unit".to_string()
            }
            "R" => match b.registers().reserve_range(arg) {
                Ok(r) => format!("ok {}", r),
                Err(_) => "err".to_string(),
            },
            "S" => {
                b.registers().save();
                "unit".to_string()
            }
            "X" => {
                b.registers().restore();
                "unit".to_string()
            }
            _ => "?".to_string(),
        };
        let _ = writeln!(w, "{} | {} {}", r, b.registers().current(), b.registers().max_used());
    })
}
