//! C19: one program, every way of running it.
//! Request (one JSON per line): {"program": src, "path": "/main.ts"|null, "modules": {"/dep.ts": src, ...},
//!                              "internal": {"spec": src, ...}?, "ways": ["eval","step","pause","capi-run","capi-step"]}
//! Orders are answered with twice their numeric payload. Output: {"<way>": trace} with
//! trace = {"events": [...], "final": {...}, "log": [...], "exports": {name: json}}
use serde_json::{json, Map, Value};
use std::cell::RefCell;
use std::ffi::{CStr, CString};
use std::io::Write;
use std::panic::{catch_unwind, AssertUnwindSafe};
use std::rc::Rc;
use tsrun::ffi::{TsRunConsoleFn, TsRunConsoleLevel, TsRunContext, TsRunOrderResponse, TsRunResult, TsRunStepResult, TsRunStepStatus, TsRunType, TsRunValue, TsRunValueResult};
use tsrun::{
    api, create_eval_internal_module, InternalModule, Interpreter, InterpreterConfig, ModulePath, OrderResponse, RuntimeValue,
    StepResult,
};


#[allow(improper_ctypes)]
unsafe extern "C" {
    fn tsrun_new() -> *mut TsRunContext;
    fn tsrun_free(ctx: *mut TsRunContext);
    fn tsrun_set_console(ctx: *mut TsRunContext, func: Option<TsRunConsoleFn>, userdata: *mut std::ffi::c_void) -> TsRunResult;
    fn tsrun_prepare(ctx: *mut TsRunContext, code: *const std::os::raw::c_char, path: *const std::os::raw::c_char) -> TsRunResult;
    fn tsrun_step(out: *mut TsRunStepResult, ctx: *mut TsRunContext);
    fn tsrun_run(out: *mut TsRunStepResult, ctx: *mut TsRunContext);
    fn tsrun_step_result_free(result: *mut TsRunStepResult);
    fn tsrun_provide_module(ctx: *mut TsRunContext, path: *const std::os::raw::c_char, code: *const std::os::raw::c_char) -> TsRunResult;
    fn tsrun_get_export(ctx: *mut TsRunContext, name: *const std::os::raw::c_char) -> TsRunValueResult;
    fn tsrun_get_export_names(ctx: *mut TsRunContext, count_out: *mut usize) -> *mut *mut std::os::raw::c_char;
    fn tsrun_free_strings(strings: *mut *mut std::os::raw::c_char, count: usize);
    fn tsrun_free_string(s: *mut std::os::raw::c_char);
    fn tsrun_fulfill_orders(ctx: *mut TsRunContext, responses: *const TsRunOrderResponse, count: usize) -> TsRunResult;
    fn tsrun_json_parse(ctx: *mut TsRunContext, json: *const std::os::raw::c_char) -> TsRunValueResult;
    fn tsrun_json_stringify(ctx: *mut TsRunContext, val: *mut TsRunValue) -> *mut std::os::raw::c_char;
    fn tsrun_number(ctx: *mut TsRunContext, n: f64) -> *mut TsRunValue;
    fn tsrun_typeof(val: *const TsRunValue) -> TsRunType;
    fn tsrun_is_number(val: *const TsRunValue) -> bool;
    fn tsrun_get_number(val: *const TsRunValue) -> f64;
    fn tsrun_is_string(val: *const TsRunValue) -> bool;
    fn tsrun_get_string(val: *const TsRunValue) -> *const std::os::raw::c_char;
    fn tsrun_is_boolean(val: *const TsRunValue) -> bool;
    fn tsrun_get_bool(val: *const TsRunValue) -> bool;
    fn tsrun_is_undefined(val: *const TsRunValue) -> bool;
    fn tsrun_is_null(val: *const TsRunValue) -> bool;
    fn tsrun_is_object(val: *const TsRunValue) -> bool;
    fn tsrun_value_free(val: *mut TsRunValue);
}

fn config(req: &Value) -> InterpreterConfig {
    let mut mods = vec![create_eval_internal_module()];
    if let Some(m) = req.get("internal").and_then(|v| v.as_object()) {
        for (spec, src) in m {
            mods.push(InternalModule::source(spec.clone(), src.as_str().unwrap_or("").to_string()));
        }
    }
    InterpreterConfig { internal_modules: mods, ..Default::default() }
}

fn exports_json(interp: &Interpreter) -> Value {
    let mut m = Map::new();
    let mut names = api::get_export_names(interp);
    names.sort();
    for n in names {
        let v = api::get_export(interp, &n).unwrap_or(tsrun::JsValue::Undefined);
        let j = match &v {
            tsrun::JsValue::Object(_) => tsrun::js_value_to_json(&v).unwrap_or(json!("!unserialisable")),
            other => json!(crate::run::render_value(other)),
        };
        m.insert(n, j);
    }
    Value::Object(m)
}

/// Rust API: eval / prepare+step / prepare+step with host reads between steps
fn rust_way(req: &Value, way: &str) -> Value {
    let log = Rc::new(RefCell::new(Vec::new()));
    let mut interp = Interpreter::with_config(config(req));
    interp.set_console(Box::new(crate::run::Capture(log.clone())));
    let program = req.get("program").and_then(|v| v.as_str()).unwrap_or("");
    let path = req.get("path").and_then(|v| v.as_str()).map(|p| ModulePath::new(p.to_string()));
    let guard = api::create_guard(&interp);
    let mut events: Vec<Value> = Vec::new();
    let mut steps = 0u64;
    let mut idle = 0;
    let mut provide_failed: Option<String> = None;
    let mut cur = if way == "eval" { interp.eval(program, path) } else { interp.prepare(program, path) };
    let fin = loop {
        match cur {
            Err(e) => {
                let (c, m) = crate::run::error_class(&e);
                break json!({"status": "error", "class": c, "message": m, "text": e.to_string()});
            }
            Ok(StepResult::Continue) => {
                steps += 1;
                if steps > 5_000_000 {
                    break json!({"status": "steplimit"});
                }
                if way == "pause" && steps % 3 == 0 {
                    // host API reads between steps: none of them may influence the run
                    let _ = interp.gc_stats();
                    let _ = interp.call_depth();
                    let _ = api::get_export_names(&interp);
                    let _ = interp.verif_summary();
                    let g = tsrun::JsValue::Object(interp.global.clone());
                    let _ = api::keys(&g);
                    let _ = api::get_property(&g, "Math");
                }
                cur = interp.step();
            }
            Ok(StepResult::Complete(v)) => {
                let j = tsrun::js_value_to_json(v.value()).unwrap_or(json!("!unserialisable"));
                break json!({"status": "complete", "value": crate::run::render_value(v.value()), "json": j});
            }
            Ok(StepResult::Done) => break json!({"status": "done"}),
            Ok(StepResult::NeedImports(reqs)) => {
                let l: Vec<Value> = reqs
                    .iter()
                    .map(|r| json!([r.specifier, r.resolved_path.as_str(), r.importer.as_ref().map(|p| p.as_str().to_string())]))
                    .collect();
                events.push(json!({"needimports": l}));
                let mut missing = Vec::new();
                for r in &reqs {
                    let p = r.resolved_path.as_str().to_string();
                    match req.get("modules").and_then(|m| m.get(&p)).and_then(|v| v.as_str()) {
                        Some(s) => {
                            if let Err(e) = interp.provide_module(r.resolved_path.clone(), s) {
                                provide_failed = Some(format!("{}: {}", p, e));
                            }
                        }
                        None => missing.push(p),
                    }
                }
                if let Some(text) = provide_failed.take() {
                    break json!({"status": "error", "text": text});
                }
                if !missing.is_empty() {
                    break json!({"status": "needimports", "missing": missing});
                }
                cur = interp.step();
            }
            Ok(StepResult::Suspended { pending, cancelled }) => {
                if pending.is_empty() && cancelled.is_empty() {
                    idle += 1;
                    if idle > 8 {
                        break json!({"status": "suspended"});
                    }
                } else {
                    idle = 0;
                    let p: Vec<Value> = pending
                        .iter()
                        .map(|o| json!([o.id.0, tsrun::js_value_to_json(o.payload.value()).unwrap_or(json!("!"))]))
                        .collect();
                    let c: Vec<u64> = cancelled.iter().map(|c| c.0).collect();
                    events.push(json!({"orders": p, "cancelled": c}));
                    let mut resp = Vec::new();
                    for o in &pending {
                        let payload = tsrun::js_value_to_json(o.payload.value()).unwrap_or(Value::Null);
                        let answer = match payload.as_f64() {
                            Some(x) => json!(x * 2.0),
                            None => payload,
                        };
                        let v = api::create_from_json(&mut interp, &guard, &answer).unwrap_or(tsrun::JsValue::Undefined);
                        resp.push(OrderResponse { id: o.id, result: Ok(RuntimeValue::unguarded(v)) });
                    }
                    interp.fulfill_orders(resp);
                }
                cur = interp.step();
            }
        }
    };
    drop(guard);
    json!({"events": events, "final": fin, "log": *log.borrow(), "exports": exports_json(&interp)})
}

unsafe fn cstr(p: *const std::os::raw::c_char) -> Option<String> {
    if p.is_null() {
        None
    } else {
        Some(unsafe { CStr::from_ptr(p) }.to_string_lossy().into_owned())
    }
}

thread_local! { static CLOG: RefCell<Vec<String>> = const { RefCell::new(Vec::new()) }; }

extern "C" fn console_cb(_level: TsRunConsoleLevel, message: *const std::os::raw::c_char, len: usize, _ud: *mut std::ffi::c_void) {
    if message.is_null() {
        return;
    }
    let bytes = unsafe { std::slice::from_raw_parts(message as *const u8, len) };
    CLOG.with(|l| l.borrow_mut().push(String::from_utf8_lossy(bytes).into_owned()));
}

/// C API: tsrun_prepare then tsrun_run ("capi-run") or tsrun_step ("capi-step")
fn capi_way(req: &Value, way: &str) -> Value {
    if req.get("internal").is_some() {
        return json!({"skipped": "internal source modules are registered through the Rust configuration only"});
    }
    CLOG.with(|l| l.borrow_mut().clear());
    let program = CString::new(req.get("program").and_then(|v| v.as_str()).unwrap_or("")).unwrap_or_default();
    let path = req.get("path").and_then(|v| v.as_str()).map(|p| CString::new(p).unwrap_or_default());
    let mut events: Vec<Value> = Vec::new();
    unsafe {
        let ctx = tsrun_new();
        tsrun_set_console(ctx, Some(console_cb), std::ptr::null_mut());
        let r = tsrun_prepare(ctx, program.as_ptr(), path.as_ref().map(|p| p.as_ptr()).unwrap_or(std::ptr::null()));
        let fin;
        if !r.ok {
            let msg = cstr(r.error).unwrap_or_default();
            fin = json!({"status": "error", "text": msg});
        } else {
            let mut steps = 0u64;
            let mut idle = 0;
            let mut provide_failed: Option<String> = None;
            fin = loop {
                let mut out: TsRunStepResult = TsRunStepResult::default();
                if way == "capi-run" {
                    tsrun_run(&mut out, ctx);
                } else {
                    tsrun_step(&mut out, ctx);
                }
                steps += 1;
                if steps > 5_000_000 {
                    tsrun_step_result_free(&mut out);
                    break json!({"status": "steplimit"});
                }
                match out.status {
                    TsRunStepStatus::Continue => {
                        tsrun_step_result_free(&mut out);
                    }
                    TsRunStepStatus::Complete => {
                        let s = tsrun_json_stringify(ctx, out.value);
                        let text = cstr(s as *const _);
                        let ty = if out.value.is_null() { None } else { Some(tsrun_typeof(out.value) as i32) };
                        let prim = if out.value.is_null() {
                            Value::Null
                        } else if tsrun_is_number(out.value) {
                            json!(format!("num:{:016x}", tsrun_get_number(out.value).to_bits()))
                        } else if tsrun_is_string(out.value) {
                            json!(format!("str:{}", cstr(tsrun_get_string(out.value)).unwrap_or_default()))
                        } else if tsrun_is_boolean(out.value) {
                            json!(format!("bool:{}", tsrun_get_bool(out.value)))
                        } else if tsrun_is_undefined(out.value) {
                            json!("undefined")
                        } else if tsrun_is_null(out.value) {
                            json!("null")
                        } else {
                            json!("object")
                        };
                        if !s.is_null() {
                            tsrun_free_string(s);
                        }
                        if !out.value.is_null() {
                            tsrun_value_free(out.value);
                        }
                        tsrun_step_result_free(&mut out);
                        let j: Value = text.as_deref().and_then(|t| serde_json::from_str(t).ok()).unwrap_or(Value::Null);
                        break json!({"status": "complete", "value": prim, "json": j, "type": ty});
                    }
                    TsRunStepStatus::Done => {
                        tsrun_step_result_free(&mut out);
                        break json!({"status": "done"});
                    }
                    TsRunStepStatus::Error => {
                        let msg = cstr(out.error).unwrap_or_default();
                        tsrun_step_result_free(&mut out);
                        break json!({"status": "error", "text": msg});
                    }
                    TsRunStepStatus::NeedImports => {
                        let mut l = Vec::new();
                        let mut missing = Vec::new();
                        let mut todo = Vec::new();
                        for i in 0..out.import_count {
                            let r = &*out.imports.add(i);
                            let spec = cstr(r.specifier).unwrap_or_default();
                            let res = cstr(r.resolved_path).unwrap_or_default();
                            let imp = cstr(r.importer);
                            l.push(json!([spec, res, imp]));
                            todo.push(res);
                        }
                        events.push(json!({"needimports": l}));
                        tsrun_step_result_free(&mut out);
                        for p in todo {
                            match req.get("modules").and_then(|m| m.get(&p)).and_then(|v| v.as_str()) {
                                Some(s) => {
                                    let cp = CString::new(p.clone()).unwrap_or_default();
                                    let cs = CString::new(s).unwrap_or_default();
                                    let r = tsrun_provide_module(ctx, cp.as_ptr(), cs.as_ptr());
                                    if !r.ok {
                                        provide_failed = Some(format!("{}: {}", p, cstr(r.error).unwrap_or_default()));
                                    }
                                }
                                None => missing.push(p),
                            }
                        }
                        if let Some(text) = provide_failed.take() {
                            break json!({"status": "error", "text": text});
                        }
                        if !missing.is_empty() {
                            break json!({"status": "needimports", "missing": missing});
                        }
                    }
                    TsRunStepStatus::Suspended => {
                        if out.pending_count == 0 && out.cancelled_count == 0 {
                            idle += 1;
                            tsrun_step_result_free(&mut out);
                            if idle > 8 {
                                break json!({"status": "suspended"});
                            }
                        } else {
                            idle = 0;
                            let mut p = Vec::new();
                            let mut responses = Vec::new();
                            let mut made = Vec::new();
                            for i in 0..out.pending_count {
                                let o = &*out.pending_orders.add(i);
                                let s = tsrun_json_stringify(ctx, o.payload);
                                let text = cstr(s as *const _).unwrap_or_default();
                                if !s.is_null() {
                                    tsrun_free_string(s);
                                }
                                let payload: Value = serde_json::from_str(&text).unwrap_or(Value::Null);
                                p.push(json!([o.id, payload]));
                                let v = match payload.as_f64() {
                                    Some(x) => tsrun_number(ctx, x * 2.0),
                                    None => {
                                        let ct = CString::new(text).unwrap_or_default();
                                        let r = tsrun_json_parse(ctx, ct.as_ptr());
                                        r.value
                                    }
                                };
                                made.push(v);
                                responses.push(TsRunOrderResponse { id: o.id, value: v, error: std::ptr::null() });
                            }
                            let mut c = Vec::new();
                            for i in 0..out.cancelled_count {
                                c.push(*out.cancelled_orders.add(i));
                            }
                            events.push(json!({"orders": p, "cancelled": c}));
                            tsrun_step_result_free(&mut out);
                            let _ = tsrun_fulfill_orders(ctx, responses.as_ptr(), responses.len());
                            for v in made {
                                if !v.is_null() {
                                    tsrun_value_free(v);
                                }
                            }
                        }
                    }
                }
            };
        }
        // exports through the C API
        let mut exports = Map::new();
        let mut count: usize = 0;
        let names = tsrun_get_export_names(ctx, &mut count);
        let mut ns = Vec::new();
        if !names.is_null() {
            for i in 0..count {
                if let Some(n) = cstr(*names.add(i)) {
                    ns.push(n);
                }
            }
            tsrun_free_strings(names, count);
        }
        ns.sort();
        for n in ns {
            let cn = CString::new(n.clone()).unwrap_or_default();
            let r = tsrun_get_export(ctx, cn.as_ptr());
            let j = if r.value.is_null() {
                json!("undefined")
            } else {
                let v = r.value;
                let j = if tsrun_is_object(v) {
                    let s = tsrun_json_stringify(ctx, v);
                    let t = cstr(s as *const _);
                    if !s.is_null() {
                        tsrun_free_string(s);
                    }
                    t.as_deref().and_then(|t| serde_json::from_str(t).ok()).unwrap_or(json!("!unserialisable"))
                } else if tsrun_is_number(v) {
                    json!(format!("num:{:016x}", tsrun_get_number(v).to_bits()))
                } else if tsrun_is_string(v) {
                    json!(format!("str:{}", cstr(tsrun_get_string(v)).unwrap_or_default()))
                } else if tsrun_is_boolean(v) {
                    json!(format!("bool:{}", tsrun_get_bool(v)))
                } else if tsrun_is_null(v) {
                    json!("null")
                } else if tsrun_is_undefined(v) {
                    json!("undefined")
                } else {
                    json!("symbol")
                };
                tsrun_value_free(v);
                j
            };
            exports.insert(n, j);
        }
        tsrun_free(ctx);
        let log = CLOG.with(|l| l.borrow().clone());
        json!({"events": events, "final": fin, "log": log, "exports": Value::Object(exports)})
    }
}

pub fn one(req: &Value) -> Value {
    let mut out = Map::new();
    let ways: Vec<String> = req
        .get("ways")
        .and_then(|v| v.as_array())
        .map(|a| a.iter().filter_map(|x| x.as_str().map(|s| s.to_string())).collect())
        .unwrap_or_else(|| vec!["eval".into(), "step".into(), "pause".into(), "capi-run".into(), "capi-step".into()]);
    for w in ways {
        let r = catch_unwind(AssertUnwindSafe(|| if w.starts_with("capi") { capi_way(req, &w) } else { rust_way(req, &w) }));
        out.insert(w, r.unwrap_or(json!({"panic": true})));
    }
    Value::Object(out)
}

pub fn main(args: &[String]) -> i32 {
    let (input, output) = match (args.first(), args.get(1)) {
        (Some(a), Some(b)) => (a.clone(), b.clone()),
        _ => return 2,
    };
    let text = match std::fs::read_to_string(&input) {
        Ok(t) => t,
        Err(_) => return 2,
    };
    let mut fout = match std::fs::File::create(&output) {
        Ok(f) => f,
        Err(_) => return 2,
    };
    std::panic::set_hook(Box::new(|_| {}));
    for line in text.lines() {
        if line.trim().is_empty() {
            continue;
        }
        let req: Value = match serde_json::from_str(line) {
            Ok(v) => v,
            Err(e) => {
                let _ = writeln!(fout, "{}", json!({"error": format!("bad request: {}", e)}));
                continue;
            }
        };
        let _ = writeln!(fout, "{}", one(&req));
        let _ = fout.flush();
    }
    0
}
