//! Correspondence harness: drives the real tsrun code on case files written by
//! the checks and prints one canonical result per line.
mod util;
mod path;
mod gc;
mod regs;
mod run;
mod compile;
mod num;
mod json;
mod orders;
mod seq;
mod entry;
mod iso;
mod front;
mod capi;

fn main() {
    let args: Vec<String> = std::env::args().collect();
    let cmd = args.get(1).map(|s| s.as_str()).unwrap_or("");
    let rest: Vec<String> = args.iter().skip(2).cloned().collect();
    let code = match cmd {
        "path" => path::main(&rest),
        "gc" => gc::main(&rest),
        "regs" => regs::main(&rest),
        "run" => run::main(&rest),
        "compile" => compile::main(&rest),
        "num" => num::main(&rest),
        "json" => json::main(&rest),
        "orders" => orders::main(&rest),
        "seq" => seq::main(&rest),
        "entry" => entry::main(&rest),
        "iso" => iso::main(&rest),
        "front" => front::main(&rest),
        "capi" => capi::main(&rest),
        _ => {
            eprintln!("usage: th <engine> <args..>");
            2
        }
    };
    std::process::exit(code);
}
