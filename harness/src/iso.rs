//! C12: determinism and isolation. Request: {"programs": [{"src","path"}...], "mode": "solo"|"interleave"|"threads"|"lifetimes",
//!                                           "schedule": [k1, k2, ...] (steps given in turn to each live interpreter), "seed": n}
//! Every interpreter gets a counting time provider and an xorshift random provider with a fixed seed.
//! Output: {"traces": [trace per program]} with trace = {"kinds": "c37 S[1] c12 C", "final":..., "log":[...], "steps": n}
use serde_json::{json, Value};
use std::cell::{Cell, RefCell};
use std::io::Write;
use std::panic::{catch_unwind, AssertUnwindSafe};
use std::rc::Rc;
use tsrun::platform::{RandomProvider, TimeProvider};
use tsrun::{api, create_eval_internal_module, Interpreter, InterpreterConfig, ModulePath, OrderResponse, RuntimeValue, StepResult};

struct Clock(Cell<i64>);
impl TimeProvider for Clock {
    fn now_millis(&self) -> i64 {
        let v = self.0.get() + 7;
        self.0.set(v);
        1_700_000_000_000 + v
    }
    fn elapsed_millis(&self, start: u64) -> u64 {
        (self.0.get() as u64).saturating_sub(start)
    }
    fn start_timer(&self) -> u64 {
        self.0.get() as u64
    }
}
struct Rand(u64);
impl RandomProvider for Rand {
    fn random(&mut self) -> f64 {
        let mut x = self.0;
        x ^= x << 13;
        x ^= x >> 7;
        x ^= x << 17;
        self.0 = x;
        ((x >> 11) as f64) / ((1u64 << 53) as f64)
    }
}

struct Runner {
    interp: Interpreter,
    log: Rc<RefCell<Vec<String>>>,
    kinds: Vec<String>,
    run_len: u64,
    steps: u64,
    fin: Option<Value>,
    started: bool,
    src: String,
    path: Option<String>,
    idle: u32,
    modules: Value,
}

impl Runner {
    fn new(p: &Value) -> Runner {
        let log = Rc::new(RefCell::new(Vec::new()));
        let config = InterpreterConfig { internal_modules: vec![create_eval_internal_module()], ..Default::default() };
        let mut interp = Interpreter::with_config(config);
        interp.set_console(Box::new(crate::run::Capture(log.clone())));
        interp.set_time_provider(Box::new(Clock(Cell::new(0))));
        interp.set_random_provider(Box::new(Rand(0x9E37_79B9_7F4A_7C15)));
        Runner {
            interp,
            log,
            kinds: Vec::new(),
            run_len: 0,
            steps: 0,
            fin: None,
            started: false,
            src: p.get("src").and_then(|v| v.as_str()).unwrap_or("").to_string(),
            path: p.get("path").and_then(|v| v.as_str()).map(|s| s.to_string()),
            idle: 0,
            modules: p.get("modules").cloned().unwrap_or(Value::Null),
        }
    }
    fn flush(&mut self) {
        if self.run_len > 0 {
            self.kinds.push(format!("c{}", self.run_len));
            self.run_len = 0;
        }
    }
    /// one host-visible action; returns false when the program has ended
    fn advance(&mut self) -> bool {
        if self.fin.is_some() {
            return false;
        }
        let r = if !self.started {
            self.started = true;
            self.interp.prepare(&self.src, self.path.clone().map(ModulePath::new))
        } else {
            self.interp.step()
        };
        self.steps += 1;
        match r {
            Ok(StepResult::Continue) => {
                self.run_len += 1;
                if self.steps > 3_000_000 {
                    self.flush();
                    self.fin = Some(json!({"status": "steplimit"}));
                }
            }
            Ok(StepResult::Complete(v)) => {
                self.flush();
                self.kinds.push("C".into());
                let j = tsrun::js_value_to_json(v.value()).unwrap_or(json!("!unserialisable"));
                // the export names in the order the interpreter reports them (not sorted: the order is part of the trace)
                let names = self.interp.get_export_names();
                self.fin = Some(json!({"status": "complete", "value": crate::run::render_value(v.value()), "json": j, "exports": names}));
            }
            Ok(StepResult::Done) => {
                self.flush();
                self.kinds.push("D".into());
                self.fin = Some(json!({"status": "done"}));
            }
            Ok(StepResult::NeedImports(reqs)) => {
                self.flush();
                self.kinds.push(format!("N[{}]", reqs.iter().map(|r| r.resolved_path.as_str().to_string()).collect::<Vec<_>>().join(",")));
                let mut missing = false;
                for r in &reqs {
                    match self.modules.get(r.resolved_path.as_str()).and_then(|v| v.as_str()) {
                        Some(src) => {
                            if self.interp.provide_module(r.resolved_path.clone(), src).is_err() {
                                missing = true;
                            }
                        }
                        None => missing = true,
                    }
                }
                if missing {
                    self.fin = Some(json!({"status": "needimports"}));
                }
            }
            Ok(StepResult::Suspended { pending, cancelled }) => {
                self.flush();
                self.kinds.push(format!(
                    "S[{}][{}]",
                    pending.iter().map(|o| o.id.0.to_string()).collect::<Vec<_>>().join(","),
                    cancelled.iter().map(|c| c.0.to_string()).collect::<Vec<_>>().join(",")
                ));
                if pending.is_empty() {
                    self.idle += 1;
                    if self.idle > 6 {
                        self.fin = Some(json!({"status": "suspended"}));
                    }
                } else {
                    self.idle = 0;
                    let guard = api::create_guard(&self.interp);
                    let mut resp = Vec::new();
                    for o in &pending {
                        let payload = tsrun::js_value_to_json(o.payload.value()).unwrap_or(Value::Null);
                        let answer = match payload.as_f64() {
                            Some(x) => json!(x * 2.0),
                            None => payload,
                        };
                        let v = api::create_from_json(&mut self.interp, &guard, &answer).unwrap_or(tsrun::JsValue::Undefined);
                        resp.push(OrderResponse { id: o.id, result: Ok(RuntimeValue::unguarded(v)) });
                    }
                    self.interp.fulfill_orders(resp);
                }
            }
            Err(e) => {
                self.flush();
                self.kinds.push("E".into());
                self.fin = Some(json!({"status": "error", "text": e.to_string()}));
            }
        }
        self.fin.is_none()
    }
    fn trace(&self) -> Value {
        json!({"kinds": self.kinds.join(" "), "final": self.fin.clone().unwrap_or(json!({"status": "unfinished"})),
               "log": *self.log.borrow(), "steps": self.steps,
               "live": self.interp.gc_stats().live_objects})
    }
}

fn solo(p: &Value) -> Value {
    let mut r = Runner::new(p);
    while r.advance() {}
    r.trace()
}

pub fn one(req: &Value) -> Value {
    let progs: Vec<Value> = req.get("programs").and_then(|v| v.as_array()).cloned().unwrap_or_default();
    let mode = req.get("mode").and_then(|v| v.as_str()).unwrap_or("solo");
    let schedule: Vec<u64> = req
        .get("schedule")
        .and_then(|v| v.as_array())
        .map(|a| a.iter().filter_map(|x| x.as_u64()).collect())
        .unwrap_or_else(|| vec![1]);
    match mode {
        "solo" => json!({"traces": progs.iter().map(solo).collect::<Vec<_>>()}),
        "interleave" => {
            let mut rs: Vec<Runner> = progs.iter().map(Runner::new).collect();
            let mut k = 0usize;
            loop {
                let mut any = false;
                for r in rs.iter_mut() {
                    let budget = schedule.get(k % schedule.len().max(1)).copied().unwrap_or(1).max(1);
                    k += 1;
                    for _ in 0..budget {
                        if !r.advance() {
                            break;
                        }
                    }
                    any |= r.fin.is_none();
                }
                if !any {
                    break;
                }
            }
            json!({"traces": rs.iter().map(|r| r.trace()).collect::<Vec<_>>()})
        }
        "threads" => {
            let handles: Vec<_> = progs
                .iter()
                .cloned()
                .map(|p| std::thread::Builder::new().stack_size(64 << 20).spawn(move || solo(&p).to_string()))
                .collect();
            let mut out = Vec::new();
            for h in handles {
                let s = h.ok().and_then(|h| h.join().ok()).unwrap_or_else(|| "{\"panic\":true}".to_string());
                out.push(serde_json::from_str::<Value>(&s).unwrap_or(json!({"panic": true})));
            }
            json!({"traces": out})
        }
        "lifetimes" => {
            // each program runs after other interpreters were created, run (also failing) and dropped,
            // and while an unrelated suspended interpreter is still alive
            let mut out = Vec::new();
            let keep = {
                let mut r = Runner::new(&json!({"src": "import { order } from \"tsrun:host\"; await order(1); 1", "path": "/keep.ts"}));
                for _ in 0..40 {
                    r.advance();
                }
                r
            };
            for (i, p) in progs.iter().enumerate() {
                for q in progs.iter().skip(i + 1).chain(progs.iter().take(i)) {
                    let mut r = Runner::new(q);
                    for _ in 0..(50 + 13 * i) {
                        if !r.advance() {
                            break;
                        }
                    }
                    drop(r);
                }
                let _ = solo(&json!({"src": "null.x", "path": null}));
                out.push(solo(p));
            }
            drop(keep);
            json!({"traces": out})
        }
        _ => json!({"error": "unknown mode"}),
    }
}

pub fn main(args: &[String]) -> i32 {
    let (input, output) = match (args.first(), args.get(1)) {
        (Some(a), Some(b)) => (a.clone(), b.clone()),
        _ => return 2,
    };
    let text = match std::fs::read_to_string(&input) {
        Ok(t) => t,
        Err(_) => return 2,
    };
    let mut fout = match std::fs::File::create(&output) {
        Ok(f) => f,
        Err(_) => return 2,
    };
    std::panic::set_hook(Box::new(|_| {}));
    for line in text.lines() {
        if line.trim().is_empty() {
            continue;
        }
        let req: Value = match serde_json::from_str(line) {
            Ok(v) => v,
            Err(e) => {
                let _ = writeln!(fout, "{}", json!({"error": format!("bad request: {}", e)}));
                continue;
            }
        };
        let res = catch_unwind(AssertUnwindSafe(|| one(&req)));
        let _ = writeln!(fout, "{}", res.unwrap_or(json!({"error": "panic"})));
        let _ = fout.flush();
    }
    0
}
