//! C13: drives the real tsrun::gc::{Heap, Guard, Gc} with a test payload on
//! histories written as text ops (one per line), printing one result per line.
use crate::util::*;
use std::collections::HashMap;
use std::io::Write;
use std::panic::{catch_unwind, AssertUnwindSafe};
use tsrun::gc::{Gc, GcPtr, Guard, Heap, Reset, Traceable};

#[derive(Default)]
pub struct Obj {
    value: i64,
    refs: Vec<Gc<Obj>>,
}

impl Reset for Obj {
    fn reset(&mut self) {
        self.value = 0;
        self.refs.clear();
    }
}

impl Traceable for Obj {
    fn trace<F: FnMut(GcPtr<Self>)>(&self, mut visitor: F) {
        for r in &self.refs {
            visitor(r.copy_ref());
        }
    }
}

struct World {
    heap: Option<Heap<Obj>>,
    guards: Vec<Option<Guard<Obj>>>,
    handles: Vec<Option<Gc<Obj>>>,
    addr: HashMap<usize, usize>,
}

impl World {
    fn new() -> World {
        World { heap: Some(Heap::new()), guards: Vec::new(), handles: Vec::new(), addr: HashMap::new() }
    }
    fn slot_of(&mut self, id: usize) -> usize {
        let n = self.addr.len();
        *self.addr.entry(id).or_insert(n)
    }
    fn guard(&self, g: usize) -> Option<&Guard<Obj>> {
        self.guards.get(g).and_then(|x| x.as_ref())
    }
    fn handle(&self, h: usize) -> Option<&Gc<Obj>> {
        self.handles.get(h).and_then(|x| x.as_ref())
    }
    fn stats(&self) -> String {
        match &self.heap {
            Some(h) => {
                let s = h.stats();
                format!("{} {}", s.total_objects, s.pooled_objects)
            }
            None => "-".to_string(),
        }
    }
}

fn num(t: Option<&str>) -> usize {
    t.and_then(|x| x.parse().ok()).unwrap_or(0)
}

fn exec(w: &mut World, line: &str) -> String {
    let mut it = line.split(' ');
    let op = it.next().unwrap_or("");
    let a = it.next();
    let b = it.next();
    match op {
        "CG" => match &w.heap {
            Some(h) => {
                let g = h.create_guard();
                w.guards.push(Some(g));
                format!("g {}", w.guards.len() - 1)
            }
            None => "none".into(),
        },
        "DG" => {
            let g = num(a);
            if w.guard(g).is_none() {
                return "none".into();
            }
            w.guards[g] = None;
            "unit".into()
        }
        "A" => {
            let g = num(a);
            let r = match w.guard(g) {
                None => return "none".into(),
                Some(gd) => catch_unwind(AssertUnwindSafe(|| gd.alloc())),
            };
            match r {
                Ok(obj) => {
                    let slot = w.slot_of(obj.id());
                    w.handles.push(Some(obj));
                    format!("h {} {}", w.handles.len() - 1, slot)
                }
                Err(_) => "panic".into(),
            }
        }
        "GC" | "GM" | "UG" => {
            let (g, h) = (num(a), num(b));
            if w.guard(g).is_none() || w.handle(h).is_none() {
                return "none".into();
            }
            match op {
                "GC" => {
                    let c = w.handle(h).map(|x| x.clone());
                    if let (Some(gd), Some(c)) = (w.guard(g), c) {
                        gd.guard(c);
                    }
                    "unit".into()
                }
                "GM" => {
                    let c = w.handles[h].take();
                    if let (Some(gd), Some(c)) = (w.guard(g), c) {
                        gd.guard(c);
                    }
                    "unit".into()
                }
                _ => {
                    let r = match (w.guard(g), w.handle(h)) {
                        (Some(gd), Some(hd)) => gd.unguard(hd),
                        _ => false,
                    };
                    format!("b {}", if r { 1 } else { 0 })
                }
            }
        }
        "CL" => match w.guard(num(a)) {
            Some(gd) => {
                gd.clear();
                "unit".into()
            }
            None => "none".into(),
        },
        "C" => match w.handle(num(a)).map(|x| x.clone()) {
            Some(c) => {
                let slot = w.slot_of(c.id());
                w.handles.push(Some(c));
                format!("h {} {}", w.handles.len() - 1, slot)
            }
            None => "none".into(),
        },
        "D" => {
            let h = num(a);
            if w.handle(h).is_none() {
                return "none".into();
            }
            w.handles[h] = None;
            "unit".into()
        }
        "SV" | "L" | "UL" | "CR" | "R" => {
            let h = num(a);
            if w.handle(h).is_none() {
                return "none".into();
            }
            if op == "L" && w.handle(num(b)).is_none() {
                return "none".into();
            }
            if w.heap.is_none() {
                // Gc::borrow would dereference freed chunk memory: not executed
                return "fault".into();
            }
            match op {
                "SV" => {
                    let z: i64 = b.and_then(|x| x.parse().ok()).unwrap_or(0);
                    if let Some(hd) = w.handle(h) {
                        hd.borrow_mut().value = z;
                    }
                    "unit".into()
                }
                "L" => {
                    let c = w.handle(num(b)).map(|x| x.clone());
                    if let (Some(hd), Some(c)) = (w.handle(h), c) {
                        hd.borrow_mut().refs.push(c);
                    }
                    "unit".into()
                }
                "UL" => {
                    let k = num(b);
                    let removed = match w.handle(h) {
                        Some(hd) => {
                            let mut d = hd.borrow_mut();
                            if k < d.refs.len() { Some(d.refs.remove(k)) } else { None }
                        }
                        None => None,
                    };
                    let r = removed.is_some();
                    drop(removed);
                    format!("b {}", if r { 1 } else { 0 })
                }
                "CR" => {
                    let v = match w.handle(h) {
                        Some(hd) => std::mem::take(&mut hd.borrow_mut().refs),
                        None => Vec::new(),
                    };
                    drop(v);
                    "unit".into()
                }
                _ => {
                    let (v, ids) = match w.handle(h) {
                        Some(hd) => {
                            let d = hd.borrow();
                            (d.value, d.refs.iter().map(|r| r.id()).collect::<Vec<_>>())
                        }
                        None => (0, Vec::new()),
                    };
                    let mut s = format!("o {} {}", v, ids.len());
                    for id in ids {
                        let k = w.slot_of(id);
                        s.push_str(&format!(" {}", k));
                    }
                    s
                }
            }
        }
        "COL" => match &w.heap {
            Some(h) => {
                h.collect();
                "unit".into()
            }
            None => "none".into(),
        },
        "ST" => match &w.heap {
            Some(h) => {
                h.set_gc_threshold(num(a));
                "unit".into()
            }
            None => "none".into(),
        },
        "STATS" => match &w.heap {
            Some(_) => format!("s {}", w.stats()),
            None => "none".into(),
        },
        "DH" => match w.heap.take() {
            Some(h) => {
                drop(h);
                "unit".into()
            }
            None => "none".into(),
        },
        _ => "?".into(),
    }
}

pub fn main(args: &[String]) -> i32 {
    let (input, output) = match (args.first(), args.get(1)) {
        (Some(a), Some(b)) => (a.clone(), b.clone()),
        _ => {
            eprintln!("usage: th gc <ops> <out>");
            return 2;
        }
    };
    std::panic::set_hook(Box::new(|_| {}));
    let mut w = World::new();
    for_each_line(&input, &output, |line, out| {
        if line == "NEW" {
            // handles first, then guards, then the heap
            w.handles.clear();
            w.guards.clear();
            w = World::new();
            let _ = writeln!(out, "new");
            return;
        }
        let r = exec(&mut w, line);
        let _ = writeln!(out, "{} | {}", r, w.stats());
    })
}
