//! C15: direct access to tsrun::value::{number_to_string, string_to_number, to_int32, to_uint32}.
//!   S <bits16hex>  -> <string>|<sci>          (sci = Rust `{:e}` of |x|: the digit oracle)
//!   P <hex of utf8> -> <bits16hex>
//!   I <bits16hex>  -> i32 ;  U <bits16hex> -> u32
use crate::util::*;
use std::io::Write;
use tsrun::value::{number_to_string, string_to_number, to_int32, to_uint32};

pub fn main(args: &[String]) -> i32 {
    let (input, output) = match (args.first(), args.get(1)) {
        (Some(a), Some(b)) => (a.clone(), b.clone()),
        _ => return 2,
    };
    for_each_line(&input, &output, |line, w| {
        let mut it = line.split(' ');
        let op = it.next().unwrap_or("");
        let arg = it.next().unwrap_or("");
        let bits = u64::from_str_radix(arg, 16).unwrap_or(0);
        let x = f64::from_bits(bits);
        let r = match op {
            "S" => format!("{}|{:e}", number_to_string(x), x.abs()),
            "P" => {
                let s = String::from_utf8_lossy(&unhex(arg)).into_owned();
                format!("{:016x}", string_to_number(&s).to_bits())
            }
            "I" => format!("{}", to_int32(x)),
            "U" => format!("{}", to_uint32(x)),
            _ => "?".to_string(),
        };
        let _ = writeln!(w, "{}", r);
    })
}
