//! C16: host <-> script JSON boundary. One JSON request per input line:
//!   {"doc": <json>, "script": "<source using global cfg>", "keys": ["k", ...]}
//! Output per line: {"script": outcome, "back": js_value_to_json(cfg), "api": {k: json}, "result_json": json of completion value}
use serde_json::{json, Value};
use std::cell::RefCell;
use std::io::Write;
use std::panic::{catch_unwind, AssertUnwindSafe};
use std::rc::Rc;
use tsrun::{api, Interpreter};

fn one(req: &Value) -> Value {
    let log = Rc::new(RefCell::new(Vec::new()));
    let mut interp = Interpreter::with_console(Box::new(crate::run::Capture(log.clone())));
    if let Some(t) = req.get("gc").and_then(|v| v.as_u64()) {
        interp.set_gc_threshold(t as usize);
    }
    let guard = api::create_guard(&interp);
    let doc = req.get("doc").cloned().unwrap_or(Value::Null);
    let cfg = match api::create_from_json(&mut interp, &guard, &doc) {
        Ok(v) => v,
        Err(e) => return json!({"error": crate::run::error_class(&e).0}),
    };
    interp
        .global
        .borrow_mut()
        .set_property(tsrun::value::PropertyKey::from_name("cfg"), cfg.clone());
    let script = req.get("script").and_then(|v| v.as_str()).unwrap_or("0");
    let o = crate::run::run_program(&mut interp, script, None, 5_000_000, false);
    let back = match tsrun::js_value_to_json(&cfg) {
        Ok(v) => v,
        Err(e) => json!({"!error": crate::run::error_class(&e).0}),
    };
    let mut apim = serde_json::Map::new();
    if let Some(keys) = req.get("keys").and_then(|v| v.as_array()) {
        for k in keys {
            if let Some(ks) = k.as_str() {
                let v = api::get_property(&cfg, ks).ok().and_then(|v| tsrun::js_value_to_json(&v).ok());
                apim.insert(ks.to_string(), v.unwrap_or(json!("!error")));
            }
        }
    }
    json!({"status": o.status, "value": o.value, "class": o.err_class, "message": o.err_msg, "back": back, "api": apim})
}

pub fn main(args: &[String]) -> i32 {
    let (input, output) = match (args.first(), args.get(1)) {
        (Some(a), Some(b)) => (a.clone(), b.clone()),
        _ => return 2,
    };
    std::panic::set_hook(Box::new(|_| {}));
    crate::util::for_each_line(&input, &output, |line, w| {
        let req: Value = match serde_json::from_str(line) {
            Ok(v) => v,
            Err(e) => {
                let _ = writeln!(w, "{}", json!({"error": format!("bad request: {}", e)}));
                return;
            }
        };
        let r = catch_unwind(AssertUnwindSafe(|| one(&req)));
        let _ = writeln!(w, "{}", r.unwrap_or(json!({"error": "panic"})));
    })
}
