//! Runs programs on the real interpreter and prints one JSON outcome per
//! program. Input: blocks introduced by a line `%%%% <name> [key=value ...]`
//! followed by the source text. Output is flushed after every program so
//! that a dying process (stack overflow, abort) loses only the current one.
use serde_json::json;
use std::cell::RefCell;
use std::io::Write;
use std::panic::{catch_unwind, AssertUnwindSafe};
use std::rc::Rc;
use tsrun::platform::{ConsoleLevel, ConsoleProvider};
use tsrun::{Interpreter, JsError, JsValue, ModulePath, StepResult};

pub struct Capture(pub Rc<RefCell<Vec<String>>>);
impl ConsoleProvider for Capture {
    fn write(&self, _level: ConsoleLevel, message: &str) {
        self.0.borrow_mut().push(message.to_string());
    }
}

pub fn render_value(v: &JsValue) -> String {
    match v {
        JsValue::Undefined => "undefined".into(),
        JsValue::Null => "null".into(),
        JsValue::Boolean(b) => format!("bool:{}", b),
        JsValue::Number(n) => format!("num:{:016x}", n.to_bits()),
        JsValue::String(s) => format!("str:{}", s.as_str()),
        JsValue::Symbol(_) => "symbol".into(),
        JsValue::Object(_) => "object".into(),
    }
}

pub fn error_class(e: &JsError) -> (String, String) {
    match e {
        JsError::SyntaxError { message, .. } => ("SyntaxError".into(), message.clone()),
        JsError::TypeError { message, .. } => ("TypeError".into(), message.clone()),
        JsError::ReferenceError { name } => ("ReferenceError".into(), name.clone()),
        JsError::RangeError { message } => ("RangeError".into(), message.clone()),
        JsError::RuntimeError { kind, message, .. } => (kind.clone(), message.clone()),
        JsError::ModuleError { message } => ("ModuleError".into(), message.clone()),
        JsError::Internal(m) => ("Internal".into(), m.clone()),
        other => ("Thrown".into(), format!("{}", other)),
    }
}

pub struct Outcome {
    pub status: String,
    pub value: String,
    pub err_class: String,
    pub err_msg: String,
    pub steps: u64,
    /// largest number of VM instructions executed inside one host-visible step()
    pub max_work_per_step: u64,
    pub max_call_depth: usize,
}

pub fn summary_json(interp: &Interpreter) -> serde_json::Value {
    let s = interp.verif_summary();
    json!({"env_is_global": s.env_is_global, "env_guards": s.env_guards, "call_stack": s.call_stack, "active_vm": s.active_vm,
           "pending_orders": s.pending_orders, "cancelled_orders": s.cancelled_orders, "order_responses": s.order_responses,
           "suspended_for_order": s.suspended_for_order, "waiting_contexts": s.waiting_contexts,
           "pending_program": s.pending_program, "pending_module_sources": s.pending_module_sources})
}

pub fn hooks_json() -> serde_json::Value {
    let c = tsrun::verif_hooks::snapshot();
    json!({"vm_instructions": c.vm_instructions, "max_run_depth": c.max_run_depth, "parser_advances": c.parser_advances,
           "lexer_tokens": c.lexer_tokens, "stale_events": c.stale_events})
}

pub fn run_program(interp: &mut Interpreter, src: &str, path: Option<&str>, max_steps: u64, use_eval: bool) -> Outcome {
    let mut out = Outcome { status: String::new(), value: String::new(), err_class: String::new(), err_msg: String::new(), steps: 0,
                            max_work_per_step: 0, max_call_depth: 0 };
    let mp = path.map(|p| ModulePath::new(p.to_string()));
    let first = if use_eval { interp.eval(src, mp) } else { interp.prepare(src, mp) };
    let mut cur = first;
    loop {
        match cur {
            Err(e) => {
                let (c, m) = error_class(&e);
                out.status = "error".into();
                out.err_class = c;
                out.err_msg = m;
                return out;
            }
            Ok(StepResult::Continue) => {
                out.steps += 1;
                if out.steps > max_steps {
                    out.status = "steplimit".into();
                    return out;
                }
                let before = tsrun::verif_hooks::snapshot().vm_instructions;
                cur = interp.step();
                let work = tsrun::verif_hooks::snapshot().vm_instructions - before;
                if work > out.max_work_per_step {
                    out.max_work_per_step = work;
                }
                let d = interp.call_depth();
                if d > out.max_call_depth {
                    out.max_call_depth = d;
                }
            }
            Ok(StepResult::Complete(v)) => {
                out.status = "complete".into();
                out.value = render_value(v.value());
                return out;
            }
            Ok(StepResult::NeedImports(reqs)) => {
                out.status = "needimports".into();
                out.value = reqs.iter().map(|r| r.resolved_path.as_str().to_string()).collect::<Vec<_>>().join(",");
                return out;
            }
            Ok(StepResult::Suspended { pending, .. }) => {
                out.status = "suspended".into();
                out.value = format!("{}", pending.len());
                return out;
            }
            Ok(StepResult::Done) => {
                out.status = "done".into();
                return out;
            }
        }
    }
}

pub fn main(args: &[String]) -> i32 {
    let (input, output) = match (args.first(), args.get(1)) {
        (Some(a), Some(b)) => (a.clone(), b.clone()),
        _ => return 2,
    };
    let text = match std::fs::read_to_string(&input) {
        Ok(t) => t,
        Err(_) => return 2,
    };
    let mut fout = match std::fs::OpenOptions::new().create(true).append(true).open(&output) {
        Ok(f) => f,
        Err(_) => return 2,
    };
    let skip: usize = args.get(2).and_then(|x| x.parse().ok()).unwrap_or(0);
    std::panic::set_hook(Box::new(|_| {}));
    let mut idx = 0usize;
    for block in text.split("%%%% ").skip(1) {
        idx += 1;
        if idx <= skip {
            continue;
        }
        let (head, src) = match block.find('\n') {
            Some(p) => (&block[..p], &block[p + 1..]),
            None => (block, ""),
        };
        let mut parts = head.split(' ');
        let name = parts.next().unwrap_or("").to_string();
        let mut gc: Option<usize> = None;
        let mut max_steps: u64 = 20_000_000;
        let mut path: Option<String> = None;
        let mut use_eval = false;
        for kv in parts {
            if let Some(v) = kv.strip_prefix("gc=") {
                gc = v.parse().ok();
            } else if let Some(v) = kv.strip_prefix("steps=") {
                max_steps = v.parse().unwrap_or(max_steps);
            } else if let Some(v) = kv.strip_prefix("path=") {
                path = Some(v.to_string());
            } else if kv == "eval" {
                use_eval = true;
            }
        }
        // announce first: if the process dies the driver knows where
        let _ = writeln!(fout, "{}", json!({"name": name, "begin": true}));
        let _ = fout.flush();
        let log = Rc::new(RefCell::new(Vec::new()));
        let log2 = log.clone();
        tsrun::verif_hooks::reset();
        let res = catch_unwind(AssertUnwindSafe(|| {
            let mut interp = Interpreter::with_console(Box::new(Capture(log2)));
            if let Some(t) = gc {
                interp.set_gc_threshold(t);
            }
            let o = run_program(&mut interp, src, path.as_deref(), max_steps, use_eval);
            interp.collect();
            let live = interp.gc_stats().live_objects;
            (o, summary_json(&interp), live)
        }));
        let j = match res {
            Ok((o, summary, live)) => json!({"name": name, "status": o.status, "value": o.value, "class": o.err_class,
                            "message": o.err_msg, "steps": o.steps, "log": *log.borrow(), "max_work_per_step": o.max_work_per_step,
                            "max_call_depth": o.max_call_depth, "summary": summary, "live_after_collect": live, "hooks": hooks_json()}),
            Err(_) => json!({"name": name, "status": "panic", "log": *log.borrow(), "hooks": hooks_json()}),
        };
        let _ = writeln!(fout, "{}", j);
        let _ = fout.flush();
    }
    0
}
