From Coq Require Extraction ExtrOcamlBasic.
From TsrunV Require Import Path.Model.
Extraction Language OCaml.
Extraction "path_model.ml" resolve resolve_prefix normalize_path parent is_bare is_relative.
