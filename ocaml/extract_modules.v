From Coq Require Extraction ExtrOcamlBasic.
From TsrunV Require Import Host.Modules.
Extraction Language OCaml.
Extraction "modules_model.ml" mrun.
