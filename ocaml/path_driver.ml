module M = Path_model

let coq_of_native (s : Stdlib.String.t) : M.string =
  let r = ref M.EmptyString in
  for i = Stdlib.String.length s - 1 downto 0 do
    let n = Char.code s.[i] in
    r := M.String (M.Ascii (Conv.bit n 0, Conv.bit n 1, Conv.bit n 2, Conv.bit n 3,
                        Conv.bit n 4, Conv.bit n 5, Conv.bit n 6, Conv.bit n 7), !r)
  done; !r

let native_of_coq (s : M.string) : Stdlib.String.t =
  let b = Buffer.create 64 in
  let rec go = function
    | M.EmptyString -> ()
    | M.String (M.Ascii (b0,b1,b2,b3,b4,b5,b6,b7), r) ->
      let v x k = if x then 1 lsl k else 0 in
      Buffer.add_char b (Char.chr (v b0 0 + v b1 1 + v b2 2 + v b3 3 + v b4 4 + v b5 5 + v b6 6 + v b7 7));
      go r in
  go s; Buffer.contents b

let () =
  let inp = open_in Sys.argv.(1) and out = open_out Sys.argv.(2) in
  let which = if Array.length Sys.argv > 3 then Sys.argv.(3) else "resolve" in
  (try
    while true do
      let line = input_line inp in
      match Stdlib.String.split_on_char ' ' line with
      | [spec; base] ->
        let spec = coq_of_native (Conv.bytes_of_hex spec) in
        let base = if base = "-" then None else Some (coq_of_native (Conv.bytes_of_hex base)) in
        let r = if which = "prefix" then M.resolve_prefix spec base else M.resolve spec base in
        output_string out (Conv.hex_of_bytes (native_of_coq r)); output_char out '\n'
      | _ -> output_string out "?\n"
    done
  with End_of_file -> ());
  close_out out
