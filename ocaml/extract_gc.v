From Coq Require Extraction ExtrOcamlBasic.
From TsrunV Require Import Gc.Model.
Extraction Language OCaml.
Extraction "gc_model.ml" init step op_class rc0_events fuel_err slots free alive.
