module M = Gc_model

let rec nat_of_int n = if n <= 0 then M.O else M.S (nat_of_int (n - 1))
let int_of_nat n = let rec go acc = function M.O -> acc | M.S k -> go (acc + 1) k in go 0 n
let rec pos_of_int n = if n = 1 then M.XH else if n land 1 = 0 then M.XO (pos_of_int (n lsr 1)) else M.XI (pos_of_int (n lsr 1))
let rec int_of_pos = function M.XH -> 1 | M.XO p -> 2 * int_of_pos p | M.XI p -> 2 * int_of_pos p + 1
let z_of_int n = if n = 0 then M.Z0 else if n > 0 then M.Zpos (pos_of_int n) else M.Zneg (pos_of_int (-n))
let int_of_z = function M.Z0 -> 0 | M.Zpos p -> int_of_pos p | M.Zneg p -> - (int_of_pos p)
let n_of_int n = if n = 0 then M.N0 else M.Npos (pos_of_int n)

let parse line =
  match String.split_on_char ' ' line with
  | ["CG"] -> Some M.CreateGuard
  | ["DG"; g] -> Some (M.DropGuard (nat_of_int (int_of_string g)))
  | ["A"; g] -> Some (M.Alloc (nat_of_int (int_of_string g)))
  | ["GC"; g; h] -> Some (M.GuardClone (nat_of_int (int_of_string g), nat_of_int (int_of_string h)))
  | ["GM"; g; h] -> Some (M.GuardMove (nat_of_int (int_of_string g), nat_of_int (int_of_string h)))
  | ["UG"; g; h] -> Some (M.Unguard (nat_of_int (int_of_string g), nat_of_int (int_of_string h)))
  | ["CL"; g] -> Some (M.Clear (nat_of_int (int_of_string g)))
  | ["C"; h] -> Some (M.Clone (nat_of_int (int_of_string h)))
  | ["D"; h] -> Some (M.Drop (nat_of_int (int_of_string h)))
  | ["SV"; h; z] -> Some (M.SetVal (nat_of_int (int_of_string h), z_of_int (int_of_string z)))
  | ["L"; a; b] -> Some (M.Link (nat_of_int (int_of_string a), nat_of_int (int_of_string b)))
  | ["UL"; h; i] -> Some (M.Unlink (nat_of_int (int_of_string h), nat_of_int (int_of_string i)))
  | ["CR"; h] -> Some (M.ClearRefs (nat_of_int (int_of_string h)))
  | ["R"; h] -> Some (M.Read (nat_of_int (int_of_string h)))
  | ["COL"] -> Some M.Collect
  | ["ST"; n] -> Some (M.SetThr (n_of_int (int_of_string n)))
  | ["STATS"] -> Some M.Stats
  | ["DH"] -> Some M.DropHeap
  | _ -> None

let render = function
  | M.ONone -> "none"
  | M.OUnit -> "unit"
  | M.OHandle (h, i) -> Printf.sprintf "h %d %d" (int_of_nat h) (int_of_nat i)
  | M.OGuard g -> Printf.sprintf "g %d" (int_of_nat g)
  | M.OBool b -> if b then "b 1" else "b 0"
  | M.OObj (v, links) ->
    Printf.sprintf "o %d %d%s" (int_of_z v) (List.length links)
      (String.concat "" (List.map (fun k -> " " ^ string_of_int (int_of_nat k)) links))
  | M.OStats (t, p) -> Printf.sprintf "s %d %d" (int_of_nat t) (int_of_nat p)
  | M.OPanic -> "panic"
  | M.OFault -> "fault"

let () =
  let inp = open_in Sys.argv.(1) and out = open_out Sys.argv.(2) and ghost = open_out Sys.argv.(3) in
  let s = ref M.init in
  (try
    while true do
      let line = input_line inp in
      if line = "NEW" then begin
        s := M.init; output_string out "new\n"; output_string ghost "new\n"
      end else
        match parse line with
        | None -> output_string out "?\n"; output_string ghost "?\n"
        | Some o ->
          let cls = M.op_class !s o in
          let (s', r) = M.step !s o in
          s := s';
          let stats = if M.alive s' then Printf.sprintf "%d %d" (List.length (M.slots s')) (List.length (M.free s')) else "-" in
          output_string out (render r ^ " | " ^ stats ^ "\n");
          output_string ghost (Printf.sprintf "%s %d %s\n"
             (String.concat "," (List.map (fun k -> string_of_int (int_of_nat k)) cls))
             (int_of_nat (M.rc0_events s')) (if M.fuel_err s' then "FUEL" else "ok"))
    done
  with End_of_file -> ());
  close_out out; close_out ghost
