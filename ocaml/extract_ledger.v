From Coq Require Extraction ExtrOcamlBasic.
From TsrunV Require Import Host.Ledger.
Extraction Language OCaml.
Extraction "ledger_model.ml" hrun init hstep.
