module M = Modules_model
let rec nat_of_int n = if n <= 0 then M.O else M.S (nat_of_int (n - 1))
let int_of_nat n = let rec go acc = function M.O -> acc | M.S k -> go (acc + 1) k in go 0 n
let ints s = if s = "" then [] else List.map int_of_string (String.split_on_char ',' s)
let show l = String.concat "," (List.map (fun x -> string_of_int (int_of_nat x)) l)
let () =
  let inp = open_in Sys.argv.(1) and out = open_out Sys.argv.(2) in
  (try
    while true do
      let line = input_line inp in
      match String.split_on_char '|' line with
      | [adj; maind; early; acts] ->
        let tbl = Hashtbl.create 16 in
        List.iter (fun it -> match String.split_on_char ':' it with
          | [k; v] -> Hashtbl.replace tbl (int_of_string k) (ints v) | _ -> ())
          (List.filter (fun x -> x <> "") (String.split_on_char ';' adj));
        let main = 9999 in
        Hashtbl.replace tbl main (ints maind);
        let g p = List.map nat_of_int (try Hashtbl.find tbl (int_of_nat p) with Not_found -> []) in
        let acts = List.map (fun a -> if a = "S" then M.Step else M.Provide (nat_of_int (int_of_string (String.sub a 1 (String.length a - 1)))))
            (List.filter (fun x -> x <> "") (String.split_on_char ' ' acts)) in
        let (_, os) = M.mrun g (nat_of_int main) (fun l -> l) (List.map nat_of_int (ints early)) acts in
        output_string out (String.concat ";" (List.map (function
          | M.MNeed l -> "N[" ^ show l ^ "]" | M.MRun l -> "R[" ^ show l ^ "]" | M.MDone -> "D") os) ^ "\n")
      | _ -> output_string out "?\n"
    done
  with End_of_file -> ());
  close_out out
