module M = Ledger_model

let rec pos_of_int n = if n = 1 then M.XH else if n land 1 = 0 then M.XO (pos_of_int (n lsr 1)) else M.XI (pos_of_int (n lsr 1))
let rec int_of_pos = function M.XH -> 1 | M.XO p -> 2 * int_of_pos p | M.XI p -> 2 * int_of_pos p + 1
let n_of_int n = if n = 0 then M.N0 else M.Npos (pos_of_int n)
let int_of_n = function M.N0 -> 0 | M.Npos p -> int_of_pos p
let z_of_int n = if n = 0 then M.Z0 else if n > 0 then M.Zpos (pos_of_int n) else M.Zneg (pos_of_int (-n))
let int_of_z = function M.Z0 -> 0 | M.Zpos p -> int_of_pos p | M.Zneg p -> - (int_of_pos p)
let rec nat_of_int n = if n <= 0 then M.O else M.S (nat_of_int (n - 1))

let parse_ev t =
  match String.split_on_char ':' t with
  | ["O"; p; b] -> M.POrder (z_of_int (int_of_string p), b = "1")
  | ["I"; p] -> M.PIssue (z_of_int (int_of_string p))
  | ["M"; j; b] -> M.PAwaitMarker (nat_of_int (int_of_string j), b = "1")
  | ["C"; id] -> M.PCancel (n_of_int (int_of_string id))
  | _ -> M.PGetId

let parse_act t =
  if t = "S" then M.HStep else
  let body = String.sub t 2 (String.length t - 2) in
  let items = if body = "" then [] else String.split_on_char ',' body in
  M.HFulfil (List.map (fun it ->
    match String.split_on_char '=' it with
    | [id; "err"] -> (n_of_int (int_of_string id), M.RErr)
    | [id; v] -> (n_of_int (int_of_string id), M.ROk (z_of_int (int_of_string v)))
    | _ -> (M.N0, M.RErr)) items)

let show_seen = function
  | M.SVal v -> "v:" ^ string_of_int (int_of_z v)
  | M.SCaught -> "caught"
  | M.SId n -> "id:" ^ string_of_int (int_of_n n)

let show = function
  | M.OSuspended (p, c) ->
    "S[" ^ String.concat "," (List.map (fun (i, x) -> string_of_int (int_of_n i) ^ "=" ^ string_of_int (int_of_z x)) p) ^ "][" ^
    String.concat "," (List.map (fun i -> string_of_int (int_of_n i)) c) ^ "]"
  | M.OComplete l -> "C[" ^ String.concat "," (List.map show_seen l) ^ "]"
  | M.OError -> "E"
  | M.ODone -> "D"

let words s = List.filter (fun x -> x <> "") (String.split_on_char ' ' s)

let () =
  let inp = open_in Sys.argv.(1) and out = open_out Sys.argv.(2) in
  (try
    while true do
      let line = input_line inp in
      match String.split_on_char '|' line with
      | [p; a] ->
        let (_, os) = M.hrun (List.map parse_ev (words p)) (List.map parse_act (words a)) in
        output_string out (String.concat ";" (List.map show os) ^ "\n")
      | _ -> output_string out "?\n"
    done
  with End_of_file -> ());
  close_out out
