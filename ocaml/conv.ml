(* conversions between OCaml native strings/ints and the extracted Coq
   datatypes. Parametrised by constructors so that each extracted module
   (which re-declares ascii/string) can instantiate it. *)
let hex_of_bytes (s : string) : string =
  let b = Buffer.create (2 * String.length s) in
  String.iter (fun c -> Buffer.add_string b (Printf.sprintf "%02x" (Char.code c))) s;
  Buffer.contents b

let bytes_of_hex (h : string) : string =
  let n = String.length h / 2 in
  String.init n (fun i -> Char.chr (int_of_string ("0x" ^ String.sub h (2 * i) 2)))

let bit n k = (n lsr k) land 1 = 1
