module M = Regs_model

let rec pos_of_int n = if n = 1 then M.XH else if n land 1 = 0 then M.XO (pos_of_int (n lsr 1)) else M.XI (pos_of_int (n lsr 1))
let rec int_of_pos = function M.XH -> 1 | M.XO p -> 2 * int_of_pos p | M.XI p -> 2 * int_of_pos p + 1
let n_of_int n = if n = 0 then M.N0 else M.Npos (pos_of_int n)
let int_of_n = function M.N0 -> 0 | M.Npos p -> int_of_pos p

let parse line =
  match String.split_on_char ' ' line with
  | ["A"] -> Some M.RAlloc
  | ["F"; r] -> Some (M.RFree (n_of_int (int_of_string r)))
  | ["R"; c] -> Some (M.RReserve (n_of_int (int_of_string c)))
  | ["S"] -> Some M.RSave
  | ["X"] -> Some M.RRestore
  | _ -> None

let () =
  let inp = open_in Sys.argv.(1) and out = open_out Sys.argv.(2) in
  let s = ref M.rs_init in
  (try
    while true do
      let line = input_line inp in
      if line = "NEW" then begin s := M.rs_init; output_string out "new | 0 0 d\n" end
      else match String.split_on_char ' ' line with
      | ["WX"; nx; n; extra] ->
        let a = fst (M.reserve_range M.ra_init (n_of_int (int_of_string nx))) in
        let rec nat_of_int k = if k <= 0 then M.O else M.S (nat_of_int (k - 1)) in
        (match snd (M.construct_window M.Debug a (n_of_int (int_of_string n)) (nat_of_int (int_of_string extra))) with
         | M.WLimit -> output_string out "limit\n"
         | M.WPanic -> output_string out "panic\n"
         | M.WOk regs -> output_string out ("ok " ^ String.concat "," (List.map (fun r -> string_of_int (int_of_n r)) regs) ^ "\n"))
      | ["W"; p; nx; n] ->
        (* window of a sized construct: profile, registers in use below `next`, size *)
        let a = fst (M.reserve_range M.ra_init (n_of_int (int_of_string nx))) in
        let prof = if p = "release" then M.Release else M.Debug in
        let f = if Array.length Sys.argv > 3 && Sys.argv.(3) = "unchecked" then M.window_unchecked else M.window_checked in
        (match snd (f prof a (n_of_int (int_of_string n))) with
         | M.WLimit -> output_string out "limit\n"
         | M.WPanic -> output_string out "panic\n"
         | M.WOk regs -> output_string out ("ok " ^ String.concat "," (List.map (fun r -> string_of_int (int_of_n r)) regs) ^ "\n"))
      | _ ->
        match parse line with
        | None -> output_string out "?\n"
        | Some o ->
          let d = M.disciplined !s o in
          let (s', r) = M.rstep !s o in
          s := s';
          let res = match o, r with
            | (M.RAlloc | M.RReserve _), M.Ok (x :: _) -> "ok " ^ string_of_int (int_of_n x)
            | M.RReserve _, M.Ok [] -> "ok " ^ string_of_int (int_of_n (M.next (M.ra s')))
            | _, M.ErrLimit -> "err"
            | _, _ -> "unit" in
          output_string out (Printf.sprintf "%s | %d %d %s\n" res (int_of_n (M.next (M.ra s'))) (int_of_n (M.max_used (M.ra s'))) (if d then "d" else "u"))
    done
  with End_of_file -> ());
  close_out out
