From Coq Require Extraction ExtrOcamlBasic.
From TsrunV Require Import Regs.Alloc.
Extraction Language OCaml.
Extraction "regs_model.ml" rs_init rstep disciplined window_checked window_unchecked construct_window ra_init reserve_range next max_used ra.
