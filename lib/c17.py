"""C17 — the C API is memory-safe and total for every call sequence.

Proof: coq/theories/CApi/Properties.v: NULL in any pointer position is reported and changes nothing;
in every well-used call (handles obtained from the API and not yet released, any order of creation,
use and release, values outliving their context) nothing released is dereferenced; the collector
operations behind tsrun_value_free neither fault nor panic in any heap state of the Gc model, dropped
heap included; the exported functions' pointer parameters are NULL-checked (regenerated from src/ffi
on every run).
Not carried by the model: the bodies of the 64 functions (what they compute), raw-pointer validity
inside the collector, the native stack. Decided by the search.
Search: random call sequences (up to 200 calls) over 45 exported functions through the real extern
"C" symbols: live handles, NULL in every pointer position, all value kinds, aliasing through dup /
get / containers / globals, scripts that mutate and rebind host-visible objects and churn the heap,
orders whose responses are released right after being submitted, a native callback that re-enters the
API, values and contexts released in either order. A Python model of the host-visible values
predicts every read. Checked: every result, the stale-handle hook, the worker's exit status, and -
for a sample of sequences - valgrind memcheck."""
import json
import math
import os
import struct

import common
from common import log

PID = "C17"
UNDEF = ("undefined",)


class JObj:
    def __init__(self, arr=None, fn=None):
        self.props = {}
        self.arr = arr          # list for arrays
        self.fn = fn            # python callable for functions


class Cycle(Exception):
    pass


def to_json(v, path=()):
    if v is UNDEF:
        return None
    if isinstance(v, JObj):
        if v.fn is not None:
            return None
        if any(v is p for p in path):
            raise Cycle()
        path = path + (v,)
        if v.arr is not None:
            return [None if (x is UNDEF or (isinstance(x, JObj) and x.fn)) else to_json(x, path) for x in v.arr]
        return {k: to_json(x, path) for k, x in v.props.items() if not (x is UNDEF or (isinstance(x, JObj) and x.fn))}
    if isinstance(v, float) and v == int(v) and abs(v) < 1e15:
        return int(v)
    return v


def type_code(v):
    if v is UNDEF:
        return 0
    if v is None:
        return 1
    if isinstance(v, bool):
        return 2
    if isinstance(v, (int, float)):
        return 3
    if isinstance(v, str):
        return 4
    return 5


def from_json(j):
    if isinstance(j, list):
        return JObj(arr=[from_json(x) for x in j])
    if isinstance(j, dict):
        o = JObj()
        for k, x in j.items():
            o.props[k] = from_json(x)
        return o
    if isinstance(j, int) and not isinstance(j, bool):
        return float(j)
    return j


KEYS = ["a", "b", "count", "items", "k0", "name", "x"]
GLOBALS = ["G", "H", "cb"]
JSON_TEXTS = ['{"a": 1, "b": [1, 2, {"c": null}]}', '[1, "two", true, null, {"k0": {"x": 2.5}}]', '"just a string"', "42", '{"name": "é✓", "items": []}',
              "{bad json", ""]


class Seq:
    """builds one call sequence together with the expectation for every call"""

    def __init__(self, rng, with_null=True):
        self.r = rng
        self.ops, self.exp = [], []
        self.ctxs = []            # {"alive": bool, "globals": {}, "order_id": int}
        self.vals = []            # {"alive": bool, "ctx": i, "v": value} or None for a null slot
        self.with_null = with_null

    # ---- helpers ----------------------------------------------------------------------------------
    def live_ctx(self):
        c = [i for i, c in enumerate(self.ctxs) if c["alive"]]
        return self.r.choice(c) if c else None

    def live_vals(self, ctx, pred=lambda v: True):
        return [i for i, s in enumerate(self.vals)
                if s and s["alive"] and s["ctx"] == ctx and not s.get("ctx_dead") and not isinstance(s["v"], Opaque) and pred(s["v"])]

    def emit(self, op, exp):
        self.ops.append(op)
        self.exp.append(exp)

    def new_slot(self, ctx, v):
        self.vals.append({"alive": True, "ctx": ctx, "v": v})
        return len(self.vals) - 1

    def null_slot(self):
        self.vals.append(None)
        return len(self.vals) - 1

    # ---- one random call ------------------------------------------------------------------------------
    def step(self):
        r = self.r
        ctx = self.live_ctx()
        if ctx is None or (len([c for c in self.ctxs if c["alive"]]) < 2 and r.chance(1, 25)):
            self.ctxs.append({"alive": True, "globals": {}, "order_id": 0})
            self.emit({"op": "new"}, {"ctx": len(self.ctxs) - 1, "null": False})
            return
        k = r.below(100)
        null_here = self.with_null and r.chance(1, 12)
        objs = self.live_vals(ctx, lambda v: isinstance(v, JObj) and v.fn is None and v.arr is None)
        arrs = self.live_vals(ctx, lambda v: isinstance(v, JObj) and v.arr is not None)
        anyv = self.live_vals(ctx)
        if k < 14:      # constructors
            kind = r.choice(["number", "string", "boolean", "null", "undefined", "object_new", "array_new", "json_parse"])
            op = {"op": kind, "ctx": -1 if null_here else ctx}
            if kind == "number":
                op["v"] = r.choice([0.0, -1.5, 3.0, 1e21, 255.0, 0.1, -0.0, 2.0 ** 53])
                v = op["v"]
            elif kind == "string":
                op["v"] = r.choice(["", "abc", "é✓日本", "with \"quotes\"", "a" * 40])
                v = op["v"]
            elif kind == "boolean":
                op["v"] = r.chance(1, 2)
                v = op["v"]
            elif kind == "null":
                v = None
            elif kind == "undefined":
                v = UNDEF
            elif kind == "object_new":
                v = JObj()
            elif kind == "array_new":
                v = JObj(arr=[])
            else:
                op["v"] = r.choice(JSON_TEXTS)
                try:
                    v = from_json(json.loads(op["v"]))
                except ValueError:
                    v = "!error"
            if null_here or v == "!error":
                self.emit(op, {"slot": self.null_slot(), "null": True})
            else:
                self.emit(op, {"slot": self.new_slot(ctx, v), "null": False})
        elif k < 22 and anyv:      # dup
            j = r.choice(anyv)
            if null_here:
                self.emit({"op": "dup", "ctx": ctx, "val": -1}, {"slot": self.null_slot(), "null": True})
            else:
                self.emit({"op": "dup", "ctx": ctx, "val": j}, {"slot": self.new_slot(ctx, self.vals[j]["v"]), "null": False})
        elif k < 36 and anyv:      # inspect
            j = r.choice(anyv)
            self.emit({"op": "inspect", "ctx": ctx, "val": j}, {"inspect": snapshot(self.vals[j]["v"])})
        elif k < 48 and objs and anyv:      # set
            o, key, vj = r.choice(objs), r.choice(KEYS), r.choice(anyv)
            which = r.below(4) if null_here else -1
            op = {"op": "set", "ctx": -1 if which == 0 else ctx, "obj": -1 if which == 1 else o, "key": None if which == 2 else key, "val": -1 if which == 3 else vj}
            if which >= 0:
                self.emit(op, {"ok": False})
            else:
                self.vals[o]["v"].props[key] = self.vals[vj]["v"]
                self.emit(op, {"ok": True})
        elif k < 58 and objs:      # get / has / delete / keys
            o, key = r.choice(objs), r.choice(KEYS)
            ov = self.vals[o]["v"]
            sub = r.below(4)
            if sub == 0:
                if null_here:
                    self.emit({"op": "get", "ctx": ctx, "obj": -1, "key": key}, {"slot": self.null_slot(), "null": True})
                else:
                    self.emit({"op": "get", "ctx": ctx, "obj": o, "key": key}, {"slot": self.new_slot(ctx, ov.props.get(key, UNDEF)), "null": False})
            elif sub == 1:
                self.emit({"op": "has", "ctx": ctx, "obj": -1 if null_here else o, "key": key}, {"has": (not null_here) and key in ov.props})
            elif sub == 2:
                if null_here:
                    self.emit({"op": "delete", "ctx": ctx, "obj": o, "key": None}, {"ok": False})
                else:
                    ov.props.pop(key, None)
                    self.emit({"op": "delete", "ctx": ctx, "obj": o, "key": key}, {"ok": True})
            else:
                self.emit({"op": "keys", "ctx": ctx, "obj": -1 if null_here else o}, {"keys": None if null_here else sorted(ov.props)})
        elif k < 68 and arrs and anyv:      # array ops
            a, vj = r.choice(arrs), r.choice(anyv)
            av = self.vals[a]["v"]
            sub = r.below(3)
            if sub == 0:
                if null_here:
                    self.emit({"op": "array_push", "ctx": ctx, "obj": a, "val": -1}, {"ok": False})
                else:
                    av.arr.append(self.vals[vj]["v"])
                    self.emit({"op": "array_push", "ctx": ctx, "obj": a, "val": vj}, {"ok": True})
            elif sub == 1 and av.arr:
                i = r.below(len(av.arr))
                self.emit({"op": "array_get", "ctx": ctx, "obj": a, "index": i}, {"slot": self.new_slot(ctx, av.arr[i]), "null": False})
            elif av.arr:
                i = r.below(len(av.arr))
                av.arr[i] = self.vals[vj]["v"]
                self.emit({"op": "array_set", "ctx": ctx, "obj": a, "index": i, "val": vj}, {"ok": True})
            else:
                self.emit({"op": "gc_stats", "ctx": ctx}, {"stats": True})
        elif k < 76 and anyv:      # globals
            name = r.choice(GLOBALS[:2])
            g = self.ctxs[ctx]["globals"]
            if r.chance(1, 2):
                vj = r.choice(objs or anyv)
                if null_here:
                    self.emit({"op": "set_global", "ctx": ctx, "key": name, "val": -1}, {"ok": False})
                else:
                    g[name] = self.vals[vj]["v"]
                    self.emit({"op": "set_global", "ctx": ctx, "key": name, "val": vj}, {"ok": True})
            else:
                if null_here:
                    self.emit({"op": "get_global", "ctx": -1, "key": name}, {"slot": self.null_slot(), "null": True})
                else:
                    self.emit({"op": "get_global", "ctx": ctx, "key": name}, {"slot": self.new_slot(ctx, g.get(name, UNDEF)), "null": False})
        elif k < 90:      # scripts
            g = self.ctxs[ctx]["globals"]
            kind = r.choice(["churn", "churn", "bump", "rebind", "orders", "callback", "function", "throw", "symobj", "symobj"])
            stepwise = r.chance(1, 3)
            if kind == "churn":
                n = r.choice([50, 150, 400])
                self.emit({"op": "eval", "ctx": ctx, "stepwise": stepwise, "src": "const j: any[] = []; for (let i = 0; i < %d; i++) j.push({ i, s: 'x' + i }); j.length" % n},
                          {"eval": float(n), "slot": self.new_slot(ctx, float(n))})
            elif kind == "bump" and isinstance(g.get("G"), JObj) and g["G"].arr is None and g["G"].fn is None:
                G = g["G"]
                cnt = G.props.get("count")
                cnt = (cnt if isinstance(cnt, float) else 0.0) + 1.0
                G.props["count"] = cnt
                items = G.props.get("items")
                if not (isinstance(items, JObj) and items.arr is not None):
                    items = JObj(arr=[])
                    G.props["items"] = items
                it = JObj()
                it.props["n"] = cnt
                items.arr.append(it)
                src = ("const g = (globalThis as any).G; g.count = (typeof g.count === 'number' ? g.count : 0) + 1; "
                       "if (!Array.isArray(g.items)) g.items = []; g.items.push({ n: g.count }); g.count")
                self.emit({"op": "eval", "ctx": ctx, "stepwise": stepwise, "src": src}, {"eval": cnt, "slot": self.new_slot(ctx, cnt)})
            elif kind == "rebind":
                fresh = JObj()
                fresh.props["fresh"] = True
                g["G"] = fresh
                # allocate enough afterwards for collections to run while the host still holds the old object
                src = "(globalThis as any).G = { fresh: true }; const j: any[] = []; for (let i = 0; i < 300; i++) j.push({ i }); 1"
                self.emit({"op": "eval", "ctx": ctx, "stepwise": stepwise, "src": src}, {"eval": 1.0, "slot": self.new_slot(ctx, 1.0)})
            elif kind == "orders":
                self.ctxs[ctx]["order_id"] += 1
                oid = self.ctxs[ctx]["order_id"]
                want = json.dumps({"echo": {"q": [1, 2]}, "n": oid}, sort_keys=True)
                src = 'import { order } from "tsrun:host"; const r = await order({ q: [1, 2] }); const j: any[] = []; for (let i = 0; i < 120; i++) j.push({ i }); JSON.stringify(r)'
                self.emit({"op": "eval", "ctx": ctx, "stepwise": stepwise, "src": src}, {"eval_json_text": want, "slot": self.new_slot(ctx, Opaque())})
            elif kind == "callback":
                if "cb" not in g:
                    self.emit({"op": "native", "ctx": ctx, "key": "cb"}, {"slot": self.new_slot(ctx, JObj(fn=True)), "null": False})
                    self.emit({"op": "set_global", "ctx": ctx, "key": "cb", "val": len(self.vals) - 1}, {"ok": True})
                    g["cb"] = self.vals[-1]["v"]
                want = json.dumps({"got": json.dumps({"x": [1, 2]}, separators=(",", ":")), "argc": 2}, sort_keys=True)
                src = "JSON.stringify((globalThis as any).cb({ x: [1, 2] }, 2))"
                self.emit({"op": "eval", "ctx": ctx, "stepwise": stepwise, "src": src}, {"eval_json_text": want, "slot": self.new_slot(ctx, Opaque())})
            elif kind == "symobj":
                # objects that own symbol-keyed properties next to string-keyed ones: the C API speaks strings only
                src, props = r.choice([
                    ("({ a: 1, b: 2, [Symbol('s')]: 3 })", {"a": 1.0, "b": 2.0}),
                    ("({ [Symbol('only')]: 1 })", {}),
                    ("({ k: 7, [Symbol.iterator]: 0, [Symbol('x')]: 1, z: 8 })", {"k": 7.0, "z": 8.0}),
                    ("({ [Symbol('p')]: 1, [Symbol('q')]: 2, [Symbol('r')]: 3, w: 5 })", {"w": 5.0}),
                    ("(() => { class T { v = 4; } const t: any = new T(); t[Symbol('own')] = 1; t[Symbol.toStringTag] = 'T'; return t; })()", {"v": 4.0}),
                ])
                o = JObj()
                o.props = dict(props)
                self.emit({"op": "eval", "ctx": ctx, "stepwise": stepwise, "src": src}, {"eval_obj": True, "slot": self.new_slot(ctx, o)})
                # and look at it straight away
                self.emit({"op": "keys", "ctx": ctx, "obj": len(self.vals) - 1}, {"keys": sorted(o.props)})
            elif kind == "function":
                f = JObj(fn=True)
                self.emit({"op": "eval", "ctx": ctx, "stepwise": stepwise, "src": "((a: any, b: any) => ({ sum: a + b, args: [a, b] }))"},
                          {"eval_fn": True, "slot": self.new_slot(ctx, f)})
            else:
                self.emit({"op": "eval", "ctx": ctx, "stepwise": stepwise, "src": "const o: any = null; o.x"}, {"eval_error": True})
        elif k < 94:      # call a function value
            fns = self.live_vals(ctx, lambda v: isinstance(v, JObj) and v.fn is True)
            nums = self.live_vals(ctx, lambda v: isinstance(v, float))
            fns = [f for f in fns if self.vals[f]["v"] is not self.ctxs[ctx]["globals"].get("cb")]
            if fns and len(nums) >= 2:
                f, a, b = r.choice(fns), r.choice(nums), r.choice(nums)
                if null_here:
                    self.emit({"op": "call", "ctx": ctx, "obj": -1, "this": -1, "args": [a, b]}, {"slot": self.null_slot(), "null": True})
                else:
                    res = JObj()
                    res.props["sum"] = self.vals[a]["v"] + self.vals[b]["v"]
                    res.props["args"] = JObj(arr=[self.vals[a]["v"], self.vals[b]["v"]])
                    self.emit({"op": "call", "ctx": ctx, "obj": f, "this": -1, "args": [a, b]}, {"slot": self.new_slot(ctx, res), "null": False})
            else:
                self.emit({"op": "gc_stats", "ctx": -1 if null_here else ctx}, {"stats": True})
        elif k < 98 and anyv:      # release a value
            j = r.choice(anyv)
            self.vals[j]["alive"] = False
            self.emit({"op": "vfree", "val": j}, {"freed": True})
        else:      # release a context: its values stay releasable
            if len([c for c in self.ctxs if c["alive"]]) > 1 or r.chance(1, 3):
                self.ctxs[ctx]["alive"] = False
                self.emit({"op": "free", "ctx": ctx}, {"freed": True})
                # values of a dead context may only be released from now on
                for s in self.vals:
                    if s and s["ctx"] == ctx and s["alive"]:
                        s["ctx_dead"] = True
            else:
                self.emit({"op": "gc_stats", "ctx": ctx}, {"stats": True})

    def live_vals_all(self):
        return [i for i, s in enumerate(self.vals) if s and s["alive"]]

    def build(self, n):
        self.ctxs.append({"alive": True, "globals": {}, "order_id": 0})
        self.emit({"op": "new"}, {"ctx": 0, "null": False})
        for _ in range(n):
            self.step()
            # release values of dead contexts now and then (before the end, in any order)
            dead = [i for i, s in enumerate(self.vals) if s and s["alive"] and s.get("ctx_dead")]
            if dead and self.r.chance(1, 3):
                j = self.r.choice(dead)
                self.vals[j]["alive"] = False
                self.emit({"op": "vfree", "val": j}, {"freed": True})
        return self


class Opaque:
    """a script result the model does not predict in detail (compared where it is produced)"""


def snapshot(v):
    """what the reads of a handle to v must return, frozen at the time of the call"""
    if isinstance(v, Opaque):
        return {"opaque": True}
    snap = {"tc": type_code(v), "fn": isinstance(v, JObj) and bool(v.fn), "arr": isinstance(v, JObj) and v.arr is not None,
            "arrlen": len(v.arr) if isinstance(v, JObj) and v.arr is not None else None, "v": v if not isinstance(v, JObj) and v is not UNDEF else None}
    try:
        snap["json"] = to_json(v)
        snap["cycle"] = False
    except Cycle:
        snap["json"], snap["cycle"] = None, True
    return snap


def bits(x):
    return "%016x" % struct.unpack(">Q", struct.pack(">d", x))[0]


def judge(op, exp, got):
    """None or a description of the mismatch"""
    if "inspect" in exp:
        sn = exp["inspect"]
        if sn.get("opaque"):
            return None
        tc, v = sn["tc"], sn["v"]
        if sn["fn"]:
            return None if got.get("function") and got.get("type") == 5 else "a function value is not reported as a function: %r" % got
        if got.get("type") != tc:
            return "typeof code %r, expected %d" % (got.get("type"), tc)
        flags = {"undefined": tc == 0, "isnull": tc == 1, "nullish": tc in (0, 1), "boolean": tc == 2, "number": tc == 3, "string": tc == 4,
                 "object": tc == 5, "array": sn["arr"]}
        for k, want in flags.items():
            if got.get(k) != want:
                return "tsrun_is_%s says %r for a value of type code %d" % (k, got.get(k), tc)
        if tc == 3 and got.get("get_number") != bits(v):
            return "tsrun_get_number returned bits %s, the value is %r (%s)" % (got.get("get_number"), v, bits(v))
        if tc == 4 and (got.get("get_string") != v or got.get("string_len") != len(v.encode("utf-8"))):
            return "tsrun_get_string / tsrun_get_string_len returned %r / %r for %r" % (got.get("get_string"), got.get("string_len"), v)
        if tc == 2 and got.get("get_bool") != v:
            return "tsrun_get_bool returned %r for %r" % (got.get("get_bool"), v)
        if sn["arr"] and got.get("array_len") != sn["arrlen"]:
            return "tsrun_array_len returned %r, the array has %d elements" % (got.get("array_len"), sn["arrlen"])
        if tc != 0:
            text = (got.get("described") or {}).get("json")
            if sn["cycle"]:
                return None if text is None else "a cyclic value was serialised: %s" % str(text)[:100]
            try:
                parsed = json.loads(text) if text is not None else "!none"
            except ValueError:
                parsed = "!unparsable " + str(text)[:60]
            want = sn["json"]
            if isinstance(want, float) and (math.isinf(want) or math.isnan(want)):
                want = None
            if parsed != want and not (isinstance(want, (int, float)) and not isinstance(want, bool) and isinstance(parsed, (int, float)) and float(parsed) == float(want)):
                return "the handle reads %s, the host-visible value is %s" % (json.dumps(parsed)[:200], json.dumps(want)[:200])
        return None
    if "slot" in exp and "eval" not in exp and "eval_json_text" not in exp and "eval_fn" not in exp and "eval_obj" not in exp:
        if got.get("slot") != exp["slot"] or bool(got.get("null")) != exp["null"]:
            return "expected %s handle in slot %d, got %r" % ("a NULL" if exp["null"] else "a", exp["slot"], got)
        if exp["null"] and op.get("op") in ("get", "get_global", "call", "object_new", "array_new", "json_parse", "array_get", "native") and not got.get("error") \
                and (op.get("ctx", 0) != -1):
            return "a NULL result without an error message: %r" % got
        return None
    if "ok" in exp:
        if got.get("ok") != exp["ok"]:
            return "expected ok=%r, got %r" % (exp["ok"], got)
        if not exp["ok"] and not got.get("error"):
            return "misuse was not reported through the error string: %r" % got
        return None
    if "has" in exp:
        return None if got.get("has") == exp["has"] else "tsrun_has returned %r, expected %r" % (got.get("has"), exp["has"])
    if "keys" in exp:
        if exp["keys"] is None:
            return None if got.get("null") else "tsrun_keys with a NULL object returned %r" % got
        gk = got.get("keys") or []
        if any(not isinstance(x, str) for x in gk):
            return "tsrun_keys reported %d keys but the array holds unreadable entries %r; the object has %r" % (len(gk), gk, exp["keys"])
        return None if sorted(gk) == exp["keys"] else "tsrun_keys returned %r, the object has %r" % (gk, exp["keys"])
    if "eval" in exp:
        v = (got.get("value") or {}).get("json")
        if got.get("status") != "complete" or v is None or float(json.loads(v)) != exp["eval"]:
            return "script result %r, expected completion with %r" % (got, exp["eval"])
        return None
    if "eval_json_text" in exp:
        v = (got.get("value") or {}).get("json")
        try:
            inner = json.dumps(json.loads(json.loads(v)), sort_keys=True)
        except (TypeError, ValueError):
            inner = "!" + str(v)
        return None if got.get("status") == "complete" and inner == exp["eval_json_text"] else "script result %r, expected the JSON text %s" % (got, exp["eval_json_text"])
    if "eval_fn" in exp:
        return None if got.get("status") == "complete" and (got.get("value") or {}).get("type") == 5 else "script result %r, expected a function value" % got
    if "eval_obj" in exp:
        return None if got.get("status") == "complete" and (got.get("value") or {}).get("type") == 5 else "script result %r, expected an object value" % got
    if "eval_error" in exp:
        return None if got.get("status") == "error" and got.get("error") else "script result %r, expected an error" % got
    if "ctx" in exp:
        return None if got.get("ctx") == exp["ctx"] and not got.get("null") else "tsrun_new returned %r" % got
    return None


def run_capi(chk, seqs, tag, valgrind=False, timeout=300):
    d = os.path.join(common.OUT, PID)
    os.makedirs(d, exist_ok=True)
    fin, fout = os.path.join(d, tag + ".in"), os.path.join(d, tag + ".out")
    with open(fin, "w") as f:
        for s in seqs:
            f.write(json.dumps({"ops": s["ops"], "free_contexts_first": s["ctx_first"]}) + "\n")
    out_records, skip = {}, 0
    vg_report = ""
    while skip < len(seqs):
        if os.path.exists(fout):
            os.remove(fout)
        cmd = [chk.th, "capi", fin, fout, str(skip)]
        if valgrind:
            cmd = ["valgrind", "-q", "--error-exitcode=97", "--leak-check=no", "--num-callers=12"] + cmd
        rc, out = common.sh(cmd, timeout=timeout)
        if valgrind and rc == 97:
            vg_report = out[-3000:]
        last_begin, last_at, done = None, None, 0
        if os.path.exists(fout):
            for l in open(fout, errors="replace"):
                try:
                    j = json.loads(l)
                except ValueError:
                    continue
                if "begin" in j:
                    last_begin, last_at = j["begin"], None
                elif "at" in j:
                    last_at = j["at"]
                elif "done" in j:
                    out_records[j["done"]] = j
                    done += 1
                    last_begin = None
        if rc in (0, 97) and last_begin is None:
            break
        k = skip + done
        if k < len(seqs):
            out_records[k] = {"died": True, "exit": rc, "at": last_at, "tail": out[-400:]}
        skip = k + 1
    for p in (fin, fout):
        if os.path.exists(p):
            os.remove(p)
    return out_records, vg_report


def run(chk):
    chk.assumptions = [
        "the host uses a handle only while it is live and only with the context it came from; it may release values before or after their "
        "context; NULL may appear in any pointer position - this is the premise 'handles obtained from the API' of the property",
        "the Python model of host-visible values (numbers, strings, booleans, null, undefined, objects and arrays with identity, functions) "
        "is the oracle for reads; JSON key order is not compared",
        "valgrind memcheck runs on a sample of the sequences (quick: 4, thorough: 80); the others are judged by results, the stale-handle "
        "hook and the worker's exit status",
    ]
    chk.prove(["theories/CApi/Properties.vo"], ["theories/CApi/Properties.v"], facts=["C17"])
    ok, out, chk.th = common.build_harness("debug")
    if not ok:
        chk.proof_breaks.append("harness does not build against /repo: " + out[-800:])
        return chk.finish()
    rng = common.Rng(chk.seed, PID)
    if chk.replay:
        r = json.load(open(chk.replay))
        seqs = [{"ops": r["ops"], "exp": None, "ctx_first": r.get("free_contexts_first", False)}]
        recs, vg = run_capi(chk, seqs, "replay17", valgrind=True, timeout=900)
        log("replay: %s" % json.dumps(recs.get(0))[:1500])
        if recs.get(0, {}).get("died") or vg or recs.get(0, {}).get("stale"):
            chk.violation(dict(r, observed={"record": recs.get(0), "valgrind": vg[-1500:]}))
        return chk.finish()
    n_seq = 120 if chk.tier == "quick" else 8000
    seqs = []
    for i in range(n_seq):
        s = Seq(rng, with_null=(i % 4 != 0)).build(20 + rng.below(181))
        seqs.append({"ops": s.ops, "exp": s.exp, "ctx_first": bool(i % 2)})
    recs, _ = run_capi(chk, seqs, "c17")
    stats = {"sequences": len(seqs), "calls": sum(len(s["ops"]) for s in seqs), "ops": {}, "null_calls": 0, "mismatches": 0, "valgrind_sequences": 0}
    for i, s in enumerate(seqs):
        for op in s["ops"]:
            stats["ops"][op["op"]] = stats["ops"].get(op["op"], 0) + 1
            stats["null_calls"] += any(op.get(k) == -1 for k in ("ctx", "obj", "val")) or (op.get("key", "x") is None)
        rec = recs.get(i)
        bad, at = None, None
        if rec is None or rec.get("died"):
            bad, at = "the driver process died (exit %s) during call %s" % ((rec or {}).get("exit"), (rec or {}).get("at")), (rec or {}).get("at")
        else:
            for k, (op, exp, got) in enumerate(zip(s["ops"], s["exp"], rec["results"])):
                m = judge(op, exp, got)
                if m:
                    bad, at = "call %d (%s): %s" % (k, op["op"], m), k
                    break
            if not bad and rec.get("stale"):
                bad = "a handle outlived its object: stale-handle hook reports %r" % rec["stale"][:4]
        if bad:
            stats["mismatches"] += 1
            if len(chk.violations) < 6:
                ops = s["ops"] if at is None else s["ops"][:at + 1]
                chk.violation({"ops": ops, "free_contexts_first": s["ctx_first"], "failing_call": at, "what": bad})
    # a sample under valgrind memcheck
    n_vg = 4 if chk.tier == "quick" else 160
    sample = [seqs[i] for i in range(0, len(seqs), max(1, len(seqs) // n_vg))][:n_vg]
    sample = [dict(s, ops=s["ops"][:60]) for s in sample]
    rc_have, _ = common.sh("command -v valgrind", timeout=10)
    if rc_have == 0:
        vrecs, report = run_capi(chk, sample, "c17vg", valgrind=True, timeout=1500)
        stats["valgrind_sequences"] = len(sample)
        if report:
            chk.violation({"ops": sample[0]["ops"], "what": "valgrind memcheck reports an invalid memory access in the driver running these sequences",
                           "valgrind": report[-2500:], "sequences": [s["ops"] for s in sample]})
        for i, s in enumerate(sample):
            if vrecs.get(i, {}).get("died"):
                chk.violation({"ops": s["ops"], "what": "the driver died under valgrind: %r" % vrecs[i]})
    chk.samples.append({"ops": seqs[1]["ops"][:12]})
    chk.coverage.update({
        "evaluations": stats["calls"], "distinct_nontrivial": len(seqs),
        "rule": "%d call sequences of 20-200 calls over 45 exported functions (constructors, dup, inspectors, get/set/has/delete/keys, array ops, "
                "globals, prepare+run/step scripts incl. heap churn, mutation and rebinding of host-held objects, orders with responses released at "
                "once, a re-entering native callback, function calls, release of values and contexts in either order; three quarters with NULL "
                "injected in random pointer positions); %d of them (first 60 calls) under valgrind memcheck" % (len(seqs), stats["valgrind_sequences"]),
        "exhaustive": False, "stats": stats,
    })
    return chk.finish()
