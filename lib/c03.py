"""C03 — TypeScript type syntax is erased: annotations never change behaviour.

Proof: coq/theories/Erase/Properties.v: for every program tree and every decoration of it (type-only
children inserted anywhere, value subtrees wrapped in assertions) a compiler that skips type
children and compiles wrappers as their operand emits the same code; src/compiler and
src/interpreter are such a compiler - every mention of type-only syntax in them is regenerated on
every run and is a pass-through, a no-op or a copy (c03_every_mention_of_type_syntax_ignores_it).
What the proof cannot see is the parser: whether D(P) is accepted and parsed to a decoration of
AST(P). That is decided by the search.
Search: core programs with holes at every position where TypeScript allows static syntax; P has all
holes empty, D(P) fills them from a type grammar (unions, intersections, tuples, function / object /
mapped / conditional / indexed / template-literal types, constraints and defaults, predicates),
assertions (`as`, chains, angle brackets, `!`, satisfies), declarations (interface, type, declare,
overloads), modifiers, `implements`, `this` parameters, definite assignment, type-only imports and
exports. P and D(P) run on fresh interpreters; status, value, console and error must be identical."""
import json
import os
import re

import common
from common import log
import c11
import genprog

PID = "C03"

PRIMS = ["number", "string", "boolean", "any", "unknown", "never", "void", "null", "undefined", "object", "symbol", "bigint"]
LITS = ["'a'", '"b c"', "1", "-2", "true", "false", "0x10", "1n"]
NAMES = ["T0", "Shape", "Dict", "Point", "Fn1"]     # declared by PRELUDE_TYPES when used


class TyGen:
    def __init__(self, rng):
        self.r = rng

    def ty(self, d=0, params=()):
        r = self.r.below(100)
        if d > 2 or r < 22:
            return self.r.choice(PRIMS)
        if r < 30:
            return self.r.choice(LITS)
        if r < 36 and params:
            return self.r.choice(list(params))
        if r < 42:
            return self.r.choice(NAMES)
        if r < 50:
            return "%s[]" % self.atom(d + 1, params)
        if r < 55:
            return "Array<%s>" % self.ty(d + 1, params)
        if r < 61:
            n = 1 + self.r.below(3)
            items = [self.ty(d + 1, params) + ("?" if self.r.chance(1, 5) and i == n - 1 else "") for i in range(n)]
            if self.r.chance(1, 4):
                items.append("...%s[]" % self.atom(d + 1, params))
            if self.r.chance(1, 4):
                items = ["%s: %s" % (chr(97 + i), t.rstrip("?")) for i, t in enumerate(items) if not t.startswith("...")]
            return "[%s]" % ", ".join(items)
        if r < 68:
            return " | ".join(self.atom(d + 1, params) for _ in range(2 + self.r.below(2)))
        if r < 72:
            return " & ".join(self.atom(d + 1, params) for _ in range(2))
        if r < 78:
            ps = ", ".join("%s%s: %s" % (chr(112 + i), "?" if self.r.chance(1, 4) else "", self.ty(d + 1, params)) for i in range(self.r.below(3)))
            if self.r.chance(1, 4):
                ps += (", " if ps else "") + "...rest: %s[]" % self.atom(d + 1, params)
            return "(%s) => %s" % (ps, self.ty(d + 1, params))
        if r < 80:
            return "new (x: %s) => %s" % (self.ty(d + 1, params), self.ty(d + 1, params))
        if r < 87:
            ms = []
            for i in range(1 + self.r.below(3)):
                k = self.r.below(5)
                nm = "k%d" % i
                if k == 0:
                    ms.append("readonly %s: %s" % (nm, self.ty(d + 1, params)))
                elif k == 1:
                    ms.append("%s?: %s" % (nm, self.ty(d + 1, params)))
                elif k == 2:
                    ms.append("%s(x: %s): %s" % (nm, self.ty(d + 1, params), self.ty(d + 1, params)))
                elif k == 3:
                    ms.append("[key: string]: %s" % self.ty(d + 1, params))
                else:
                    ms.append("%s: %s" % (nm, self.ty(d + 1, params)))
            return "{ %s }" % self.r.choice(["; ", ", "]).join(ms)
        if r < 90:
            return "{ %s[K in keyof %s]%s: %s }" % (self.r.choice(["", "readonly ", "-readonly "]), self.r.choice(NAMES), self.r.choice(["", "?", "-?"]), self.ty(d + 1, params + ("K",)))
        if r < 93:
            return "%s extends %s ? %s : %s" % (self.atom(d + 1, params), self.atom(d + 1, params), self.ty(d + 1, params), self.ty(d + 1, params))
        if r < 95:
            return "%s[%s]" % (self.r.choice(NAMES), self.r.choice(["'a'", "number", "keyof Shape"]))
        if r < 97:
            return self.r.choice(["keyof Shape", "typeof Math", "typeof globalThis", "readonly string[]", "unique symbol" if False else "keyof typeof Math"])
        if r < 99:
            return self.r.choice(["Map<string, %s>", "Promise<%s>", "Record<string, %s>", "Partial<%s>", "Set<%s>", "ReadonlyArray<%s>"]) % self.ty(d + 1, params)
        return "`pre${string}-${number}`"

    def atom(self, d, params=()):
        t = self.ty(d, params)
        if re.search(r"[ |&?]|=>", t) and not (t.startswith("{") and t.endswith("}")) and not (t.startswith("[") and t.endswith("]")):
            return "(%s)" % t
        return t

    def tparams(self):
        n = 1 + self.r.below(3)
        out = []
        for i in range(n):
            p = "T%d" % (i + 1)
            k = self.r.below(5)
            if k == 0:
                p += " extends %s" % self.atom(1)
            elif k == 1:
                p += " = %s" % self.atom(1)
            elif k == 2:
                p += " extends %s = %s" % (self.atom(1), self.atom(1))
            out.append(p)
        return "<%s>" % ", ".join(out)

    def targs(self):
        return "<%s>" % ", ".join(self.ty(1) for _ in range(1 + self.r.below(2)))


PRELUDE_TYPES = ("interface Shape { a: number; b?: string }\ntype T0 = number | string;\ntype Dict = { [k: string]: number };\n"
                 "interface Point extends Shape { x: number; y: number }\ntype Fn1 = (x: number) => number;\n")

STMT_DECLS = [
    "interface I%(n)d { p: %(t)s; q?(): void; readonly r: %(t)s }",
    "interface J%(n)d<A, B extends A = A> extends Shape { m<C>(c: C): [A, B, C] }",
    "type A%(n)d = %(t)s;",
    "type G%(n)d<X extends object = {}> = { [K in keyof X]: X[K] | %(t)s };",
    "declare const dc%(n)d: %(t)s;",
    "declare let dl%(n)d: %(t)s, dm%(n)d: number;",
    "declare function df%(n)d(a: %(t)s, b?: number): %(t)s;",
    "declare class DC%(n)d { m(): %(t)s; static s: number }",
    "declare namespace DN%(n)d { const v: %(t)s; function f(): void }",
    "declare module 'some-ambient-%(n)d' { export const z: %(t)s }",
    "declare global { interface Window%(n)d { w: %(t)s } }",
    "export interface EI%(n)d { e: %(t)s }",
    "export type ET%(n)d = %(t)s;",
    "import type { Ghost%(n)d } from './types';",
    "import { type Phantom%(n)d } from './types';",
    "export type { Shape as S%(n)d };",
    "declare enum DE%(n)d { A, B }",
    "abstract class AB%(n)d { abstract m(): %(t)s; abstract p: number }",
]

# skeletons: ⟦:T⟧ annotation, ⟦:R⟧ return type, ⟦<P>⟧ type parameters, ⟦<A>⟧ type arguments, ⟦as⟧ assertion suffix,
# ⟦!⟧ non-null, ⟦<>⟧ angle-bracket assertion prefix, ⟦S⟧ type-only statement, ⟦M⟧ member modifier, ⟦?⟧ optional mark,
# ⟦impl⟧ implements clause, ⟦this⟧ this-parameter, ⟦ov:sig⟧ overload signature (text after ov: with ⟦T⟧ inside replaced), ⟦sat⟧ satisfies
SKELETONS = {
    "vars-and-arith": "⟦S⟧ let a⟦:T⟧ = 2; const b⟦:T⟧ = a * 3; var c⟦:T⟧ = (b⟦as⟧) + 1; ⟦S⟧ let d⟦!:T⟧; d = c⟦!⟧ + a; [a, b, c, d].join()",
    "function-basic": "function add⟦<P>⟧(x⟦:T⟧, y⟦:T⟧ = 2)⟦:R⟧ { return (x⟦as⟧) + y; } ⟦S⟧ add⟦<A>⟧(1) + add(1, 5)",
    "function-overloads": "⟦ov:function pick(a: ⟦T⟧): ⟦T⟧;⟧ ⟦ov:function pick(a: ⟦T⟧, b: ⟦T⟧): ⟦T⟧;⟧ function pick(a⟦:T⟧, b⟦?⟧⟦:T⟧)⟦:R⟧ { return b === undefined ? a : [a, b]; } JSON.stringify([pick(1), pick(1, 2)])",
    "optional-and-rest": "function f(a⟦:T⟧, b⟦?⟧⟦:T⟧, ...rest⟦:T⟧)⟦:R⟧ { return [a, b, rest.length].join(); } f(1) + '|' + f(1, 2, 3, 4)",
    "arrow-forms": "const f1 = (x⟦:T⟧)⟦:R⟧ => x * 2; const f2 = ⟦<P>⟧(x⟦:T⟧, y⟦:T⟧)⟦:R⟧ => { return x + y; }; const f3 = async (x⟦:T⟧)⟦:R⟧ => x; const f4 = ()⟦:R⟧ => 7; [f1(2), f2(1, 2), f4(), typeof f3].join()",
    "arrow-return-only": "const g = (x)⟦:R⟧ => x * 2; const h = (a, b)⟦:R⟧ => a + b; const k = ([p, q]⟦:T⟧)⟦:R⟧ => p + q; const m = ({ w, z }⟦:T⟧)⟦:R⟧ => w * z; [g(2), h(1, 2), k([3, 4]), m({ w: 2, z: 5 })].join()",
    "arrow-in-conditional": "const pickf = (c⟦:T⟧) => c ? (x⟦:T⟧)⟦:R⟧ => x + 1 : (y⟦:T⟧)⟦:R⟧ => y - 1; [pickf(true)(1), pickf(false)(1)].join()",
    "arrow-default-param": "const d = (x⟦:T⟧ = 2, { y = 3 }⟦:T⟧ = {})⟦:R⟧ => x * y; [d(), d(4), d(4, { y: 1 })].join()",
    "destructuring": "const { p, q: [r, s = 9] }⟦:T⟧ = { p: 1, q: [2] }; const [u, , v = 5, ...w]⟦:T⟧ = [1, 2, undefined, 4, 5]; function g({ a, b = 2 }⟦:T⟧, [c]⟦:T⟧)⟦:R⟧ { return a + b + c; } [p, r, s, u, v, w.length, g({ a: 1 }, [3])].join()",
    "class-members": "⟦S⟧ class P⟦<P>⟧ ⟦impl⟧ { ⟦M⟧ x⟦:T⟧ = 1; ⟦M⟧ y⟦?⟧⟦:T⟧; ⟦M⟧ static count⟦:T⟧ = 0; ⟦ov:label: ⟦T⟧;⟧ constructor(a⟦:T⟧, b⟦?⟧⟦:T⟧) { this.x = a; this.y = b; P.count++; } ⟦M⟧ sum⟦<P>⟧(k⟦:T⟧)⟦:R⟧ { return this.x + (this.y⟦!⟧ ?? 0) + k; } ⟦M⟧ get dbl()⟦:R⟧ { return this.x * 2; } ⟦M⟧ set dbl(v⟦:T⟧) { this.x = v / 2; } ⟦M⟧ static make⟦<P>⟧(n⟦:T⟧)⟦:R⟧ { return new P⟦<A>⟧(n); } } const o = new P⟦<A>⟧(2, 3); o.dbl = 10; [o.sum(1), o.dbl, P.make(4).x, P.count].join()",
    "class-inheritance": "class A⟦<P>⟧ { ⟦M⟧ v⟦:T⟧; constructor(v⟦:T⟧) { this.v = v; } ⟦M⟧ get(⟦this⟧)⟦:R⟧ { return this.v; } } class B⟦<P>⟧ extends A⟦<A>⟧ ⟦impl⟧ { ⟦M⟧ w⟦:T⟧ = 5; constructor() { super(3); } ⟦M⟧ get()⟦:R⟧ { return super.get() + this.w; } } new B().get() + ':' + (new B() instanceof A)",
    "class-declare-and-index": "class C { ⟦ov:declare ghost: ⟦T⟧;⟧ ⟦ov:[key: string]: any;⟧ ⟦ov:m?(): ⟦T⟧;⟧ a⟦!:T⟧; b⟦:T⟧ = 2; } const c = new C(); c.a = 1; Object.keys(c).sort().join() + ':' + ('ghost' in c)",
    "method-overloads": "class Q { ⟦ov:run(a: ⟦T⟧): ⟦T⟧;⟧ ⟦ov:run(a: ⟦T⟧, b: ⟦T⟧): ⟦T⟧;⟧ run(a⟦:T⟧, b⟦?⟧⟦:T⟧)⟦:R⟧ { return b ? a + b : a; } } new Q().run(1) + new Q().run(1, 2)",
    "generic-calls": "function id⟦<P>⟧(x⟦:T⟧)⟦:R⟧ { return x; } const m = new Map⟦<A>⟧(); m.set('a', id⟦<A>⟧(1)); const arr = [1, 2, 3].map⟦<A>⟧((x⟦:T⟧)⟦:R⟧ => x + 1); const s = new Set⟦<A>⟧([1, 1, 2]); const p = Promise.resolve⟦<A>⟧(4); [m.get('a'), arr.join('+'), s.size, id⟦<A>⟧('z'), typeof p].join()",
    "generic-vs-comparison": "const a = 1, b = 2, c = 3; function f⟦<P>⟧(x⟦:T⟧)⟦:R⟧ { return x; } const lt = a < b; const both = (a < b) > (c as any); const call = f⟦<A>⟧(a) < f(c); [lt, both, call, a<b, b>c].join()",
    "assertions": "const v⟦:T⟧ = JSON.parse('{\"a\":{\"b\":[1,2,3]}}'); const n = (v⟦as⟧).a⟦!⟧.b⟦!⟧[1]⟦as⟧; const o = { k: 1 }⟦sat⟧; const w = (⟦<>⟧v).a.b.length; const t = (n⟦as⟧)⟦!⟧ + w; [n, o.k, w, t].join()",
    "assertion-chains": "const x = 5; const y = x⟦as⟧⟦as⟧; const z = (x⟦as⟧ + 1)⟦as⟧; const arr = [x⟦as⟧, y⟦!⟧]⟦as⟧; const obj = { a: x⟦as⟧ }⟦as⟧; [y, z, arr.length, obj.a].join()",
    "non-null-calls": "const o = { v: 3, m() { return this.v; }, n: { k() { return this === o.n; } } }; const f = () => o; [o.m⟦!⟧(), o⟦!⟧.m(), f()⟦!⟧.m⟦!⟧(), o.n⟦!⟧.k⟦!⟧(), (o.m)⟦!⟧ === o.m].join()",
    "control-flow": "let total⟦:T⟧ = 0; for (let i⟦:T⟧ = 0; i < 3; i++) { total += i; } for (const x⟦:T⟧ of [1, 2]) { total += x; } for (const k⟦:T⟧ in { a: 1 }) { total += k.length; } try { throw new Error('e'); } catch (e⟦:T⟧) { total += (e⟦as⟧).message.length; } switch (total⟦as⟧) { case 8: total++; } total",
    "closures-and-callbacks": "function outer⟦<P>⟧(n⟦:T⟧)⟦:R⟧ { let c⟦:T⟧ = n; return { inc: (d⟦:T⟧ = 1)⟦:R⟧ => { c += d; return c; }, get: function ⟦<P>⟧(⟦this⟧)⟦:R⟧ { return c; } }; } const k = outer(1); k.inc(); k.inc(5); [k.get(), [3, 1, 2].sort((a⟦:T⟧, b⟦:T⟧)⟦:R⟧ => a - b).join('')].join()",
    "async-generators": "async function af⟦<P>⟧(x⟦:T⟧)⟦:R⟧ { const v⟦:T⟧ = await Promise.resolve(x); return v + 1; } function* gen⟦<P>⟧(n⟦:T⟧)⟦:R⟧ { for (let i⟦:T⟧ = 0; i < n; i++) yield i; } const r = await af(1); [r, [...gen(3)].join('')].join()",
    "object-literal-methods": "const o = { a⟦?⟧: 1, m⟦<P>⟧(x⟦:T⟧)⟦:R⟧ { return x + this.a; }, get g()⟦:R⟧ { return 2; }, set s(v⟦:T⟧) { this.a = v; }, async am(x⟦:T⟧)⟦:R⟧ { return x; }, *gm()⟦:R⟧ { yield 1; }, ['c' + 1]: 3 }; o.s = 5; [o.m(1), o.g, [...o.gm()].length, o.c1].join()".replace("a⟦?⟧: 1", "a: 1"),
    "this-parameter": "function who(⟦this⟧ p⟦:T⟧)⟦:R⟧ { return (this as any).n + p; } const ob = { n: 'N', who }; [ob.who('x'), who.call({ n: 'M' }, 'y')].join()",
    "labels-and-ternaries": "const t⟦:T⟧ = true; const r1 = t ? (1⟦as⟧) : 2; const r2 = t ? { a: 1 }⟦as⟧ : { a: 2 }; const fn = t ? (x⟦:T⟧)⟦:R⟧ => x : null; outer: for (const i⟦:T⟧ of [1, 2]) { if (i === 1) continue outer; } [r1, r2.a, fn⟦!⟧(4)].join()",
    "template-and-regex": "const n⟦:T⟧ = 3; const s = `a${n⟦as⟧}b${(n⟦!⟧) + 1}`; const re = /a<b>(c)/; const m = 'a<b>c'.match(re)⟦!⟧; const lt = n<4>(2 as any); [s, m[1], lt].join()",
    "exports-and-types": "⟦S⟧ export const ex⟦:T⟧ = 1; export function ef⟦<P>⟧(a⟦:T⟧)⟦:R⟧ { return a; } ⟦S⟧ export class EC⟦<P>⟧ ⟦impl⟧ { ⟦M⟧ v⟦:T⟧ = 2; } export default ef(ex) + new EC().v;",
    "type-statements-between": "let acc = 0; ⟦S⟧ acc += 1; ⟦S⟧ ⟦S⟧ function bump()⟦:R⟧ { acc += 10; } ⟦S⟧ bump(); if (acc > 0) { ⟦S⟧ acc *= 2; } for (const i of [1]) { ⟦S⟧ acc += i; } acc",
    "interface-like-names": "const type = 1, declare = 2, interface_ = 3, namespace = 4, abstract = 5, readonly = 6, as = 7, is = 8, keyof = 9, infer = 10, satisfies = 11, of = 12, asserts = 13; let module = 14; [type + declare, namespace * abstract, readonly - as, is + keyof + infer + satisfies + of + asserts + module + interface_].join()",
}

MODIFIERS = ["public", "private", "protected", "readonly", "public readonly", "private readonly", "protected readonly", "override" if False else "public"]


def fill(src, rng, tg, on):
    """replace every hole; `on` False gives P (all empty)"""
    counter = [0]

    def hole(m):
        body = m.group(1)
        if not on or rng.chance(1, 4):
            if body.startswith("ov:"):
                return ""
            return "" if body != "this" else ""
        counter[0] += 1
        n = counter[0]
        if body == ":T":
            return ": " + tg.ty()
        if body == "!:T":
            return "!: " + tg.ty()
        if body == ":R":
            return ": " + tg.ty()
        if body == "<P>":
            return tg.tparams()
        if body == "<A>":
            return tg.targs()
        if body == "as":
            return rng.choice([" as %s" % tg.atom(1), " as unknown as %s" % tg.atom(1), " as any", " as const" if False else " as any"])
        if body == "sat":
            return " satisfies %s" % tg.atom(1)
        if body == "!":
            return "!"
        if body == "<>":
            return "<%s>" % rng.choice(["any", "Shape", "Dict", "unknown", "{ a: any }"])
        if body == "S":
            return " " + (rng.choice(STMT_DECLS) % {"n": n, "t": tg.ty(1)}) + " "
        if body == "M":
            return rng.choice(MODIFIERS) + " "
        if body == "?":
            return "?"
        if body == "impl":
            return "implements " + rng.choice(["Shape", "Shape, Point", "Iterable<number>", "Dict"])
        if body == "this":
            return "this: %s, " % tg.atom(1)
        if body.startswith("ov:"):
            return re.sub(r"⟦T⟧", lambda _m: tg.ty(1), body[3:].replace("⟦T⟧", "⟦T⟧")) + " "
        return ""

    # overload holes contain nested ⟦T⟧: resolve those first with a private marker
    def ov(m):
        inner = m.group(1)
        if not on or rng.chance(1, 4):
            return ""
        return re.sub(r"⟦T⟧", lambda _m: tg.ty(1), inner) + " "
    out = re.sub(r"⟦ov:((?:[^⟦⟧]|⟦T⟧)*)⟧", ov, src)
    out = re.sub(r"⟦([^⟦⟧]*)⟧", hole, out)
    # a this-parameter hole leaves "( p" / "()" fine; when `this` was emitted before an empty list fix the comma
    out = re.sub(r"this: ([^,()]*(?:\([^()]*\))?[^,()]*), \)", r"this: \1)", out)
    return out


KNOWN = {}


def run(chk):
    chk.assumptions = [
        "the undecorated program P (every hole empty) is the reference; D(P) differs from P only by static TypeScript syntax",
        "type-only imports name a module the harness can supply; whether tsrun asks for it is not part of the comparison",
        "declarations used by the type grammar (Shape, T0, Dict, Point, Fn1) are prepended to D(P) only; they are type-only themselves",
    ]
    chk.prove(["theories/Erase/Properties.vo"], ["theories/Erase/Properties.v"], facts=["C03"])
    ok, out, chk.th = common.build_harness("debug")
    if not ok:
        chk.proof_breaks.append("harness does not build against /repo: " + out[-800:])
        return chk.finish()
    rng = common.Rng(chk.seed, PID)
    tg = TyGen(rng)
    mods = {"/types": "export interface Ghost {} export const real = 1;", "/types.ts": "export const real = 1;"}

    def request(src):
        return {"runs": [{"src": src, "path": "/c03.ts", "modules": mods}]}

    if chk.replay:
        r = json.load(open(chk.replay))
        res, err = c11.run_seq(chk, [request(r["plain"]), request(r["decorated"])], "replay03")
        a, b = c11.view(res[0]["runs"][0]), c11.view(res[1]["runs"][0])
        log("replay: plain %r" % (a,))
        log("replay: decorated %r" % (b,))
        if a != b:
            chk.violation(dict(r, observed={"plain": a, "decorated": b}))
        return chk.finish()

    n_dec = 8 if chk.tier == "quick" else 60
    cases = []
    for name, sk in SKELETONS.items():
        plain = fill(sk, rng, tg, False)
        for k in range(n_dec):
            cases.append((name, plain, PRELUDE_TYPES + fill(sk, rng, tg, True)))
    n_gen = 40 if chk.tier == "quick" else 400
    for i in range(n_gen):
        r2 = common.Rng(chk.seed * 1000 + i, "c03g")
        ts_src = genprog.Gen(common.Rng(chk.seed * 1000 + i, "c03g"), features={}, ts=True).program(5, 3)
        js_src = genprog.Gen(common.Rng(chk.seed * 1000 + i, "c03g"), features={}, ts=False).program(5, 3)
        cases.append(("generated:%d" % i, js_src, ts_src))
    reqs = []
    for _, plain, dec in cases:
        reqs.append(request(plain))
        reqs.append(request(dec))
    res, err = c11.run_seq(chk, reqs, "c03", chunk=40)
    stats = {"skeletons": len(SKELETONS), "decorations": len(cases), "disagreements": 0, "plain_status": {}, "deviating": {}}
    known_hit = set()
    for k, (name, plain, dec) in enumerate(cases):
        ra, rb = res[2 * k], res[2 * k + 1]
        if "error" in ra or "error" in rb:
            chk.violation({"skeleton": name, "plain": plain, "decorated": dec, "what": "harness: %r %r" % (ra.get("error"), rb.get("error"))})
            continue
        a, b = c11.view(ra["runs"][0]), c11.view(rb["runs"][0])
        if k % max(1, n_dec) == 0 or name.startswith("generated"):
            stats["plain_status"][a["status"]] = stats["plain_status"].get(a["status"], 0) + 1
        if a != b:
            stats["disagreements"] += 1
            stats["deviating"][name] = stats["deviating"].get(name, 0) + 1
            cls = classify(dec, b)
            if cls:
                known_hit.add(cls)
                continue
            if len(chk.violations) < 8:
                chk.violation({"skeleton": name, "plain": plain, "decorated": dec, "observed": {"plain": a, "decorated": b},
                               "what": "adding static TypeScript syntax changed the outcome"})
    for e in chk.known:
        if e["class"] in known_hit:
            chk.known_finding(e)
        else:
            chk.stale_known.append("%s no longer reproduces" % e["class"])
    chk.samples.append({"skeleton": cases[9][0], "decorated": cases[9][2][len(PRELUDE_TYPES):][:500]})
    chk.coverage.update({
        "evaluations": 2 * len(cases), "distinct_nontrivial": len(cases),
        "rule": "%d skeletons with holes at every static-syntax position x %d random decorations from the type grammar + %d generated programs "
                "(TypeScript vs JavaScript rendering of the same program); outcome of D(P) identical to P" % (len(SKELETONS), n_dec, n_gen),
        "exhaustive": False, "stats": stats, "known_classes_hit": sorted(known_hit),
    })
    return chk.finish()


def classify(dec, outcome):
    """known-finding classes are decided on the decorated SOURCE (which construct it contains), never on the outcome alone"""
    for cls, pred in KNOWN.items():
        if pred(dec, outcome):
            return cls
    return None
