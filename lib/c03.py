"""C03 — TypeScript type syntax is erased: annotations never change behaviour.

Proof: coq/theories/Erase/Properties.v: for every program tree and every decoration of it (type-only
children inserted anywhere, value subtrees wrapped in assertions) a compiler that skips type
children and compiles wrappers as their operand emits the same code; src/compiler and
src/interpreter are such a compiler - every mention of type-only syntax in them is regenerated on
every run and is a pass-through, a no-op or a copy (c03_every_mention_of_type_syntax_ignores_it).
What the proof cannot see is the parser: whether D(P) is accepted and parsed to a decoration of
AST(P). That is decided by the search.
Search: core programs with holes at every position where TypeScript allows static syntax; P has all
holes empty, D(P) fills them from a type grammar (unions, intersections, tuples, function / object /
mapped / conditional / indexed / template-literal types, constraints and defaults, predicates),
assertions (`as`, chains, angle brackets, `!`, satisfies), declarations (interface, type, declare,
overloads), modifiers, `implements`, `this` parameters, definite assignment, type-only imports and
exports. P and D(P) run on fresh interpreters; status, value, console and error must be identical."""
import json
import os
import re

import common
from common import log
import c11
import genprog

PID = "C03"

PRIMS = ["number", "string", "boolean", "any", "unknown", "never", "void", "null", "undefined", "object", "symbol", "bigint"]
LITS = ["'a'", '"b c"', "1", "true", "false", "0x10"]      # negative and bigint literal types: known finding K-type-forms
NAMES = ["T0", "Shape", "Dict", "Point", "Fn1"]     # declared by PRELUDE_TYPES when used


class TyGen:
    def __init__(self, rng):
        self.r = rng

    def ty(self, d=0, params=()):
        r = self.r.below(100)
        if d > 1 or r < 22:
            return self.r.choice(PRIMS)
        if r < 30:
            return self.r.choice(LITS)
        if r < 36 and params:
            return self.r.choice(list(params))
        if r < 42:
            return self.r.choice(NAMES)
        if r < 50:
            base = self.atom(d + 1, params)
            if base in LITS or base.startswith("`") or base.startswith("{"):
                # arrays of literal / template-literal / mapped types: known finding K-type-forms (type:literal-array ...)
                base = self.r.choice(PRIMS + NAMES)
            return "%s[]" % base
        if r < 55:
            return "Array<%s>" % self.ty(d + 1, params)
        if r < 61:
            n = 1 + self.r.below(3)
            items = [self.ty(d + 1, params) for i in range(n)]      # optional / rest / labelled elements: K-type-forms
            return "[%s]" % ", ".join(items)
        if r < 68:
            return " | ".join(self.atom(d + 1, params) for _ in range(2 + self.r.below(2)))
        if r < 72:
            return " & ".join(self.atom(d + 1, params) for _ in range(2))
        if r < 78:
            # optional parameters and literal-typed rest arrays inside function types trip the arrow-parameter
            # speculation in some contexts (K-positions: pos:fn-type-optional-in-arrow-param); kept out of the random stream
            ps = ", ".join("%s: %s" % (chr(112 + i), self.ty(d + 1, params)) for i in range(self.r.below(3)))
            if self.r.chance(1, 4):
                ps += (", " if ps else "") + "...rest: %s[]" % self.r.choice(PRIMS)
            return "(%s) => %s" % (ps, self.ty(d + 1, params))
        if r < 80:
            return "new (x: %s) => %s" % (self.ty(d + 1, params), self.ty(d + 1, params))
        if r < 87:
            ms = []
            for i in range(1 + self.r.below(3)):
                k = self.r.below(5)
                nm = "k%d" % i
                if k == 0:
                    ms.append("readonly %s: %s" % (nm, self.ty(d + 1, params)))
                elif k == 1:
                    ms.append("%s?: %s" % (nm, self.ty(d + 1, params)))
                elif k == 2:
                    ms.append("%s(x: %s): %s" % (nm, self.ty(d + 1, params), self.ty(d + 1, params)))
                elif k == 3:
                    ms.append("[key: string]: %s" % self.ty(d + 1, params))
                else:
                    ms.append("%s: %s" % (nm, self.ty(d + 1, params)))
            return "{ %s }" % self.r.choice(["; ", ", "]).join(ms)
        if r < 90:
            return "{ [K in keyof %s]%s: %s }" % (self.r.choice(NAMES), self.r.choice(["", "?"]), self.ty(d + 1, params + ("K",)))
        if r < 93:
            return "%s extends %s ? %s : %s" % (self.atom(d + 1, params), self.atom(d + 1, params), self.atom(d + 1, params), self.atom(d + 1, params))
        if r < 95:
            return "%s[%s]" % (self.r.choice(NAMES), self.r.choice(["'a'", "keyof Shape"]))
        if r < 97:
            return self.r.choice(["keyof Shape", "typeof Math", "typeof globalThis", "keyof typeof Math"])
        if r < 99:
            return self.r.choice(["Map<string, %s>", "Promise<%s>", "Record<string, %s>", "Partial<%s>", "Set<%s>", "ReadonlyArray<%s>"]) % self.ty(d + 1, params)
        return "`pre${string}-${number}`"

    def atom(self, d, params=()):
        t = self.ty(d, params)
        if re.search(r"[ |&?]|=>", t) and not (t.startswith("{") and t.endswith("}") and "=>" not in t) and not (t.startswith("[") and t.endswith("]")):
            return "(%s)" % t
        return t

    def tparams(self):
        n = 1 + self.r.below(3)
        out = []
        for i in range(n):
            p = "T%d" % (i + 1)
            k = self.r.below(5)
            if k == 0:
                p += " extends %s" % self.atom(1)
            elif k == 1:
                p += " = %s" % self.atom(1)
            elif k == 2:
                p += " extends %s = %s" % (self.atom(1), self.atom(1))
            out.append(p)
        return "<%s>" % ", ".join(out)

    def targs(self):
        return "<%s>" % ", ".join(self.ty(1) for _ in range(1 + self.r.below(2)))


PRELUDE_TYPES = ("interface Shape { a: number; b?: string }\ntype T0 = number | string;\ntype Dict = { [k: string]: number };\n"
                 "interface Point extends Shape { x: number; y: number }\ntype Fn1 = (x: number) => number;\n")

STMT_DECLS = [
    "interface I%(n)d { p: %(t)s; q?(): void; readonly r: %(t)s }",
    "interface J%(n)d<A, B extends A = A> extends Shape { m<C>(c: C): [A, B, C] }",
    "type A%(n)d = %(t)s;",
    "type G%(n)d<X extends object = {}> = { [K in keyof X]: X[K] | %(t)s };",
    "declare const dc%(n)d: %(t)s;",
    "declare let dl%(n)d: %(t)s, dm%(n)d: number;",
    "declare function df%(n)d(a: %(t)s, b?: number): %(t)s;",
    "declare class DC%(n)d { m(): %(t)s; static s: number }",
    "declare namespace DN%(n)d { const v: %(t)s; function f(): void }",
    "declare module 'some-ambient-%(n)d' { export const z: %(t)s }",
    "declare global { interface Window%(n)d { w: %(t)s } }",
    "export interface EI%(n)d { e: %(t)s }",
    "export type ET%(n)d = %(t)s;",
    "import type { Ghost%(n)d } from './types';",
    "export type { Shape as S%(n)d };",
    "declare enum DE%(n)d { A, B }",
    "abstract class AB%(n)d { abstract m(): %(t)s; abstract p: number }",
]

# skeletons: ⟦:T⟧ annotation, ⟦:R⟧ return type, ⟦<P>⟧ type parameters, ⟦<A>⟧ type arguments, ⟦as⟧ assertion suffix,
# ⟦!⟧ non-null, ⟦<>⟧ angle-bracket assertion prefix, ⟦S⟧ type-only statement, ⟦M⟧ member modifier, ⟦?⟧ optional mark,
# ⟦impl⟧ implements clause, ⟦this⟧ this-parameter, ⟦ov:sig⟧ overload signature (text after ov: with ⟦T⟧ inside replaced), ⟦sat⟧ satisfies
SKELETONS = {
    "vars-and-arith": "⟦S⟧ let a⟦:T⟧ = 2; const b⟦:T⟧ = a * 3; var c⟦:T⟧ = (b⟦as⟧) + 1; ⟦S⟧ let d⟦!:T⟧; d = c⟦!⟧ + a; [a, b, c, d].join()",
    "function-basic": "function add⟦<P>⟧(x⟦:T⟧, y⟦:T⟧ = 2)⟦:R⟧ { return (x⟦as⟧) + y; } ⟦S⟧ add⟦<A>⟧(1) + add(1, 5)",
    "function-overloads": "⟦ov:function pick(a: ⟦T⟧): ⟦T⟧;⟧ ⟦ov:function pick(a: ⟦T⟧, b: ⟦T⟧): ⟦T⟧;⟧ function pick(a⟦:T⟧, b⟦?⟧⟦:T⟧)⟦:R⟧ { return b === undefined ? a : [a, b]; } JSON.stringify([pick(1), pick(1, 2)])",
    "optional-and-rest": "function f(a⟦:T⟧, b⟦?⟧⟦:T⟧, ...rest⟦:T⟧)⟦:R⟧ { return [a, b, rest.length].join(); } f(1) + '|' + f(1, 2, 3, 4)",
    "arrow-forms": "const f1 = (x⟦:T⟧)⟦:R⟧ => x * 2; const f2 = ⟦<PA>⟧(x⟦:T⟧, y⟦:T⟧)⟦:R⟧ => { return x + y; }; const f3 = async (x⟦:T⟧)⟦:R⟧ => x; const f4 = ()⟦:R⟧ => 7; [f1(2), f2(1, 2), f4(), typeof f3].join()",
    "arrow-return-only": "const g = (x)⟦:R⟧ => x * 2; const h = (a, b)⟦:R⟧ => a + b; const k = ([p, q]⟦:T⟧)⟦:R⟧ => p + q; const m = ({ w, z }⟦:T⟧)⟦:R⟧ => w * z; [g(2), h(1, 2), k([3, 4]), m({ w: 2, z: 5 })].join()",
    "arrow-in-conditional": "const pickf = (c⟦:T⟧) => c ? (x⟦:T⟧)⟦:R⟧ => x + 1 : (y⟦:T⟧)⟦:R⟧ => y - 1; [pickf(true)(1), pickf(false)(1)].join()",
    "arrow-default-param": "const d = (x⟦:T⟧ = 2, { y = 3 }⟦:T⟧ = {})⟦:R⟧ => x * y; [d(), d(4), d(4, { y: 1 })].join()",
    "destructuring": "const { p, q: [r, s = 9] }⟦:T⟧ = { p: 1, q: [2] }; const [u, , v = 5, ...w]⟦:T⟧ = [1, 2, undefined, 4, 5]; function g({ a, b = 2 }⟦:T⟧, [c]⟦:T⟧)⟦:R⟧ { return a + b + c; } [p, r, s, u, v, w.length, g({ a: 1 }, [3])].join()",
    "class-members": "⟦S⟧ class P⟦<P>⟧ ⟦impl⟧ { ⟦M⟧ x⟦:T⟧ = 1; ⟦M⟧ y⟦?⟧⟦:T⟧; static count⟦:T⟧ = 0; ⟦ov:label: ⟦T⟧;⟧ constructor(a⟦:T⟧, b⟦?⟧⟦:T⟧) { this.x = a; this.y = b; P.count++; } ⟦M⟧ sum⟦<P>⟧(k⟦:T⟧)⟦:R⟧ { return this.x + (this.y⟦!⟧ ?? 0) + k; } get dbl()⟦:R⟧ { return this.x * 2; } set dbl(v⟦:T⟧) { this.x = v / 2; } static make⟦<P>⟧(n⟦:T⟧)⟦:R⟧ { return new P⟦<A>⟧(n); } } const o = new P⟦<A>⟧(2, 3); o.dbl = 10; [o.sum(1), o.dbl, P.make(4).x, P.count].join()",
    "class-bare-fields": "class Base0 { constructor() { this.init(); } init() {} } class D0⟦<P>⟧ extends Base0 { ⟦M⟧ x⟦:T⟧; ⟦M⟧ y⟦?⟧⟦:T⟧; z⟦:T⟧ = 1; w⟦:T⟧; init() { this.x = 'early'; this.w = 'early'; } } class E0 { a⟦:T⟧; b⟦?⟧⟦:T⟧; constructor() { this.b = 2; } } const o0 = new D0(); const e0 = new E0(); JSON.stringify([Object.keys(o0), o0.x === undefined, 'y' in o0, Object.prototype.hasOwnProperty.call(o0, 'w'), Object.keys(e0), 'a' in e0])",
    "class-inheritance": "class A⟦<P>⟧ { ⟦M⟧ v⟦:T⟧; constructor(v⟦:T⟧) { this.v = v; } ⟦M⟧ get(⟦this⟧)⟦:R⟧ { return this.v; } } class B⟦<P>⟧ extends A ⟦impl⟧ { ⟦M⟧ w⟦:T⟧ = 5; constructor() { super(3); } ⟦M⟧ get()⟦:R⟧ { return super.get() + this.w; } } new B().get() + ':' + (new B() instanceof A)",
    "method-overloads": "class Q { ⟦ov:run(a: ⟦T⟧): ⟦T⟧;⟧ ⟦ov:run(a: ⟦T⟧, b: ⟦T⟧): ⟦T⟧;⟧ run(a⟦:T⟧, b⟦?⟧⟦:T⟧)⟦:R⟧ { return b ? a + b : a; } } new Q().run(1) + new Q().run(1, 2)",
    "generic-calls": "function id⟦<P>⟧(x⟦:T⟧)⟦:R⟧ { return x; } const m = new Map⟦<A>⟧(); m.set('a', id⟦<A>⟧(1)); const arr = [1, 2, 3].map⟦<A>⟧((x⟦:T⟧)⟦:R⟧ => x + 1); const s = new Set⟦<A>⟧([1, 1, 2]); const p = Promise.resolve⟦<A>⟧(4); [m.get('a'), arr.join('+'), s.size, id⟦<A>⟧('z'), typeof p].join()",
    "generic-vs-comparison": "const a = 1, b = 2, c = 3; function f⟦<P>⟧(x⟦:T⟧)⟦:R⟧ { return x; } const lt = a < b; const both = (a < b) > (c as any); const call = f⟦<A>⟧(a) < f(c); [lt, both, call, a<b, b>c].join()",
    "assertions": "const v⟦:T⟧ = JSON.parse('{\"a\":{\"b\":[1,2,3]}}'); const n = (v⟦as⟧).a⟦!⟧.b⟦!⟧[1]⟦as⟧; const o = { k: 1 }⟦sat⟧; const w = (⟦<>⟧v).a.b.length; const t = (n⟦as⟧)⟦!⟧ + w; [n, o.k, w, t].join()",
    "assertion-chains": "const x = 5; const y = x⟦as⟧⟦as⟧; const z = (x⟦as⟧ + 1)⟦as⟧; const arr = [x⟦as⟧, y⟦!⟧]⟦as⟧; const obj = { a: x⟦as⟧ }⟦as⟧; [y, z, arr.length, obj.a].join()",
    "non-null-calls": "const o = { v: 3, m() { return this.v; }, n: { k() { return this === o.n; } } }; const f = () => o; [o.m⟦!⟧(), o⟦!⟧.m(), f()⟦!⟧.m⟦!⟧(), o.n⟦!⟧.k⟦!⟧(), (o.m)⟦!⟧ === o.m].join()",
    "control-flow": "let total⟦:T⟧ = 0; for (let i⟦:T⟧ = 0; i < 3; i++) { total += i; } for (const x⟦:T⟧ of [1, 2]) { total += x; } for (const k⟦:T⟧ in { a: 1 }) { total += k.length; } try { throw new Error('e'); } catch (e⟦:T⟧) { total += (e⟦as⟧).message.length; } switch (total⟦as⟧) { case 8: total++; } total",
    "closures-and-callbacks": "function outer⟦<P>⟧(n⟦:T⟧)⟦:R⟧ { let c⟦:T⟧ = n; return { inc: (d⟦:T⟧ = 1)⟦:R⟧ => { c += d; return c; }, get: function ⟦<P>⟧(⟦this⟧)⟦:R⟧ { return c; } }; } const k = outer(1); k.inc(); k.inc(5); [k.get(), [3, 1, 2].sort((a⟦:T⟧, b⟦:T⟧)⟦:R⟧ => a - b).join('')].join()",
    "async-generators": "async function af⟦<P>⟧(x⟦:T⟧)⟦:R⟧ { const v⟦:T⟧ = await Promise.resolve(x); return v + 1; } function* gen⟦<P>⟧(n⟦:T⟧)⟦:R⟧ { for (let i⟦:T⟧ = 0; i < n; i++) yield i; } const r = await af(1); [r, [...gen(3)].join('')].join()",
    "object-literal-methods": "const o = { a⟦?⟧: 1, m⟦<P>⟧(x⟦:T⟧)⟦:R⟧ { return x + this.a; }, get g()⟦:R⟧ { return 2; }, set s(v⟦:T⟧) { this.a = v; }, async am(x⟦:T⟧)⟦:R⟧ { return x; }, *gm()⟦:R⟧ { yield 1; }, ['c' + 1]: 3 }; o.s = 5; [o.m(1), o.g, [...o.gm()].length, o.c1].join()".replace("a⟦?⟧: 1", "a: 1"),
    "this-parameter": "function who(⟦this⟧ p⟦:T⟧)⟦:R⟧ { return (this as any).n + p; } const ob = { n: 'N', who }; [ob.who('x'), who.call({ n: 'M' }, 'y')].join()",
    "labels-and-ternaries": "const t⟦:T⟧ = true; const r1 = t ? (1⟦as⟧) : 2; const r2 = t ? { a: 1 }⟦as⟧ : { a: 2 }; const fn = t ? (x⟦:T⟧)⟦:R⟧ => x : null; outer: for (const i⟦:T⟧ of [1, 2]) { if (i === 1) continue outer; } [r1, r2.a, fn⟦!⟧(4)].join()",
    "template-and-regex": "const n⟦:T⟧ = 3; const s = `a${n⟦as⟧}b${(n⟦!⟧) + 1}`; const re = /a<b>(c)/; const m = 'a<b>c'.match(re)⟦!⟧; const lt = (n < 4) > (2 as any); [s, m[1], lt].join()",
    "exports-and-types": "⟦S⟧ export const ex⟦:T⟧ = 1; export function ef⟦<P>⟧(a⟦:T⟧)⟦:R⟧ { return a; } ⟦S⟧ export class EC⟦<P>⟧ ⟦impl⟧ { ⟦M⟧ v⟦:T⟧ = 2; } export default ef(ex) + new EC().v;",
    "type-statements-between": "let acc = 0; ⟦S⟧ acc += 1; ⟦S⟧ ⟦S⟧ function bump()⟦:R⟧ { acc += 10; } ⟦S⟧ bump(); if (acc > 0) { ⟦S⟧ acc *= 2; } for (const i of [1]) { ⟦S⟧ acc += i; } acc",
    "interface-like-names": "const type = 1, declare = 2, interface_ = 3, namespace = 4, abstract = 5, readonly = 6, as = 7, is = 8, keyof = 9, infer = 10, satisfies = 11, of = 12, asserts = 13; let module = 14; [type + declare, namespace * abstract, readonly - as, is + keyof + infer + satisfies + of + asserts + module + interface_].join()",
}

# ---- feature matrix: one minimal (plain, decorated) pair per type form / position -----------------------------
TYPE_FORMS = {
 "literal-array": "true[]",
 "literal-string-array": "'a'[]",
 "fn-param-conditional": "(p: object extends unknown ? object : unknown) => void",
 "obj-index-and-members": "{ [key: string]: string; k1: string; readonly k2: 'a' }",
 "conditional-chain": "T0 extends string ? 1 : T0 extends number ? 2 : 3",
 "prim": "number",
 "union": "number | string",
 "leading-pipe": "| number | string",
 "intersection": "Shape & Point",
 "array": "number[]",
 "array-paren": "(number | string)[]",
 "generic-array": "Array<number>",
 "tuple": "[number, string]",
 "tuple-optional": "[number, string?]",
 "tuple-rest": "[number, ...string[]]",
 "tuple-labeled": "[a: number, b: string]",
 "tuple-empty": "[]",
 "literal-str": "'a'",
 "literal-num": "1",
 "literal-neg": "-1",
 "literal-bool": "true",
 "literal-bigint": "1n",
 "literal-hex": "0x10",
 "literal-template": "`pre${string}`",
 "fn-type": "(x: number) => string",
 "fn-type-optional": "(x?: number) => void",
 "fn-type-rest": "(...r: number[]) => void",
 "fn-type-generic": "<T>(x: T) => T",
 "fn-type-nested": "(f: (y: number) => void) => (z: string) => number",
 "ctor-type": "new (x: number) => Shape",
 "abstract-ctor-type": "abstract new () => Shape",
 "obj-type": "{ a: number; b: string }",
 "obj-commas": "{ a: number, b: string }",
 "obj-optional": "{ a?: number }",
 "obj-readonly": "{ readonly a: number }",
 "obj-method": "{ m(x: number): string }",
 "obj-index": "{ [k: string]: number }",
 "obj-call-sig": "{ (x: number): string }",
 "obj-ctor-sig": "{ new (x: number): Shape }",
 "obj-getter": "{ get a(): number; set a(v: number) }",
 "obj-empty": "{}",
 "obj-nested": "{ a: { b: { c: number[] } } }",
 "mapped": "{ [K in keyof Shape]: Shape[K] }",
 "mapped-optional": "{ [K in keyof Shape]?: number }",
 "mapped-minus": "{ -readonly [K in keyof Shape]-?: number }",
 "mapped-as": "{ [K in keyof Shape as `x${K & string}`]: number }",
 "conditional": "T0 extends string ? 1 : 2",
 "conditional-infer": "T0 extends Array<infer U> ? U : never",
 "conditional-nested": "T0 extends string ? (T0 extends number ? 1 : 2) : 3",
 "indexed": "Shape['a']",
 "indexed-number": "string[][number]",
 "keyof": "keyof Shape",
 "typeof": "typeof Math",
 "typeof-member": "typeof Math.PI",
 "keyof-typeof": "keyof typeof Math",
 "readonly-array": "readonly number[]",
 "readonly-tuple": "readonly [number, string]",
 "unique-symbol": "unique symbol",
 "generic-ref": "Map<string, number>",
 "generic-nested": "Map<string, Array<Set<number>>>",
 "generic-default-usage": "Promise<void>",
 "qualified": "Intl.NumberFormat",
 "import-type": "import('./types').Ghost",
 "paren": "(number)",
 "this-type": "this",
 "predicate-free": "asserts",
 "never-void": "never | void",
 "null-undef": "null | undefined",
 "object-kw": "object",
 "symbol-bigint": "symbol | bigint",
 "template-complex": "`${number}-${string}px`",
 "optional-chain-type": "Shape[\"b\"] | undefined",
 "fn-returning-fn": "() => () => void",
 "union-of-fns": "((x: number) => void) | (() => string)",
 "array-of-fn": "(() => void)[]",
 "long-union": "'a' | 'b' | 'c' | 1 | 2 | true | null"
}

POSITIONS = {
 "fn-type-optional-in-arrow-param": ["const m = ({ w, z }) => w * z; m({ w: 2, z: 5 })", "const m = ({ w, z }: (p?: unknown, ...rest: string[]) => bigint): number => w * z; m({ w: 2, z: 5 })"],
 "fn-type-optional-in-method-param": ["class Q { run(a, b) { return b ? a + b : a; } } new Q().run(1, 2)", "class Q { run(a: (p?: string, q?: null) => (p: undefined) => unknown, b: string): boolean { return b ? a + b : a; } } new Q().run(1, 2)"],
 "getter-returning-fn-type": ["class C { get g() { return 2; } } new C().g", "class C { get g(): ((p: [never], ...rest: string[]) => { k0?: boolean, k1: boolean }) { return 2; } } new C().g"],
 "arrow-default-and-fn-return": ["const inc = (d = 1) => d; inc()", "const inc = (d: () => boolean = 1): ((p: number[], q: new (x: bigint) => object) => 0x10) => d; inc()"],
 "var-annot": [
  "let v = 1; v",
  "let v: number = 1; v"
 ],
 "const-annot": [
  "const v = 1; v",
  "const v: number = 1; v"
 ],
 "definite": [
  "let v; v = 1; v",
  "let v!: number; v = 1; v"
 ],
 "param-annot": [
  "function f(a) { return a; } f(1)",
  "function f(a: number) { return a; } f(1)"
 ],
 "param-optional": [
  "function f(a, b) { return b; } String(f(1))",
  "function f(a: number, b?: number) { return b; } String(f(1))"
 ],
 "param-default-annot": [
  "function f(a = 2) { return a; } f()",
  "function f(a: number = 2) { return a; } f()"
 ],
 "rest-annot": [
  "function f(...r) { return r.length; } f(1,2)",
  "function f(...r: number[]) { return r.length; } f(1,2)"
 ],
 "return-annot": [
  "function f() { return 1; } f()",
  "function f(): number { return 1; } f()"
 ],
 "return-predicate": [
  "function f(x) { return typeof x === 'string'; } f('a')",
  "function f(x: any): x is string { return typeof x === 'string'; } f('a')"
 ],
 "return-asserts": [
  "function f(x) { if (!x) throw 1; } f(1); 2",
  "function f(x: any): asserts x { if (!x) throw 1; } f(1); 2"
 ],
 "this-param": [
  "function f(p) { return this.n + p; } f.call({n:1}, 2)",
  "function f(this: { n: number }, p: number) { return this.n + p; } f.call({n:1}, 2)"
 ],
 "this-param-only": [
  "function f() { return this.n; } f.call({n:1})",
  "function f(this: any) { return this.n; } f.call({n:1})"
 ],
 "fn-type-params": [
  "function f(x) { return x; } f(1)",
  "function f<T>(x: T): T { return x; } f(1)"
 ],
 "fn-type-params-constraint": [
  "function f(x) { return x; } f(1)",
  "function f<T extends number = 1, U = T[]>(x: T): T { return x; } f(1)"
 ],
 "call-type-args": [
  "function f(x) { return x; } f(1)",
  "function f<T>(x: T) { return x; } f<number>(1)"
 ],
 "new-type-args": [
  "new Map().size",
  "new Map<string, number>().size"
 ],
 "method-call-type-args": [
  "[1].map((x) => x + 1)[0]",
  "[1].map<number>((x) => x + 1)[0]"
 ],
 "arrow-annot": [
  "const f = (x) => x; f(1)",
  "const f = (x: number): number => x; f(1)"
 ],
 "arrow-return-only": [
  "const f = (x) => x * 2; f(1)",
  "const f = (x): number => x * 2; f(1)"
 ],
 "arrow-return-only-2": [
  "const f = (a, b) => a + b; f(1, 2)",
  "const f = (a, b): number => a + b; f(1, 2)"
 ],
 "arrow-destructure-annot": [
  "const f = ([p, q]) => p + q; f([1, 2])",
  "const f = ([p, q]: [number, number]): number => p + q; f([1, 2])"
 ],
 "arrow-default-annot": [
  "const f = (x = 2) => x; f()",
  "const f = (x: number = 2): number => x; f()"
 ],
 "arrow-default-return-only": [
  "const f = (x = 2) => x; f()",
  "const f = (x = 2): number => x; f()"
 ],
 "arrow-generic": [
  "const f = (x) => x; f(1)",
  "const f = <T,>(x: T): T => x; f(1)"
 ],
 "arrow-generic-extends": [
  "const f = (x) => x; f(1)",
  "const f = <T extends number>(x: T): T => x; f(1)"
 ],
 "arrow-async-annot": [
  "const f = async (x) => x; typeof f",
  "const f = async (x: number): Promise<number> => x; typeof f"
 ],
 "arrow-in-ternary": [
  "const c = true; const f = c ? (x) => x + 1 : (y) => y - 1; f(1)",
  "const c = true; const f = c ? (x: number): number => x + 1 : (y: number): number => y - 1; f(1)"
 ],
 "arrow-fn-type-return": [
  "const f = (x) => () => x; f(1)()",
  "const f = (x: number): (() => number) => () => x; f(1)()"
 ],
 "as": [
  "const v = 1; v + 1",
  "const v = 1; (v as number) + 1"
 ],
 "as-chain": [
  "const v = 1; v",
  "const v = 1; v as unknown as string"
 ],
 "as-in-call-arg": [
  "function f(a) { return a; } f(1)",
  "function f(a) { return a; } f(1 as any)"
 ],
 "as-in-array": [
  "[1, 2].length",
  "[1 as any, 2 as number].length"
 ],
 "as-in-object": [
  "({ a: 1 }).a",
  "({ a: 1 as number }).a"
 ],
 "as-in-template": [
  "const n = 1; `${n}`",
  "const n = 1; `${n as number}`"
 ],
 "as-const": [
  "[1, 2].length",
  "([1, 2] as const).length"
 ],
 "as-after-member": [
  "const o = {a: {b: 1}}; o.a.b",
  "const o = {a: {b: 1}}; (o.a as any).b as number"
 ],
 "as-binary-precedence": [
  "1 + 2 * 3",
  "(1 + 2 * 3) as number"
 ],
 "as-statement-end": [
  "let v; v = 1; v",
  "let v; v = 1 as any; v"
 ],
 "as-in-return": [
  "function f() { return 1; } f()",
  "function f() { return 1 as any; } f()"
 ],
 "as-in-arrow-body": [
  "const f = () => 1; f()",
  "const f = () => 1 as number; f()"
 ],
 "as-in-condition": [
  "const v = 1; v ? 1 : 2",
  "const v = 1; (v as any) ? 1 as 1 : 2 as 2"
 ],
 "angle-assert": [
  "const v = 1; v",
  "const v = 1; <number>v"
 ],
 "angle-assert-paren": [
  "const v = {a: 1}; v.a",
  "const v = {a: 1}; (<any>v).a"
 ],
 "satisfies": [
  "({ a: 1 }).a",
  "({ a: 1 } satisfies Shape).a"
 ],
 "satisfies-noparen": [
  "const o = { a: 1 }; o.a",
  "const o = { a: 1 } satisfies Shape; o.a"
 ],
 "non-null": [
  "const o = {a: 1}; o.a",
  "const o = {a: 1}; o!.a!"
 ],
 "non-null-call": [
  "const o = {v: 3, m() { return this.v; }}; o.m()",
  "const o = {v: 3, m() { return this.v; }}; o.m!()"
 ],
 "non-null-index": [
  "const a = [1]; a[0]",
  "const a = [1]; a![0]!"
 ],
 "non-null-then-call": [
  "const f = () => 2; f()",
  "const f = () => 2; f!()"
 ],
 "non-null-assign": [
  "let v; v = 1; v",
  "let v: any; v! = 1; v"
 ],
 "interface": [
  "1",
  "interface I { a: number; m(): void } 1"
 ],
 "interface-generic-extends": [
  "1",
  "interface I<A, B extends A = A> extends Shape, Point { m<C>(c: C): [A, B, C] } 1"
 ],
 "type-alias": [
  "1",
  "type A = number | string; 1"
 ],
 "type-alias-generic": [
  "1",
  "type G<X extends object = {}> = { [K in keyof X]: X[K] }; 1"
 ],
 "declare-const": [
  "1",
  "declare const dc: number; 1"
 ],
 "declare-let-multi": [
  "1",
  "declare let a: number, b: string; 1"
 ],
 "declare-function": [
  "1",
  "declare function df(a: number, b?: string): void; 1"
 ],
 "declare-class": [
  "1",
  "declare class DC { m(): void; static s: number } 1"
 ],
 "declare-namespace": [
  "1",
  "declare namespace DN { const v: number; function f(): void } 1"
 ],
 "declare-module": [
  "1",
  "declare module 'ambient' { export const z: number } 1"
 ],
 "declare-global": [
  "1",
  "declare global { interface W { w: number } } 1"
 ],
 "declare-enum": [
  "1",
  "declare enum DE { A, B } 1"
 ],
 "export-interface": [
  "export const z = 1;",
  "export interface EI { e: number } export const z = 1;"
 ],
 "export-type": [
  "export const z = 1;",
  "export type ET = number; export const z = 1;"
 ],
 "import-type": [
  "1",
  "import type { Ghost } from './types'; 1"
 ],
 "import-inline-type": [
  "1",
  "import { type Ghost } from './types'; 1"
 ],
 "import-mixed-type": [
  "import { real } from './types'; real",
  "import { real, type Ghost } from './types'; real"
 ],
 "export-type-clause": [
  "1",
  "export type { Shape as S }; 1"
 ],
 "export-type-from": [
  "1",
  "export type { Ghost } from './types'; 1"
 ],
 "fn-overloads": [
  "function f(a, b) { return b ? a + b : a; } f(1) + f(1, 2)",
  "function f(a: number): number; function f(a: number, b: number): number; function f(a: number, b?: number) { return b ? a + b : a; } f(1) + f(1, 2)"
 ],
 "method-overloads": [
  "class Q { run(a, b) { return b ? a + b : a; } } new Q().run(1, 2)",
  "class Q { run(a: number): number; run(a: number, b: number): number; run(a: number, b?: number) { return b ? a + b : a; } } new Q().run(1, 2)"
 ],
 "ctor-overloads": [
  "class Q { constructor(a, b) { this.v = b ?? a; } } new Q(1, 2).v",
  "class Q { v: number; constructor(a: number); constructor(a: number, b: number); constructor(a: number, b?: number) { this.v = b ?? a; } } new Q(1, 2).v"
 ],
 "field-annot": [
  "class C { x = 1; } new C().x",
  "class C { x: number = 1; } new C().x"
 ],
 "field-optional": [
  "class C { y; } String(new C().y)",
  "class C { y?: number; } String(new C().y)"
 ],
 "field-definite": [
  "class C { y; } String(new C().y)",
  "class C { y!: number; } String(new C().y)"
 ],
 "field-modifiers": [
  "class C { a = 1; b = 2; c = 3; d = 4; } Object.keys(new C()).join()",
  "class C { public a = 1; private b = 2; protected c = 3; readonly d = 4; } Object.keys(new C()).join()"
 ],
 "field-modifier-combo": [
  "class C { a = 1; static s = 2; } new C().a + C.s",
  "class C { private readonly a: number = 1; public static readonly s: number = 2; } new C().a + C.s"
 ],
 "method-modifiers": [
  "class C { m() { return 1; } static s() { return 2; } get g() { return 3; } } new C().m() + C.s() + new C().g",
  "class C { public m(): number { return 1; } private static s(): number { return 2; } protected get g(): number { return 3; } } new C().m() + (C as any).s() + (new C() as any).g"
 ],
 "declare-field": [
  "class C { a = 1; } Object.keys(new C()).join()",
  "class C { declare ghost: string; a = 1; } Object.keys(new C()).join()"
 ],
 "index-signature-class": [
  "class C { a = 1; } new C().a",
  "class C { [key: string]: any; a = 1; } new C().a"
 ],
 "optional-method-decl": [
  "class C { a = 1; } new C().a",
  "class C { m?(): void; a = 1; } new C().a"
 ],
 "implements": [
  "class C { a = 1; } new C().a",
  "class C implements Shape { a = 1; } new C().a"
 ],
 "implements-multi": [
  "class C { a = 1; x = 0; y = 0; } new C().a",
  "class C implements Shape, Point { a = 1; x = 0; y = 0; } new C().a"
 ],
 "class-type-params": [
  "class B { v; constructor(v) { this.v = v; } } new B(1).v",
  "class B<T, U extends T = T> { v: T; constructor(v: T) { this.v = v; } } new B<number>(1).v"
 ],
 "extends-type-args": [
  "class A { v = 1; } class B extends A {} new B().v",
  "class A<T> { v = 1; } class B<T> extends A<T> {} new B<number>().v"
 ],
 "extends-call-type-args": [
  "function mix(x) { return x; } class A { v = 1; } class B extends mix(A) {} new B().v",
  "function mix<T>(x: T) { return x; } class A { v = 1; } class B extends mix<typeof A>(A) {} new B().v"
 ],
 "override-modifier": [
  "class A { m() { return 1; } } class B extends A { m() { return 2; } } new B().m()",
  "class A { m() { return 1; } } class B extends A { override m() { return 2; } } new B().m()"
 ],
 "abstract-class": [
  "class A { n() { return 2; } } class B extends A { m() { return 1; } } new B().m() + new B().n()",
  "abstract class A { abstract m(): number; n() { return 2; } } class B extends A { m() { return 1; } } new B().m() + new B().n()"
 ],
 "accessor-annot": [
  "class C { get g() { return 1; } set g(v) {} } new C().g",
  "class C { get g(): number { return 1; } set g(v: number) {} } new C().g"
 ],
 "obj-method-annot": [
  "({ m(x) { return x; } }).m(1)",
  "({ m<T>(x: T): T { return x; } }).m(1)"
 ],
 "catch-annot": [
  "try { throw 1; } catch (e) { e }",
  "try { throw 1; } catch (e: unknown) { e }"
 ],
 "for-of-annot": [
  "let s = 0; for (const x of [1, 2]) s += x; s",
  "let s = 0; for (const x of [1, 2] as number[]) s += x; s"
 ],
 "destructure-annot": [
  "const { a, b } = { a: 1, b: 2 }; a + b",
  "const { a, b }: { a: number; b: number } = { a: 1, b: 2 }; a + b"
 ],
 "array-destructure-annot": [
  "const [a, b] = [1, 2]; a + b",
  "const [a, b]: [number, number] = [1, 2]; a + b"
 ],
 "generic-lt-ambiguity": [
  "const a = 1, b = 2, c = 3; (a < b) > c",
  "const a = 1, b = 2, c = 3; (a < b) > (c as any)"
 ],
 "lt-comparison-chain": [
  "const a = 1, b = 2; const f = (x) => x; a < b ? f(a) : f(b)",
  "const a: number = 1, b: number = 2; const f = <T,>(x: T): T => x; a < b ? f<number>(a) : f<number>(b)"
 ],
 "optional-call-type-args": [
  "const o = { f: (x) => x }; o.f?.(1)",
  "const o = { f: <T,>(x: T) => x }; o.f?.<number>(1)"
 ],
 "tagged-template-type-args": [
  "function t(s) { return s[0]; } t`x`",
  "function t<T>(s: TemplateStringsArray) { return s[0]; } t<number>`x`"
 ],
 "enum-like-keyword-names": [
  "const type = 1, declare = 2, namespace = 3, abstract = 4, as = 5, is = 6, keyof = 7, infer = 8, readonly = 9, satisfies = 10, asserts = 11, of = 12; let module = 13; type + declare + namespace + abstract + as + is + keyof + infer + readonly + satisfies + asserts + of + module",
  "const type: number = 1, declare = 2, namespace = 3, abstract = 4, as = 5, is = 6, keyof = 7, infer = 8, readonly = 9, satisfies = 10, asserts = 11, of = 12; let module = 13; type + declare + namespace + abstract + as + is + keyof + infer + readonly + satisfies + asserts + of + module"
 ]
}

MODIFIERS = ["public", "private", "protected", "readonly"]      # combinations and modifiers before static/get/set: K-positions


def fill(src, rng, tg, on):
    """replace every hole; `on` False gives P (all empty)"""
    counter = [0]

    def hole(m):
        body = m.group(1)
        if not on or rng.chance(1, 4):
            if body.startswith("ov:"):
                return ""
            return "" if body != "this" else ""
        counter[0] += 1
        n = counter[0]
        if body == ":T":
            return ": " + tg.ty()
        if body == "!:T":
            return ": " + tg.ty()          # definite assignment `!:` is a known finding (K-positions)
        if body == ":R":
            t = tg.ty()
            return ": " + ("(%s)" % t if "=>" in t or " extends " in t else t)
        if body == "<P>":
            return tg.tparams()
        if body == "<PA>":
            return ""                      # type parameters on arrow functions: known finding K-positions
        if body == "<A>":
            return tg.targs()
        if body == "as":
            return rng.choice([" as %s" % tg.atom(1), " as unknown as %s" % tg.atom(1), " as any", " as const" if False else " as any"])
        if body == "sat":
            return " satisfies %s" % tg.atom(1)
        if body == "!":
            return "!"
        if body == "<>":
            return "<%s>" % rng.choice(["any", "Shape", "Dict", "unknown", "{ a: any }"])
        if body == "S":
            return " " + (rng.choice(STMT_DECLS) % {"n": n, "t": tg.ty(1)}) + " "
        if body == "M":
            return rng.choice(MODIFIERS) + " "
        if body == "?":
            return "?"
        if body == "impl":
            return "implements " + rng.choice(["Shape", "Shape, Point", "Iterable<number>", "Dict"])
        if body == "this":
            return ""                      # this-parameters: known finding K-positions
        if body.startswith("ov:"):
            return re.sub(r"⟦T⟧", lambda _m: tg.ty(1), body[3:].replace("⟦T⟧", "⟦T⟧")) + " "
        return ""

    # overload holes contain nested ⟦T⟧: resolve those first with a private marker
    def ov(m):
        inner = m.group(1)
        if not on or rng.chance(1, 4):
            return ""
        return re.sub(r"⟦T⟧", lambda _m: tg.ty(1), inner) + " "
    out = re.sub(r"⟦ov:((?:[^⟦⟧]|⟦T⟧)*)⟧", ov, src)
    out = re.sub(r"⟦([^⟦⟧]*)⟧", hole, out)
    # a this-parameter hole leaves "( p" / "()" fine; when `this` was emitted before an empty list fix the comma
    out = re.sub(r"this: ([^,()]*(?:\([^()]*\))?[^,()]*), \)", r"this: \1)", out)
    return out


KNOWN = {}


def run(chk):
    chk.assumptions = [
        "the undecorated program P (every hole empty) is the reference; D(P) differs from P only by static TypeScript syntax",
        "type-only imports name a module the harness can supply; whether tsrun asks for it is not part of the comparison",
        "declarations used by the type grammar (Shape, T0, Dict, Point, Fn1) are prepended to D(P) only; they are type-only themselves",
    ]
    chk.prove(["theories/Erase/Properties.vo"], ["theories/Erase/Properties.v"], facts=["C03"])
    ok, out, chk.th = common.build_harness("debug")
    if not ok:
        chk.proof_breaks.append("harness does not build against /repo: " + out[-800:])
        return chk.finish()
    rng = common.Rng(chk.seed, PID)
    tg = TyGen(rng)
    mods = {"/types": "export interface Ghost {} export const real = 1;", "/types.ts": "export const real = 1;"}

    def request(src):
        return {"runs": [{"src": src, "path": "/c03.ts", "modules": mods}]}

    if chk.replay:
        r = json.load(open(chk.replay))
        res, err = c11.run_seq(chk, [request(r["plain"]), request(r["decorated"])], "replay03")
        a, b = c11.view(res[0]["runs"][0]), c11.view(res[1]["runs"][0])
        log("replay: plain %r" % (a,))
        log("replay: decorated %r" % (b,))
        if a != b:
            chk.violation(dict(r, observed={"plain": a, "decorated": b}))
        return chk.finish()

    # ---- feature matrix -----------------------------------------------------------------------------
    kf_path = os.path.join(common.CORPUS, PID, "known_features.json")
    known_features = json.load(open(kf_path)) if os.path.exists(kf_path) else {"K-type-forms": [], "K-positions": []}
    known_set = {f for fs in known_features.values() for f in fs}
    feats = [("type:" + n, "let v = 1; v", PRELUDE_TYPES + "let v: %s = 1 as any; v" % t) for n, t in TYPE_FORMS.items()]
    feats += [("pos:" + n, pd[0], PRELUDE_TYPES + pd[1]) for n, pd in POSITIONS.items()]
    freqs = []
    for _, plain, dec in feats:
        freqs.append(request(plain))
        freqs.append(request(dec))
    fres, err = c11.run_seq(chk, freqs, "c03f", chunk=40)
    feature_dev, known_hit = [], set()
    for k, (name, plain, dec) in enumerate(feats):
        a, b = c11.view(fres[2 * k]["runs"][0]), c11.view(fres[2 * k + 1]["runs"][0])
        if a != b:
            feature_dev.append(name)
            if name in known_set:
                known_hit.add("K-type-forms" if name.startswith("type:") else "K-positions")
            elif len(chk.violations) < 8:
                chk.violation({"skeleton": "feature " + name, "plain": plain, "decorated": dec, "observed": {"plain": a, "decorated": b},
                               "what": "a static-syntax feature that is not in the known list changes the outcome (or is rejected)"})
    repaired = sorted(known_set - set(feature_dev))
    if repaired:
        chk.stale_known.append("features listed as deviating that now erase correctly: " + ", ".join(repaired))

    n_dec = 8 if chk.tier == "quick" else 240
    cases = []
    for name, sk in SKELETONS.items():
        plain = fill(sk, rng, tg, False)
        for k in range(n_dec):
            cases.append((name, plain, PRELUDE_TYPES + fill(sk, rng, tg, True)))
    n_gen = 40 if chk.tier == "quick" else 2000
    for i in range(n_gen):
        r2 = common.Rng(chk.seed * 1000 + i, "c03g")
        ts_src = genprog.Gen(common.Rng(chk.seed * 1000 + i, "c03g"), features={}, ts=True).program(5, 3)
        js_src = genprog.Gen(common.Rng(chk.seed * 1000 + i, "c03g"), features={}, ts=False).program(5, 3)
        cases.append(("generated:%d" % i, js_src, ts_src))
    reqs = []
    for _, plain, dec in cases:
        reqs.append(request(plain))
        reqs.append(request(dec))
    res, err = c11.run_seq(chk, reqs, "c03", chunk=40)
    stats = {"skeletons": len(SKELETONS), "decorations": len(cases), "disagreements": 0, "plain_status": {}, "deviating": {},
             "features": len(feats), "features_deviating": len(feature_dev)}
    for k, (name, plain, dec) in enumerate(cases):
        ra, rb = res[2 * k], res[2 * k + 1]
        if "error" in ra or "error" in rb:
            chk.violation({"skeleton": name, "plain": plain, "decorated": dec, "what": "harness: %r %r" % (ra.get("error"), rb.get("error"))})
            continue
        a, b = c11.view(ra["runs"][0]), c11.view(rb["runs"][0])
        if k % max(1, n_dec) == 0 or name.startswith("generated"):
            stats["plain_status"][a["status"]] = stats["plain_status"].get(a["status"], 0) + 1
        if a != b:
            stats["disagreements"] += 1
            stats["deviating"][name] = stats["deviating"].get(name, 0) + 1
            cls = classify(dec, b)
            if cls:
                known_hit.add(cls)
                continue
            if len(chk.violations) < 8:
                chk.violation({"skeleton": name, "plain": plain, "decorated": dec, "observed": {"plain": a, "decorated": b},
                               "what": "adding static TypeScript syntax changed the outcome"})
    for e in chk.known:
        if e["class"] in known_hit:
            chk.known_finding(e)
        else:
            chk.stale_known.append("%s no longer reproduces" % e["class"])
    chk.samples.append({"skeleton": cases[9][0], "decorated": cases[9][2][len(PRELUDE_TYPES):][:500]})
    chk.coverage.update({
        "evaluations": 2 * len(cases), "distinct_nontrivial": len(cases),
        "rule": "%d type forms and %d positions as minimal (plain, decorated) pairs against the committed known-feature list; "
                % (len(TYPE_FORMS), len(POSITIONS)) +
                "%d skeletons with holes at every static-syntax position x %d random decorations from the type grammar + %d generated programs "
                "(TypeScript vs JavaScript rendering of the same program); outcome of D(P) identical to P" % (len(SKELETONS), n_dec, n_gen),
        "exhaustive": False, "stats": stats, "known_classes_hit": sorted(known_hit),
    })
    return chk.finish()


def classify(dec, outcome):
    """known-finding classes are decided on the decorated SOURCE (which construct it contains), never on the outcome alone"""
    for cls, pred in KNOWN.items():
        if pred(dec, outcome):
            return cls
    return None
