"""C01, stream S: exhaustive sweeps of index / count / radix arguments.
Each sweep is one program that calls a library method on every tuple of a
small argument grid (negative, zero, fractional, out of range, NaN, infinite,
undefined) and joins the results; the whole string is compared with node.
Items that deviate on the pinned tree are listed one by one in
corpus/C01/known_deviations.json under "sweeps" (known finding L-Sweeps); a
deviation at any other item is a violation with the sweep and the argument
tuple as replay. Arguments that make the process die by allocation size
(C06, E3) are not in the grids."""
R3 = "[-6,-4,-2,-1,0,1,2,3,4,5,6,7]"
RX = "[-Infinity,-7,-3,-1,-0.5,0,0.5,1,2,3,5,7,Infinity,NaN,undefined]"
def sweep3(body, r=R3):
    return "(() => { const R = %s; const out = []; for (const a of R) for (const b of R) for (const c of R) { let r; try { r = %s; } catch (e) { r = e.name; } out.push(r); } return out.join(';'); })()" % (r, body)
def sweep2(body, r=RX):
    return "(() => { const R = %s; const out = []; for (const a of R) for (const b of R) { let r; try { r = %s; } catch (e) { r = e.name; } out.push(r); } return out.join(';'); })()" % (r, body)
def sweep1(body, r=RX):
    return "(() => { const R = %s; const out = []; for (const a of R) { let r; try { r = %s; } catch (e) { r = e.name; } out.push(r); } return out.join(';'); })()" % (r, body)
S = {
 "arr.copyWithin3": sweep3("[1,2,3,4,5].copyWithin(a,b,c).join()"),
 "arr.copyWithinX": sweep2("[1,2,3,4,5].copyWithin(a,b).join()"),
 "arr.fill3": sweep3("[1,2,3,4,5].fill(0,b,c).join()", R3),
 "arr.fillX": sweep2("[1,2,3,4,5].fill(9,a,b).join()"),
 "arr.sliceX": sweep2("[1,2,3,4,5].slice(a,b).join()"),
 "arr.spliceX": sweep2("(() => { const x=[1,2,3,4,5]; const r=x.splice(a,b,'n'); return r.join()+'|'+x.join(); })()"),
 "arr.splice1": sweep1("(() => { const x=[1,2,3,4,5]; const r=x.splice(a); return r.join()+'|'+x.join(); })()"),
 "arr.indexOfX": sweep2("[1,2,3,2,1].indexOf(2,a)+','+[1,2,3,2,1].lastIndexOf(2,b)+','+[1,2,3,2,1].includes(3,a)"),
 "arr.atX": sweep1("String([1,2,3,4,5].at(a))"),
 "arr.flatX": sweep1("JSON.stringify([1,[2,[3,[4,[5]]]]].flat(a))"),
 "arr.lengthSet": sweep1("(() => { const x=[1,2,3]; x.length=a; return x.length+':'+x.join(); })()", "[0,1,2,3,5,-1,1.5,NaN,'2','x']"),
 "arr.ctor": sweep1("(() => { const x=new Array(a); return x.length+':'+(0 in x); })()", "[0,1,3,-1,1.5,NaN,'3','x',null,undefined,true]"),
 "arr.toSpliced": sweep2("[1,2,3,4,5].toSpliced(a,b,'n').join()"),
 "arr.with": sweep1("[1,2,3].with(a,9).join()"),
 "arr.reverseSortStable": "(() => { const x=[]; for (let i=0;i<40;i++) x.push({k:i%5,i}); return x.sort((p,q)=>p.k-q.k).map(o=>o.i).join()+'|'+[3,1,2].reverse().join()+'|'+[10,9,1].sort().join()+'|'+[undefined,3,,1].sort().join(); })()",
 "str.sliceX": sweep2("'abcde'.slice(a,b)"),
 "str.substringX": sweep2("'abcde'.substring(a,b)"),
 "str.substrX": sweep2("'abcde'.substr(a,b)"),
 "str.atX": sweep1("String('abcde'.at(a))+','+'abcde'.charAt(a)+','+'abcde'.charCodeAt(a)+','+'abcde'.codePointAt(a)"),
 "str.indexOfX": sweep2("'abcabc'.indexOf('b',a)+','+'abcabc'.lastIndexOf('b',b)+','+'abcabc'.includes('c',a)+','+'abcabc'.startsWith('b',a)+','+'abcabc'.endsWith('b',b)"),
 "str.padX": sweep2("'ab'.padStart(a,b===undefined?undefined:'xy')+'|'+'ab'.padEnd(a,'xyz')", "[-1,0,1,2,3,4,5,7,2.5,NaN,undefined]"),
 "str.repeatX": sweep1("'ab'.repeat(a)", "[-1,0,1,2,3,2.9,NaN,undefined,'2']"),
 "str.splitX": sweep2("JSON.stringify('a,b,,c'.split(a,b))", "[',','','b',undefined,0,1,2,-1,Infinity]"),
 "str.normalizeTrim": "[' a '.trim(),' a '.trimStart()+'|',' a '.trimEnd()+'|','\\u00a0\\ufeffx\\n'.trim().length,'abc'.localeCompare('abd'),'a-b_c'.replaceAll('-','+')].join()",
 "num.toStringRadix": sweep2("(255.5).toString(a)+','+(-255).toString(a)", "[2,8,10,16,36,undefined,1,37,2.5]"),
 "num.toFixedX": sweep2("(a).toFixed(b)", "[0,1,1.005,2.5,-2.5,1e21,123.456,0.000001,NaN]").replace("const b of R", "const b of [0,1,2,5,undefined,-1,101]"),
 "num.toPrecisionX": sweep2("(a).toPrecision(b)", "[0,1,1.005,25,-2.5,123456,0.000123,1e21]").replace("const b of R", "const b of [1,2,3,5,undefined,0,101]"),
 "num.parse": sweep1("parseInt(a)+','+parseFloat(a)+','+Number(a)", "['12','12px',' 12 ','0x1f','1e3','-0','','.5','5.','1_000','Infinity','-Infinity','0b11','0o7','12e','+5','  ']"),
 "num.parseIntRadix": sweep2("parseInt(a,b)", "['11','ff','z','077','0x10']").replace("const b of R", "const b of [undefined,0,2,8,10,16,36,1,37]"),
 "math.round": sweep1("[Math.round(a),Math.floor(a),Math.ceil(a),Math.trunc(a),Math.sign(a),Math.abs(a),Math.fround(a),Math.cbrt(a)].map(x=>Object.is(x,-0)?'-0':String(x)).join()", "[-2.5,-1.5,-0.5,-0.4,-0,0,0.4,0.5,1.5,2.5,2.4999999999999996,0.49999999999999994,1e21,-1e21,NaN,Infinity,-Infinity]"),
 "math.minmax": sweep2("[Math.min(a,b),Math.max(a,b),Math.hypot(a,b),Math.atan2(a,b)>0,Math.pow(a,b),a%b,a**b].map(x=>Object.is(x,-0)?'-0':String(x)).join()", "[-Infinity,-2,-0,0,0.5,1,2,Infinity,NaN]"),
 "math.clz": sweep1("[Math.clz32(a),Math.imul(a,3),a|0,a>>>0,a<<1,~a].join()", "[0,1,-1,2147483647,2147483648,4294967295,4294967296,-2147483649,1.9,-1.9,NaN,Infinity,1e21]"),
 "obj.keysOrder": "(() => { const o={b:1,2:1,a:1,1:1,[Symbol('s')]:1,'-1':1,'01':1,4294967295:1,4294967294:1}; return Object.keys(o).join()+'|'+JSON.stringify(o)+'|'+Object.entries(o).length; })()",
 "json.stringifyX": sweep1("JSON.stringify({a:[1,{b:2}],c:'x'},null,a)", "[0,1,2,10,11,-1,'--','',' ','abcdefghijkl',1.9,NaN,undefined,null,true]"),
 "json.values": sweep1("JSON.stringify(a)+'|'+JSON.stringify([a])+'|'+JSON.stringify({k:a})", "[undefined,null,NaN,Infinity,-0,0,1e21,1e-7,'a\\u2028\\ud800',true,()=>1,Symbol('x'),new Date(0),[,1],{toJSON(){return 5}},new Map([[1,2]]),Object(1),Object('s')]"),
 "date.parts": sweep1("(() => { const d=new Date(a); return [d.getTime(),isNaN(d)?'NaN':d.toISOString(),d.getUTCDay()].join(); })()", "[0,1e12,-1,8.64e15,8.64e15+1,NaN,'2020-02-29T12:00:00Z','2020-02-30','2020-01-01','2020','Thu, 01 Jan 1970 00:00:00 GMT',undefined,null,true,'x']"),
 "date.utc": sweep3("String(Date.UTC(2020+a,b,c))", "[-1,0,1,11,12,31,32,NaN]"),
 "regex.flags": "[/a/gi.flags,/a/.test('A'),/a/i.test('A'),'aAa'.replace(/a/g,'x'),'aAa'.replace(/a/gi,'x'),'a1b22'.match(/\\d+/g).join(),'x'.match(/y/),(/(a)(b)?/.exec('ac')||[]).length,'a,b;c'.split(/[,;]/).join('|'),'abc'.search(/c/),[...'a1b2'.matchAll(/\\d/g)].map(m=>m.index).join(),/^\\p{L}+$/u.test('éa'),'aaa'.lastIndexOf('a'),/a(?=b)/.test('ab'),/(?<n>a)/.exec('a').groups.n].join()",
 "string.unicode": "['\\ud83d\\ude00'.length,[...'\\ud83d\\ude00'].length,'\\ud83d\\ude00'.codePointAt(0),String.fromCodePoint(128512)==='\\ud83d\\ude00','ß'.toUpperCase(),'İ'.toLowerCase().length,'a'.localeCompare('B')<0,'\\u0041\\u030a'.normalize('NFC').length,'abc'<'abd','a'<'B','10'<'9',10<9].join()",
 "typed.coercions": "[1+'2','3'*'4',[]+[],[]+{},[1,2]+'',null+1,undefined+1,true+true,'5'-2,'5'+2,+[],+{},+'',+' 12 ',+'1,2',`${[1,[2,3]]}`,String(null),String([null]),String([undefined,1]),[0]==false,null==0,null>=0,undefined==null,NaN!=NaN,'b'>'a',[2]>1].join('|')",
}

# text outside ASCII but inside the BMP (UTF-16 units = characters, so the reference engine's positions
# are comparable): every position taken or returned must count characters, never bytes
TXT = "['héllo wörld','ñandú','日本語テキスト','aé','é','añbñcñ','','abc']"
RT = "[-9,-3,-2,-1,0,1,2,3,4,6,20,undefined]"
def sweept(body):
    return ("(() => { const T = %s; const R = %s; const out = []; for (const s of T) for (const a of R) for (const b of R) { let r; try { r = %s; } "
            "catch (e) { r = e.name; } out.push(JSON.stringify(r)); } return out.join(';'); })()" % (TXT, RT, body))
S.update({
 "text.slice": sweept("[s.slice(a, b), s.substring(a, b), s.substr(a, b)]"),
 "text.at": sweept("[s.at(a), s.charAt(a), s.charCodeAt(a), s.codePointAt(a), s[a < 0 ? 0 : a]]"),
 "text.indexOf": sweept("[s.indexOf(s.charAt(b < 0 ? 0 : b), a), s.lastIndexOf(s.charAt(b < 0 ? 0 : b), a), s.indexOf('', a), s.lastIndexOf('', a)]"),
 "text.includes": sweept("[s.includes(s.charAt(b < 0 ? 0 : b) || 'q', a), s.startsWith(s.slice(b, b + 2), a), s.endsWith(s.slice(b, b + 2), a)]"),
 "text.pad": sweept("[s.padStart(a, s), s.padEnd(a, 'é日'), s.repeat(a > 0 && a < 4 ? a : 0).length]"),
 "text.regexp": sweept("(() => { const ch = s.charAt(b < 0 ? 0 : b) || 'x'; const esc = ch.replace(/[.*+?^${}()|[\\]\\\\]/g, '\\\\$&'); const r = new RegExp(esc, 'g'); r.lastIndex = a < 0 ? 0 : (a || 0); "
                       "const m = r.exec(s); const first = [m && m.index, r.lastIndex]; const all = []; const q = new RegExp(esc + '+', 'g'); let k; while ((k = q.exec(s)) !== null && all.length < 9) all.push(k.index + '-' + q.lastIndex); "
                       "const t = new RegExp(esc, 'g'); let n = 0; while (t.test(s) && n < 20) n++; const y = new RegExp(esc, 'y'); y.lastIndex = a < 0 ? 0 : (a || 0); const ym = y.exec(s); "
                       "return [first, all.join(), n, t.lastIndex, ym && ym.index, y.lastIndex, s.search(new RegExp(esc)), (s.match(new RegExp(esc)) || {}).index, "
                       "[...s.matchAll(new RegExp(esc, 'g'))].map(x => x.index).join(), s.replace(new RegExp(esc, 'g'), (x, off) => '<' + off + '>'), s.replace(ch, (x, off) => '[' + off + ']'), s.split(ch).length]; })()"),
})
