"""C11 — an interpreter stays usable and clean after failed or abandoned runs.

Proof: coq/theories/Runs/Properties.v (for every history of runs, each an arbitrary
sequence of scope/call/suspension events ending by completing, failing or being
abandoned, the next run starts from the bookkeeping of a fresh interpreter; a failed
run is clean at once; bookkeeping at a program point as a function of its nesting path).
Tie / search:
  A. nesting paths over the model's constructs x {script, module}: the program is
     abandoned at the innermost point and the hook summary (env_guards, call_stack,
     env is global) is compared with Runs.Model.at_point evaluated inside Coq;
  B. histories: 1-3 dying runs (throw / ReferenceError / TypeError / syntax and compile
     errors / abandon at a marker / abandon while parked on an order) at the leaf of a random
     nest, including re-entering natives, generators and async functions that the model does
     not carry, followed by observer programs; every observer must behave exactly as on a fresh
     interpreter (status, value, console, error class/message/stack) and leave the fresh summary."""
import json
import os

import common
from common import log
import genprog

PID = "C11"
MARK = "console.log('MARK');"

# construct -> source templates; %(k)d is a fresh number, BODY the hole
BLOCKS = ["{ let b%(k)d = %(k)d; BODY }", "if (true) { let b%(k)d = %(k)d; BODY }",
          "try { let b%(k)d = %(k)d; BODY } catch (e%(k)d) { throw e%(k)d; }", "try { throw 0; } catch (b%(k)d) { BODY }",
          "switch (1) { case 1: { let b%(k)d = %(k)d; BODY } }", "lbl%(k)d: { let b%(k)d = %(k)d; BODY }",
          "while (true) { let b%(k)d = %(k)d; BODY break; }"]
LOOPS = ["for (let b%(k)d = 0; b%(k)d < 1; b%(k)d++) { BODY }", "for (const b%(k)d of [1]) { BODY }"]
CALLS = ["function f%(k)d() { let b%(k)d = %(k)d; BODY } f%(k)d();", "const o%(k)d = { m() { let b%(k)d = %(k)d; BODY } }; o%(k)d.m();",
         "class K%(k)d { constructor() { let b%(k)d = %(k)d; BODY } } new K%(k)d();", "const a%(k)d = () => { let b%(k)d = %(k)d; BODY }; a%(k)d();",
         "class S%(k)d { static { let b%(k)d = %(k)d; BODY } }"]
FINALLY = ["try { } finally { BODY }"]
MODEL = {"CBlock": BLOCKS, "CForLoop": LOOPS, "CCall": CALLS, "CFinally": FINALLY}
# constructs outside the model (re-entering natives run inside one step; generators and async frames)
WILD = ["[1].forEach((v%(k)d) => { let b%(k)d = %(k)d; BODY });", "const g%(k)d = { get p() { let b%(k)d = %(k)d; BODY return 1; } }; g%(k)d.p;",
        "function* gen%(k)d() { let b%(k)d = %(k)d; yield 1; BODY yield 2; } const it%(k)d = gen%(k)d(); it%(k)d.next(); it%(k)d.next();",
        "[3, 1, 2].sort((x%(k)d, y%(k)d) => { let b%(k)d = %(k)d; BODY return x%(k)d - y%(k)d; });",
        "new Promise((res%(k)d) => { let b%(k)d = %(k)d; BODY res%(k)d(1); });",
        "function tag%(k)d(s%(k)d) { let b%(k)d = %(k)d; BODY } tag%(k)d`x`;",
        "new Proxy({}, { get(t%(k)d, p%(k)d) { let b%(k)d = %(k)d; BODY return 1; } }).q;",
        "JSON.parse('[1]', (k%(k)d, v%(k)d) => { let b%(k)d = %(k)d; BODY return v%(k)d; });",
        "String({ toString() { let b%(k)d = %(k)d; BODY return 's'; } });"]
LEAVES = {"throw": "throw new Error('boom');", "reference": "undefinedFunction();", "type": "(null as any).x;",
          "throw-value": "throw { code: 7 };", "abandon": MARK}


def nest(path_templates, leaf):
    src = leaf
    for k, t in reversed(list(enumerate(path_templates, 1))):
        src = (t % {"k": k}).replace("BODY", src)
    return src


def pick_path(rng, n, wild):
    cs, ts = [], []
    for _ in range(n):
        if wild and rng.chance(1, 3):
            cs.append("W")
            ts.append(rng.choice(WILD))
        else:
            c = rng.choice(["CBlock", "CBlock", "CForLoop", "CCall", "CCall", "CFinally"])
            cs.append(c)
            ts.append(rng.choice(MODEL[c]))
    return cs, ts


def observers(rng, k):
    """self-contained observer programs; (source, path)"""
    obs = []
    names = ",".join("typeof b%d" % i for i in range(1, 8)) + ", typeof leak"
    obs.append(("[%s].join()" % names, None))
    obs.append(("[%s].join()" % names, "/obs_probe_%d.ts" % k))
    obs.append(("let r = 'none'; try { throw new Error('o'); } catch (e) { r = (e as any).message; } finally { r += '!'; } r", None))
    obs.append(("function d(n: number): number { return n === 0 ? 0 : 1 + d(n - 1); } d(300)", None))
    obs.append(("function inner() { throw new Error('trace'); } function outer() { inner(); } outer();", "/obs_trace_%d.ts" % k))
    g = genprog.Gen(rng, features={}, ts=True)
    obs.append((g.program(4, 2), "/obs_gen_%d.ts" % k))
    obs.append(("const p = Promise.resolve(5); const v = await p; v * 2", "/obs_async_%d.ts" % k))
    return obs


def view(r):
    """what a program's behaviour is, as the host sees it"""
    return {"status": r.get("status"), "value": r.get("value"), "json": r.get("json"), "class": r.get("class"),
            "message": r.get("message"), "stack": r.get("stack"), "log": r.get("log")}


FRESH_SUMMARY = {"env_is_global": True, "env_guards": 0, "call_stack": 0, "active_vm": False, "pending_orders": 0, "cancelled_orders": 0,
                 "order_responses": 0, "suspended_for_order": False, "waiting_contexts": False, "pending_program": False}


def summary_diff(s):
    return {k: s.get(k) for k, v in FRESH_SUMMARY.items() if s.get(k) != v}


def _seq_chunk(th, reqs, base, timeout):
    rf, of = base + ".req.jsonl", base + ".res.jsonl"
    with open(rf, "w") as f:
        for r in reqs:
            f.write(json.dumps(r) + "\n")
    rc, out = common.sh([th, "seq", rf, of], timeout=timeout)
    res = [json.loads(l) for l in open(of) if l.strip()] if os.path.exists(of) else []
    for p in (rf, of):
        if os.path.exists(p):
            os.remove(p)
    return rc, res, out


def run_seq(chk, reqs, tag, chunk=24):
    """runs the requests in parallel worker processes; a request that does not come back within the time limit is
    isolated and reported as {"error": "timeout"} (a later program hanging after a dead run is itself a finding)"""
    from concurrent.futures import ThreadPoolExecutor
    d = os.path.join(common.OUT, PID)
    os.makedirs(d, exist_ok=True)
    chunks = [(k, reqs[k:k + chunk]) for k in range(0, len(reqs), chunk)]

    def work(item):
        k, rs = item
        rc, res, out = _seq_chunk(chk.th, rs, os.path.join(d, "%s-%d" % (tag, k)), 120)
        if rc == 0 and len(res) == len(rs):
            return res
        outl = []
        for n, r in enumerate(rs):
            rc, res, out = _seq_chunk(chk.th, [r], os.path.join(d, "%s-%d-%d" % (tag, k, n)), 25)
            outl.append(res[0] if rc == 0 and len(res) == 1 else {"error": "timeout or crash (rc=%s)" % rc})
        return outl

    with ThreadPoolExecutor(16) as ex:
        parts = list(ex.map(work, chunks))
    return [x for p in parts for x in p], ""


def run(chk):
    chk.assumptions = [
        "the model carries the bookkeeping (scope chain, env_guards, call_stack, active VM, parked continuations), not the values; "
        "that a completing program's events are well bracketed is a hypothesis of the theorem, checked on the implementation by the fresh "
        "summary after every completing observer",
        "effects a program makes on purpose on global state (script-level declarations, globalThis properties) are outside the property; "
        "observers only look at names declared inside blocks/functions of the dead runs and at their own behaviour",
    ]
    chk.prove(["theories/Runs/Properties.vo"], ["theories/Runs/Properties.v"])
    ok, out, chk.th = common.build_harness("debug")
    if not ok:
        chk.proof_breaks.append("harness does not build against /repo: " + out[-800:])
        return chk.finish()
    rng = common.Rng(chk.seed, PID)
    stats = {"paths": 0, "histories": 0, "dying_runs": 0, "observer_runs": 0, "endings": {}}

    if chk.replay:
        r = json.load(open(chk.replay))
        res, err = run_seq(chk, [{"runs": r["runs"]}, {"runs": r["runs"][-1:]}], "replay")
        if res is None:
            raise common.FrameworkError(err)
        a, b = view(res[0]["runs"][-1]), view(res[1]["runs"][-1])
        sa, sf = res[0]["runs"][-1]["summary"], res[1]["runs"][-1]["summary"]
        sd = {k: (sa.get(k), sf.get(k)) for k in FRESH_SUMMARY if sa.get(k) != sf.get(k)}
        log("replay: after history %r ; fresh %r ; summary diff %r" % (a, b, sd))
        if a != b or sd:
            chk.violation(dict(r, observed={"after_history": a, "fresh": b, "summary_diff": sd}))
        return chk.finish()

    # ---- A: nesting paths against Runs.Model.at_point ----------------------------------------
    n_paths = 150 if chk.tier == "quick" else 6000
    paths = [(["CBlock"], [BLOCKS[0]], False), (["CCall", "CForLoop", "CBlock"], [CALLS[0], LOOPS[0], BLOCKS[1]], True)]
    for c, ts in MODEL.items():
        for t in ts:
            paths.append(([c], [t], False))
            paths.append((["CCall", c], [CALLS[0], t], True))
    while len(paths) < n_paths:
        cs, ts = pick_path(rng, 1 + rng.below(6), wild=False)
        paths.append((cs, ts, rng.chance(1, 2)))
    lines = ["From Coq Require Import List String.", "From TsrunV Require Import Base.Render Runs.Model.", "Import ListNotations.",
             "Local Open Scope string_scope.",
             "Definition one (m : bool) (p : list construct) : string := let b := at_point m p in "
             "string_of_nat (guards b) ++ \" \" ++ string_of_nat (cstack b) ++ \" \" ++ string_of_nat (List.length (env b)).",
             "Definition cases : list string := ["]
    lines.append(";\n".join("one %s [%s]" % ("true" if m else "false", "; ".join(cs)) for cs, _, m in paths) + "].")
    lines.append("Eval vm_compute in (lines cases).")
    model, out = common.run_cases_v("c11_paths", "\n".join(lines))
    if model is None:
        raise common.FrameworkError("cases.v for at_point failed: " + out[-600:])
    probe = "[%s].join()" % ",".join("typeof b%d" % i for i in range(1, 8))
    reqs = []
    for cs, ts, m in paths:
        reqs.append({"runs": [{"src": nest(ts, MARK), "path": "/dead.ts" if m else None, "abandon_on_mark": True},
                              {"src": probe, "path": None}]})
    res, err = run_seq(chk, reqs, "a")
    if res is None:
        chk.violation({"what": err})
        return chk.finish()
    fresh_probe = ",".join(["undefined"] * 7)
    for (cs, ts, m), want, o in zip(paths, model, res):
        stats["paths"] += 1
        r0, r1 = o["runs"][0], o["runs"][1]
        g, c, e = (int(x) for x in want.split())
        s = r0["summary"]
        got = (s["env_guards"], s["call_stack"], s["env_is_global"])
        if r0["status"] != "abandoned" or got != (g, c, e == 0):
            chk.proof_breaks.append("correspondence Runs.Model.at_point vs Interpreter at path %s (module=%s): model guards=%d call_stack=%d "
                                    "scopes=%d, implementation %r status %s" % (cs, m, g, c, e, got, r0["status"]))
            if len(chk.proof_breaks) > 6:
                break
        sd = summary_diff(r1["summary"])
        if r1.get("json") != fresh_probe or sd:
            if len(chk.violations) < 4:
                chk.violation({"runs": reqs[stats["paths"] - 1]["runs"], "observed": {"probe": r1.get("json"), "summary_diff": sd},
                               "what": "after a run abandoned inside %s the next program sees names or bookkeeping of the dead run" % cs})

    # ---- B: histories ---------------------------------------------------------------------------
    n_hist = 120 if chk.tier == "quick" else 8000
    hists = []
    fixed_dead = [
        {"src": "let leak = 1; { let b1 = 1; throw new Error('m'); }", "path": "/dead_m.ts"},
        {"src": "let leak = ;", "path": "/dead_s.ts"},
        {"src": "{ let b1 = 1; break; }", "path": "/dead_c.ts"},
        {"src": "import { order } from \"tsrun:host\"; async function f() { let b1 = 1; await order(1); } await f();", "path": "/dead_o.ts", "never_answer": True},
        {"src": "import { order } from \"tsrun:host\"; function f() { let b1 = 1; { let b2 = 2; order(1); " + MARK + " } } f();", "path": "/dead_o2.ts",
         "abandon_on_mark": True},
        {"src": "let res: any; const p = new Promise((r) => { res = r; }); async function f() { let b1 = 1; await p; } await f();", "path": "/dead_p.ts"},
        {"src": "async function f() { let b1 = 1; await null; { let b2 = 2; throw new Error('late'); } } await f();", "path": "/dead_a.ts"},
        {"src": "function r(n: number): number { let b1 = n; if (n > 3000) { throw new Error('deep'); } return 1 + r(n + 1); } r(0);", "path": None},
    ]
    for d in fixed_dead:
        hists.append([d])
    while len(hists) < n_hist:
        h = []
        for _ in range(1 + rng.below(3)):
            cs, ts = pick_path(rng, 1 + rng.below(5), wild=True)
            leaf = rng.choice(sorted(LEAVES))
            run = {"src": nest(ts, LEAVES[leaf]), "path": "/dead_%d.ts" % len(hists) if rng.chance(1, 2) else None}
            if leaf == "abandon":
                run["abandon_on_mark"] = True
            if rng.chance(1, 6):
                run["eval"] = True
            h.append(run)
        hists.append(h)
    reqs, index = [], []
    for k, h in enumerate(hists):
        for j, (src, path) in enumerate(observers(rng, k)):
            ob = {"src": src, "path": path}
            reqs.append({"runs": h + [ob]})
            reqs.append({"runs": [ob]})
            index.append((k, j))
    res, err = run_seq(chk, reqs, "b")
    if res is None:
        chk.violation({"what": err})
        return chk.finish()
    for n, (k, j) in enumerate(index):
        after, fresh = res[2 * n], res[2 * n + 1]
        if "error" in after or "error" in fresh:
            chk.violation({"runs": reqs[2 * n]["runs"], "what": "harness: %r / %r" % (after.get("error"), fresh.get("error"))})
            continue
        if j == 0:
            stats["histories"] += 1
            for r in after["runs"][:-1]:
                stats["dying_runs"] += 1
                stats["endings"][r["status"]] = stats["endings"].get(r["status"], 0) + 1
        stats["observer_runs"] += 1
        a, b = view(after["runs"][-1]), view(fresh["runs"][-1])
        # bookkeeping the observer itself leaves behind (C14's subject) is the same on the fresh interpreter
        sa, sf = after["runs"][-1]["summary"], fresh["runs"][-1]["summary"]
        sd = {k: (sa.get(k), sf.get(k)) for k in FRESH_SUMMARY if sa.get(k) != sf.get(k)}
        if a != b or sd:
            if len(chk.violations) < 5:
                chk.violation({"runs": reqs[2 * n]["runs"], "observed": {"after_history": a, "fresh": b, "summary_diff": sd},
                               "what": "an observer program behaves differently (or leaves different bookkeeping) after dead runs than on a fresh interpreter"})
    chk.samples.append({"history": hists[len(fixed_dead) + 2], "observer": observers(common.Rng(1, "s"), 0)[0][0]})
    chk.coverage.update({
        "evaluations": stats["paths"] + stats["observer_runs"], "distinct_nontrivial": stats["paths"] + stats["histories"],
        "rule": "%d nesting paths (every construct template alone and under a call, then PRNG-drawn paths of 1-6 constructs) x {script, module} "
                "abandoned at the innermost point and compared with at_point evaluated in Coq; %d histories of 1-3 dying runs (leaf kinds %s; "
                "nests of model constructs and 9 re-entering/generator wrappers; 8 fixed dead runs incl. parse/compile errors, parked orders and "
                "promises, stack exhaustion) each followed by 7 observers compared with a fresh interpreter"
                % (stats["paths"], stats["histories"], ", ".join(sorted(LEAVES))),
        "exhaustive": False, "stats": stats,
    })
    return chk.finish()
