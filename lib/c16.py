"""C16 — data crosses the JSON boundary without loss or corruption.
Proof: coq/theories/Json/Properties.v (document round trip, member access
reaches every member incl. integer-like keys, key round trip, totality of
serialisation on arbitrary value graphs). Tie: tsrun's create_from_json /
js_value_to_json / JSON.parse / JSON.stringify on generated documents and
value graphs vs the model (cases.v) and vs the documents themselves; node 20
as reference for script-side results."""
import json
import os
import subprocess

import common
from common import log

PID = "C16"

KEYS = ["a", "b", "key", "0", "1", "7", "01", "-1", "1.5", "4294967295", "4294967296", "", " ", "é", "日本", "a b", "__proto__x",
        "constructor_", "toString_", "length", "k\n", "q\"uote", "back\\slash", "tab\t", "😀", "\u007f", "x/y", "null", "true"]
STRS = ["", "x", "hello world", "line\nbreak", "  leading", "trailing  ", "quote\"", "back\\", "\t", "\u0000", "\u001f", "\u007f",
        "é", "日本語", "😀", " ", " ", "﻿", "a\r\nb", "</script>", "퟿", "", "null", "0", "{", "[1,2]"]


def gen_doc(rng, depth, wide=False):
    r = rng.below(100)
    if depth <= 0 or r < 38:
        k = rng.below(12)
        if k == 0:
            return None
        if k == 1:
            return rng.chance(1, 2)
        if k < 5:
            return rng.choice(STRS) + ("" if rng.chance(2, 3) else rng.choice(STRS))
        if k < 8:
            return rng.choice([0, 1, -1, 7, 255, 2 ** 31, 2 ** 32, -2 ** 31, 2 ** 53, -(2 ** 53), 2 ** 53 - 1, 10 ** 15, rng.below(10 ** 9)])
        if k < 11:
            return rng.choice([0.5, -0.25, 1.5e300, 5e-324, 0.1, 1e21, 1e-7, 123.456, 2.5, 1 / 3, 1e100])
        return rng.below(1000) / 8.0
    n = rng.below(7 if not wide else 40)
    if r < 68:
        return [gen_doc(rng, depth - 1) for _ in range(n)]
    d = {}
    for _ in range(n):
        d[rng.choice(KEYS) if rng.chance(3, 4) else "k%d" % rng.below(50)] = gen_doc(rng, depth - 1)
    return d


def leaf_paths(doc, path=(), out=None, limit=12):
    if out is None:
        out = []
    if len(out) >= limit:
        return out
    if isinstance(doc, dict) and doc:
        for k, v in doc.items():
            leaf_paths(v, path + (k,), out, limit)
    elif isinstance(doc, list) and doc:
        for i, v in enumerate(doc):
            leaf_paths(v, path + (i,), out, limit)
    else:
        out.append(path)
    return out


def access(path):
    s = "cfg"
    for p in path:
        # raw UTF-8 in the accessor: \uD83D\uDE00-style surrogate escapes in string literals are a
        # separate (C01) finding of the lexer, not part of the JSON boundary
        s += "[%s]" % (json.dumps(p, ensure_ascii=False) if isinstance(p, str) else str(p))
    return s


def lookup(doc, path):
    for p in path:
        doc = doc[p]
    return doc


def same_json(a, b):
    """tree equality, numbers by value (1 == 1.0), object key order irrelevant"""
    if isinstance(a, bool) or isinstance(b, bool) or a is None or b is None:
        return a is b or (a == b and type(a) == type(b))
    if isinstance(a, (int, float)) and isinstance(b, (int, float)):
        return float(a) == float(b)
    if isinstance(a, str) and isinstance(b, str):
        return a == b
    if isinstance(a, list) and isinstance(b, list):
        return len(a) == len(b) and all(same_json(x, y) for x, y in zip(a, b))
    if isinstance(a, dict) and isinstance(b, dict):
        return a.keys() == b.keys() and all(same_json(a[k], b[k]) for k in a)
    return False


# ---- Coq literals -----------------------------------------------------------
def coq_str(s):
    return '(string_of_hex "%s")' % s.encode("utf-8", "surrogatepass").hex()


def coq_json(d):
    if d is None:
        return "JNull"
    if isinstance(d, bool):
        return "JBool %s" % ("true" if d else "false")
    if isinstance(d, int):
        return "JNum (NInt (%d))" % d
    if isinstance(d, float):
        if d == int(d) and abs(d) < 2 ** 63:
            return "JNum (NInt (%d))" % int(d)
        return "JNum (NFrac %d)" % (abs(hash(d)) % (2 ** 40) + 1)
    if isinstance(d, str):
        return "JStr %s" % coq_str(d)
    if isinstance(d, list):
        return "JArr [%s]" % "; ".join(coq_json(x) for x in d)
    return "JObj [%s]" % "; ".join("(%s, %s)" % (coq_str(k), coq_json(v)) for k, v in d.items())


MODEL_PRELUDE = """From Coq Require Import List String ZArith NArith Bool.
From TsrunV Require Import Json.Model Base.Render.
Import ListNotations.
Local Open Scope string_scope.
Fixpoint json_eqb (a b : json) : bool :=
  match a, b with
  | JNull, JNull => true
  | JBool x, JBool y => Bool.eqb x y
  | JNum (NInt x), JNum (NInt y) => Z.eqb x y
  | JNum (NFrac x), JNum (NFrac y) => Pos.eqb x y
  | JStr x, JStr y => String.eqb x y
  | JArr x, JArr y => (fix go (x y : list json) : bool := match x, y with [] , [] => true | p :: x', q :: y' => json_eqb p q && go x' y' | _, _ => false end) x y
  | JObj x, JObj y => (fix go (x y : list (string * json)) : bool := match x, y with [] , [] => true | (k, p) :: x', (l, q) :: y' => String.eqb k l && json_eqb p q && go x' y' | _, _ => false end) x y
  | _, _ => false
  end.
Definition show_opt (o : option value) : string :=
  match o with
  | None => "none"
  | Some v => match to_json v with JStr s => String.append "s:" (hex_of_string s) | JNull => "null" | JBool true => "true" | JBool false => "false"
              | JNum (NInt z) => String.append "i:" (string_of_Z z) | JNum (NFrac _) => "f" | JArr _ => "arr" | JObj _ => "obj" end
  end.
"""


def model_docs(docs):
    """round trip + first-level member access evaluated by the model inside Coq"""
    items = []
    for d in docs:
        cj = coq_json(d)
        reads = ""
        if isinstance(d, dict):
            reads = "; ".join("show_opt (member (to_js d) %s)" % coq_str(k) for k in list(d.keys())[:6])
        items.append("(let d := %s in String.concat \",\" ((if json_eqb (to_json (to_js d)) d then \"rt\" else \"RT-DIFF\") :: [%s]))" % (cj, reads))
    body = MODEL_PRELUDE + "Definition results : list string := [\n" + ";\n".join(items) + "].\nEval vm_compute in (lines results).\n"
    return common.run_cases_v("c16_docs_%d" % os.getpid(), body, timeout=900)


def show_py(v):
    if v is None:
        return "null"
    if v is True:
        return "true"
    if v is False:
        return "false"
    if isinstance(v, str):
        return "s:" + v.encode("utf-8", "surrogatepass").hex()
    if isinstance(v, int) or (isinstance(v, float) and v == int(v) and abs(v) < 2 ** 63):
        return "i:%d" % int(v)
    if isinstance(v, float):
        return "f"
    return "arr" if isinstance(v, list) else "obj"


# ---- value graphs --------------------------------------------------------------
def gen_graph(rng):
    n = 1 + rng.below(5)
    objs = []
    for i in range(n):
        if rng.chance(1, 3):
            objs.append(("arr", []))
        else:
            objs.append(("obj", []))
    for i, (kind, members) in enumerate(objs):
        for j in range(rng.below(4)):
            r = rng.below(10)
            if r < 5:
                # references: mostly forward (acyclic), sometimes backward or self (cycle)
                if rng.chance(1, 5):
                    tgt = rng.below(n)
                else:
                    tgt = i + 1 + rng.below(n - i) if i + 1 < n else None
                if tgt is None or tgt >= n:
                    members.append(("p", rng.below(100)))
                else:
                    members.append(("r", tgt))
            elif r < 7:
                members.append(("p", rng.choice(["s", True, None, 1.5])))
            elif r < 8:
                members.append(("u", None) if rng.chance(1, 2) else ("y", None))     # undefined / a symbol-keyed member
            elif r < 9:
                members.append(("f", None))     # function
            else:
                members.append(("p", rng.below(100)))
    return objs


def graph_js(objs, as_value=False):
    lines = ["const o = [%s];" % ", ".join("[]" if k == "arr" else "{}" for k, _ in objs)]
    for i, (kind, members) in enumerate(objs):
        for j, (t, v) in enumerate(members):
            val = {"p": json.dumps(v), "r": "o[%s]" % v, "u": "undefined", "f": "function () {}", "y": "undefined"}[t]
            if t == "y" and kind != "arr":
                lines.append("o[%d][Symbol('k%d')] = %d;" % (i, j, j + 1))
            elif kind == "arr":
                lines.append("o[%d].push(%s);" % (i, val))
            else:
                lines.append("o[%d].m%d = %s;" % (i, j, val))
    if as_value:
        lines.append("o[0]")        # the value itself: the host reads it through js_value_to_json
    else:
        lines.append("let out; try { out = JSON.stringify(o[0]); } catch (e) { out = 'ERR:' + e.name; } out")
    return "\n".join(lines)


def graph_expected(objs):
    """the specification: cyclic -> TypeError, else the tree unfolding (undefined/function members omitted,
    null in arrays)"""
    def go(i, path):
        if i in path:
            raise RecursionError()
        kind, members = objs[i]
        if kind == "arr":
            out = []
            for t, v in members:
                out.append(go(v, path | {i}) if t == "r" else (v if t == "p" else None))
            return out
        out = {}
        for j, (t, v) in enumerate(members):
            if t == "r":
                out["m%d" % j] = go(v, path | {i})
            elif t == "p":
                out["m%d" % j] = v
        return out
    try:
        return go(0, frozenset())
    except RecursionError:
        return "ERR:TypeError"


def coq_graph(objs):
    hs = []
    for kind, members in objs:
        if kind == "arr":
            hs.append("GArr [%s]" % "; ".join(("GRef %d" % v) if t == "r" else "GPrim (%s)" % coq_json(v if t == "p" else None) for t, v in members))
        else:
            hs.append("GObj [%s]" % "; ".join("(%s, %s)" % (coq_str("m%d" % j), ("GRef %d" % v) if t == "r" else "GPrim (%s)" % coq_json(v))
                                              for j, (t, v) in enumerate(members) if t in ("r", "p")))
    return "[%s]" % "; ".join(hs)


def model_graphs(graphs):
    items = ["(match g_stringify %s (GRef 0) with GOk _ => \"ok\" | GCircular => \"circular\" | GFuel => \"FUEL\" end)" % coq_graph(g) for g in graphs]
    body = MODEL_PRELUDE + "Definition results : list string := [\n" + ";\n".join(items) + "].\nEval vm_compute in (lines results).\n"
    return common.run_cases_v("c16_graphs_%d" % os.getpid(), body, timeout=900)


def node_eval(prog, tag):
    d = os.path.join(common.OUT, PID)
    os.makedirs(d, exist_ok=True)
    p = os.path.join(d, tag + ".js")
    open(p, "w").write(prog)
    try:
        r = subprocess.run(["node", os.path.join(common.ROOT, "tools", "node_eval.js"), p], capture_output=True, text=True, timeout=120)
        os.remove(p)
        return json.loads(r.stdout)
    except Exception as ex:
        return {"status": "unavailable", "message": str(ex)}


def run(chk):
    chk.assumptions = [
        "serde_json's text <-> tree conversion is an oracle (validated through Python's json module and node)",
        "objects are modelled as insertion-ordered association lists; JSON equality ignores key order",
        "numbers: integers exactly, non-integer doubles opaque (identity only); integers above 2^53 are outside the property's range",
    ]
    chk.prove(["theories/Json/Properties.vo"], ["theories/Json/Properties.v"])
    ok, out, chk.th = common.build_harness("debug")
    if not ok:
        chk.proof_breaks.append("harness does not build against /repo: " + out[-800:])
        return chk.finish()
    rng = common.Rng(chk.seed, PID)
    stats = {"docs": 0, "graphs": 0, "reads": 0, "disagreements": 0, "indent_variants": 0}
    n_docs = 400 if chk.tier == "quick" else 20000
    docs = []
    cp = os.path.join(common.CORPUS, PID, "docs.json")
    if os.path.exists(cp):
        docs += json.load(open(cp))
    if chk.replay:
        r = json.load(open(chk.replay))
        docs = [r["document"]] if "document" in r else []
        n_docs = 0
    for i in range(n_docs):
        docs.append(gen_doc(rng, 1 + rng.below(6), wide=(i % 40 == 0)))
    # deep / wide extremes
    if not chk.replay:
        deep = 1
        for _ in range(60 if chk.tier == "quick" else 120):   # serde_json (the host side of the harness) refuses documents nested deeper than 128
            deep = [deep] if rng.chance(1, 2) else {"d": deep}
        docs.append(deep)
        docs.append({"k%d" % i: i for i in range(300)})
        docs.append(list(range(1000)))

    # ---- stream 1: host -> script -> host -------------------------------------
    d = os.path.join(common.OUT, PID)
    os.makedirs(d, exist_ok=True)
    rf, of = os.path.join(d, "req.jsonl"), os.path.join(d, "res.jsonl")
    metas = []
    with open(rf, "w") as f:
        for i, doc in enumerate(docs):
            paths = leaf_paths(doc)
            indent = [None, 1, 2, 3, 4, 8, 10, "\t", "  "][i % 9]
            script = ("JSON.stringify([JSON.stringify(cfg), [%s], JSON.stringify(JSON.parse(JSON.stringify(cfg)), null, %s)])"
                      % (", ".join(access(p) for p in paths), json.dumps(indent)))
            keys = list(doc.keys())[:8] if isinstance(doc, dict) else []
            f.write(json.dumps({"doc": doc, "script": script, "keys": keys, "gc": [None, 1, 5][i % 3]}) + "\n")
            metas.append((paths, keys, indent))
    rc, out = common.sh([chk.th, "json", rf, of], timeout=1800)
    if rc != 0:
        chk.violation({"what": "json harness died rc=%s" % rc, "tail": out[-300:]})
        return chk.finish()
    results = [json.loads(l) for l in open(of) if l.strip()]
    os.remove(rf)
    os.remove(of)
    for doc, (paths, keys, indent), res in zip(docs, metas, results):
        stats["docs"] += 1
        bad = None
        if "error" in res:
            bad = "harness: %s" % res["error"]
        elif not same_json(res["back"], doc):
            bad = "host round trip (create_from_json then js_value_to_json) changed the document"
        elif res["status"] != "complete":
            bad = "script failed on a host-supplied document: %s %s" % (res.get("class"), res.get("message"))
        else:
            try:
                triple = json.loads(res["value"][4:])
                if not same_json(json.loads(triple[0]), doc):
                    bad = "JSON.stringify(cfg) read back differs from the document"
                elif not same_json(triple[1], [lookup(doc, p) for p in paths]):
                    bad = "member access on the host-supplied document returned different components"
                elif not same_json(json.loads(triple[2]), doc):
                    bad = "JSON.stringify with indent %r does not read back as the document" % (indent,)
                stats["reads"] += len(paths)
                stats["indent_variants"] += 1
            except (ValueError, IndexError) as ex:
                bad = "script result is not well-formed JSON: %s" % ex
        if bad is None:
            for k in keys:
                if not same_json(res["api"].get(k), doc[k]):
                    bad = "api::get_property(%r) differs from the document" % k
        if bad:
            stats["disagreements"] += 1
            if stats["disagreements"] <= 4:
                chk.violation({"document": doc, "what": bad, "observed": {k: res.get(k) for k in ("status", "value", "class", "message", "back", "api")}})
    # model on the same documents (sample)
    sample = [x for x in docs if len(json.dumps(x)) < 3000][: (150 if chk.tier == "quick" else 1500)]
    for k in range(0, len(sample), 150):
        part = sample[k:k + 150]
        lines, raw = model_docs(part)
        if lines is None:
            raise common.FrameworkError("coqc failed on C16 documents: " + raw[-500:])
        for doc, line in zip(part, lines):
            exp = ["rt"] + ([show_py(doc[key]) for key in list(doc.keys())[:6]] if isinstance(doc, dict) else [])
            if line.split(",") != exp:
                raise common.FrameworkError("C16 model disagrees with the document semantics on %r: %r vs %r" % (doc, line, exp))
    chk.samples.append({"stream": "documents", "document": docs[min(7, len(docs) - 1)]})

    # ---- stream 2: value graphs (sharing, cycles) -------------------------------
    if not chk.replay:
        graphs = [gen_graph(rng) for _ in range(200 if chk.tier == "quick" else 12000)]
        graphs.append([("obj", [("r", 1), ("r", 1)]), ("obj", [("p", 1)])])          # diamond
        graphs.append([("obj", [("r", 0)])])                                          # self cycle
        graphs.append([("arr", [("r", 1), ("r", 1)]), ("arr", [("r", 2)]), ("obj", [("p", "leaf")])])
        progs = [("g%d" % i, "gc=%d" % [0, 1, 3][i % 3], graph_js(g)) for i, g in enumerate(graphs)]
        res = common.run_programs(chk.th, progs, tag="c16g", timeout=1800)
        mlines, raw = model_graphs(graphs[:300])
        if mlines is None:
            raise common.FrameworkError("coqc failed on C16 graphs: " + raw[-500:])
        for i, g in enumerate(graphs):
            stats["graphs"] += 1
            exp = graph_expected(g)
            v = res.get("g%d" % i, {})
            got = v.get("value", "")[4:] if v.get("status") == "complete" else "<%s>" % v.get("status")
            okay = (got == exp) if isinstance(exp, str) else False
            if not isinstance(exp, str):
                try:
                    okay = same_json(json.loads(got), exp)
                except ValueError:
                    okay = False
            if i < len(mlines):
                m = mlines[i]
                if (m == "circular") != (exp == "ERR:TypeError") or m == "FUEL":
                    raise common.FrameworkError("C16 graph model disagrees with the specification on %r: %s" % (g, m))
            if not okay:
                stats["disagreements"] += 1
                if stats["disagreements"] <= 4:
                    chk.violation({"graph": g, "program": graph_js(g), "specified": exp, "observed": got,
                                   "what": "JSON.stringify of a value graph: acyclic graphs serialise to their unfolding, cyclic ones are refused"})
        # the same graphs handed to the host as values (js_value_to_json, the exported-value path)
        import c11
        acyc = [(i, g) for i, g in enumerate(graphs) if not isinstance(graph_expected(g), str)][:120 if chk.tier == "quick" else 1500]
        sres, err = c11.run_seq(chk, [{"gc": [0, 1, 3][i % 3], "runs": [{"src": graph_js(g, True), "path": None}]} for i, g in acyc], "g16")
        for (i, g), o in zip(acyc, sres):
            stats["graphs"] += 1
            run0 = (o.get("runs") or [{}])[0]
            exp = graph_expected(g)
            okay = run0.get("status") == "complete" and same_json(run0.get("json"), exp)
            if not okay:
                stats["disagreements"] += 1
                if stats["disagreements"] <= 6:
                    chk.violation({"graph": g, "program": graph_js(g, True), "specified": exp,
                                   "observed": {k: run0.get(k) for k in ("status", "json", "class", "message")} or o,
                                   "what": "a value graph handed to the host (js_value_to_json) is not its unfolding: undefined, functions and "
                                           "symbol-keyed members have no JSON form"})
        chk.samples.append({"stream": "value graphs", "graph": graphs[3]})
    chk.coverage.update({
        "evaluations": stats["docs"] * 4 + stats["reads"] + stats["graphs"],
        "distinct_nontrivial": stats["docs"] + stats["graphs"],
        "rule": "documents: PRNG-drawn trees over a key/string pool with escapes, non-BMP, integer-like keys, boundary numbers, plus deep/wide "
                "extremes; each goes host->script->host, text->script->text with 9 indent arguments, member access on up to 12 leaves, "
                "api::get_property on top-level keys, under GC thresholds {default,1,5}; value graphs: random heaps with sharing and cycles",
        "documents": stats["docs"], "member_reads": stats["reads"], "value_graphs": stats["graphs"],
        "disagreements": stats["disagreements"],
    })
    return chk.finish()
