"""C02 — garbage collection is invisible: no reachable object is ever reclaimed.

Proof: coq/theories/Gc/InvisibleProperties.v (on the Gc model tied to src/gc.rs by the C13
correspondence): a collection leaves every object reachable from a live guard in place with its
value and references, host reads through handles to reachable objects are unchanged, the reachable
set is unchanged. What the proof cannot see is whether the interpreter keeps everything it will
still use reachable from a guard (the guard-before-allocate discipline of every native): that is
the subject of the search below.
Search: programs x collection schedules. Every program is run with automatic collection disabled
(the reference), at thresholds 100/7/5/3/2/1 and with a host-forced collect() after every step /
every third step; the outcome (status, value, console, error) must be identical and the
stale-handle hook (generation stamps, cfg tsrun_verif) must stay silent.
Programs: the C14 corpus, the C07 await templates (host orders answered by the harness), the C01
library probes, generated programs, and a generated family in which a callback detaches the
element it was handed from its container while allocating (the window in which only a native's
local variable holds the object)."""
import json
import os

import common
from common import log
import c11
import c14
import c07
import probes
import genprog

PID = "C02"
SCHEDULES = [("off", {"gc": 0}), ("hostS", {"gc": 0, "collect_when_suspended": True}), ("t1S", {"gc": 1, "collect_when_suspended": True}), ("t100", {"gc": 100}), ("t7", {"gc": 7}), ("t5", {"gc": 5}), ("t3", {"gc": 3}), ("t2", {"gc": 2}),
             ("t1", {"gc": 1}), ("host1", {"gc": 0, "collect_every": 1}), ("host3", {"gc": 0, "collect_every": 3})]

JUNK = "function junk(n: number) { const j: any[] = []; for (let k = 0; k < n; k++) { j.push({ junk: k, s: 'j' + k }); } return j.length; }\n"
MK = "function mk(i: number) { return { id: i, tag: 't' + i, sub: { v: i * 10 } }; }\nfunction fresh(): any[] { return [mk(1), mk(2), mk(3), mk(4)]; }\n"
SHOW = "function show(v: any): string { try { return JSON.stringify(v); } catch (e) { return 'unserialisable'; } }\n"

# (name, expression over `a` (a fresh array of objects); callbacks detach what they were given and allocate)
DETACH = [
    ("filter", "a.filter((x: any, i: number) => { a[i] = null; junk(6); return true; })"),
    ("map", "a.map((x: any, i: number) => { a[i] = null; junk(6); return x; })"),
    ("flatMap", "a.flatMap((x: any, i: number) => { a[i] = null; junk(6); return [x, x.sub]; })"),
    ("forEach-collect", "(() => { const out: any[] = []; a.forEach((x: any, i: number) => { a[i] = null; junk(6); out.push(x); }); return out; })()"),
    ("find", "a.find((x: any, i: number) => { a[i] = null; junk(6); return x.id === 3; })"),
    ("findLast", "a.findLast((x: any, i: number) => { a[i] = null; junk(6); return x.id === 2; })"),
    ("reduce", "a.reduce((acc: any[], x: any, i: number) => { a[i] = null; junk(6); acc.push(x); return acc; }, [])"),
    ("reduceRight", "a.reduceRight((acc: any[], x: any, i: number) => { a[i] = null; junk(6); acc.push(x); return acc; }, [])"),
    ("sort", "a.sort((x: any, y: any) => { junk(6); return y.id - x.id; })"),
    ("toSorted", "a.toSorted((x: any, y: any) => { a.length = 0; junk(6); return y.id - x.id; })"),
    ("sort-detach", "(() => { const b = a.slice(); return b.sort((x: any, y: any) => { b.length = 0; junk(6); return y.id - x.id; }); })()"),
    ("some-capture", "(() => { let got: any; a.some((x: any, i: number) => { a[i] = null; junk(6); got = x; return x.id === 2; }); return got; })()"),
    ("every-capture", "(() => { const got: any[] = []; a.every((x: any, i: number) => { a.length = i; junk(6); got.push(x); return true; }); return got; })()"),
    ("from-map", "Array.from(a, (x: any, i: number) => { a[i] = null; junk(6); return x; })"),
    ("from-iter", "Array.from({ *[Symbol.iterator]() { for (let i = 0; i < 3; i++) { junk(6); yield mk(i); } } })"),
    ("spread-gen", "[...(function* () { for (let i = 0; i < 3; i++) { junk(6); yield mk(i); } })()]"),
    ("concat-getter", "[].concat(a, { get length() { junk(6); return 1; }, 0: mk(9), [Symbol.isConcatSpreadable]: true } as any)"),
    ("splice-return", "(() => { const r = a.splice(0, 3); junk(8); return r; })()"),
    ("shift-pop", "(() => { const x = a.shift(); const y = a.pop(); junk(8); return [x, y]; })()"),
    ("slice-after-clear", "(() => { const r = a.slice(1, 3); a.length = 0; junk(8); return r; })()"),
    ("map-values", "(() => { const m = new Map(a.map((x: any) => [x.tag, x])); a.length = 0; const it = m.values(); m.clear(); junk(8); return [...it]; })()"),
    ("map-foreach", "(() => { const m = new Map(a.map((x: any) => [x.tag, x])); a.length = 0; const out: any[] = []; m.forEach((v: any, k: string) => { m.delete(k); junk(6); out.push(v); }); return out; })()"),
    ("set-foreach", "(() => { const s = new Set(a); a.length = 0; const out: any[] = []; s.forEach((v: any) => { s.delete(v); junk(6); out.push(v); }); return out; })()"),
    ("set-iter", "(() => { const s = new Set(a); a.length = 0; const it = s.values(); s.clear(); junk(8); return [...it]; })()"),
    ("object-entries", "(() => { const o: any = { p: mk(1), q: mk(2) }; const e = Object.entries(o); delete o.p; delete o.q; junk(8); return e; })()"),
    ("object-values-getter", "Object.values({ get p() { junk(6); return mk(1); }, get q() { junk(6); return mk(2); } })"),
    ("object-assign-getter", "Object.assign({}, { get p() { junk(6); return mk(1); } }, { get q() { junk(6); return mk(2); } })"),
    ("spread-getter", "({ ...{ get p() { junk(6); return mk(1); } }, ...{ get q() { junk(6); return mk(2); } } })"),
    ("json-reviver", "JSON.parse('[{\"a\":1},{\"b\":[2,{\"c\":3}]}]', (k: string, v: any) => { junk(4); return v; })"),
    ("json-tojson", "JSON.stringify({ x: { toJSON() { junk(6); return mk(1); } }, y: [{ toJSON() { junk(6); return mk(2); } }] })"),
    ("json-replacer", "JSON.stringify(a, (k: string, v: any) => { junk(4); return (typeof v === 'number') ? { n: v } .n : v; })"),
    ("string-replace-fn", "'a-b-c'.replace(/[a-c]/g, (m: string) => { junk(6); return mk(m.charCodeAt(0)).tag; })"),
    ("string-split-join", "(() => { const parts = 'x,y,z'.split(',').map((p: string) => ({ p })); junk(8); return parts; })()"),
    ("tostring-coercion", "String([{ toString() { junk(6); return mk(1).tag; } }, { toString() { junk(6); return mk(2).tag; } }])"),
    ("valueof-arith", "(({ valueOf() { junk(6); return mk(3).id; } } as any) + ({ valueOf() { junk(6); return mk(4).id; } } as any))"),
    ("template-tostring", "`${{ toString() { junk(6); return mk(1).tag; } }}-${{ toString() { junk(6); return mk(2).tag; } }}`"),
    ("proxy-get", "(() => { const p: any = new Proxy({}, { get(t: any, k: any) { junk(6); return mk(String(k).length); } }); return [p.a, p.bb, p.ccc]; })()"),
    ("proxy-ownkeys", "Object.keys(new Proxy({ a: 1, b: 2 }, { ownKeys(t: any) { junk(6); return Reflect.ownKeys(t); }, getOwnPropertyDescriptor(t: any, k: any) { junk(3); return Reflect.getOwnPropertyDescriptor(t, k); } }))"),
    ("reflect-construct", "Reflect.construct(function (this: any, x: any) { junk(6); this.x = x; } as any, [mk(5)])"),
    ("bind-args", "(function (this: any, ...xs: any[]) { junk(6); return [this, ...xs]; }).bind(mk(1), mk(2))(mk(3))"),
    ("apply-arraylike", "(function (...xs: any[]) { junk(6); return xs; }).apply(null, { length: 2, get 0() { junk(6); return mk(1); }, get 1() { junk(6); return mk(2); } } as any)"),
    ("class-fields", "(() => { class K { a = mk(1); b = (junk(6), mk(2)); constructor(public c = mk(3)) { junk(6); } } return new K(); })()"),
    ("getter-chain", "(() => { const o = { get x() { junk(6); return { get y() { junk(6); return mk(7); } }; } }; return o.x.y; })()"),
    ("destructure-defaults", "(() => { const { p = (junk(6), mk(1)), q = (junk(6), mk(2)) } = {} as any; const [r = mk(3), s = (junk(6), mk(4))] = [] as any[]; return [p, q, r, s]; })()"),
    ("args-evaluation", "(function (x: any, y: any, z: any) { return [x, y, z]; })(mk(1), (junk(8), mk(2)), (junk(8), mk(3)))"),
    ("array-literal-holes", "[mk(1), (junk(8), mk(2)), ...[mk(3), (junk(8), mk(4))], (junk(8), mk(5))]"),
    ("object-literal-computed", "({ [(junk(6), 'k1')]: mk(1), [(junk(6), 'k2')]: (junk(6), mk(2)) })"),
    ("closure-captured", "(() => { const fs: any[] = []; for (let i = 0; i < 3; i++) { const o = mk(i); fs.push(() => o); } junk(10); return fs.map((f) => f()); })()"),
    ("promise-all-objects", "await Promise.all([1, 2, 3].map(async (i) => { await null; junk(6); return mk(i); }))"),
    ("promise-then-chain", "await Promise.resolve(mk(1)).then((v) => { junk(6); return [v, mk(2)]; }).then((v) => { junk(6); return [...v, mk(3)]; })"),
    ("async-iter", "await (async () => { const out: any[] = []; for await (const v of (async function* () { for (let i = 0; i < 3; i++) { await null; junk(6); yield mk(i); } })()) { out.push(v); } return out; })()"),
    ("generator-held", "(() => { function* g() { const o = mk(1); yield 1; junk(8); yield o; } const it = g(); it.next(); junk(8); return it.next().value; })()"),
    ("generator-sent", "(() => { function* g(): any { const got: any = yield 1; junk(8); yield got; } const it = g(); it.next(); return it.next(mk(2)).value; })()"),
    ("error-cause-stack", "(() => { try { throw Object.assign(new Error('e'), { data: mk(1) }); } catch (e) { junk(8); return (e as any).data; } })()"),
    ("finally-return-value", "(() => { function f() { try { return mk(1); } finally { junk(10); } } return f(); })()"),
    ("regexp-exec-groups", "(() => { const m = /(?<a>x)(y)/.exec('xy'); junk(8); return [m![0], m![1], m!.groups]; })()"),
    ("symbol-keyed", "(() => { const s = Symbol('k'); const o: any = { [s]: mk(1) }; junk(8); return o[s]; })()"),
    ("weak-structured-clone", "(() => { const c = structuredClone({ a: [mk(1), mk(2)] }); junk(8); return c; })()"),
    ("array-of-from-length", "Array.from({ length: 3 }, (_: any, i: number) => { junk(4); return mk(i); })"),
    ("fill-copywithin", "(() => { const b = new Array(4).fill(null).map((_: any, i: number) => mk(i)); b.copyWithin(0, 2); junk(8); return b; })()"),
    ("at-with-flat", "[[mk(1)], [[mk(2)]], (junk(8), [mk(3)])].flat(2)"),
    ("groupby-like", "a.reduce((acc: any, x: any) => { junk(4); (acc[x.id % 2] ||= []).push(x); return acc; }, {})"),
    ("entries-iter", "(() => { const it = a.entries(); a.length = 2; junk(8); return [...it]; })()"),
    ("keys-values-live", "(() => { const it = a.values(); const first = it.next().value; a.length = 0; junk(8); return [first, it.next().done]; })()"),
]


# objects that only a register of a *calling* frame holds while a callee is suspended (S = the suspending call)
HELD_PRELUDE = (c07.H + MK + SHOW +
                "function pair(a: any, b: any) { return [a, b]; }\n"
                "function sus(k: number): any { return order(k); }\n"
                "function sus2(k: number): any { const o = mk(k + 50); return [o.id, sus(k)][1]; }\n"
                "async function asus(k: number) { return await order(k); }\n"
                "class K { constructor(public a: any, public b: any) {} }\n"
                "function tg(s: any, ...xs: any[]) { return xs; }\n")
HELD = [
    ("call-arg", "pair(mk(1), S)"),
    ("call-arg-late", "pair(S, mk(1))"),
    ("array-literal", "[mk(1), S, mk(2)]"),
    ("object-literal", "({ a: mk(1), b: S, c: mk(2) })"),
    ("binary-operand", "mk(1).sub.v + S"),
    ("template", "`${mk(1).tag}-${S}-${mk(2).tag}`"),
    ("new-args", "new K(mk(1), S)"),
    ("conditional", "mk(1).id ? [mk(2), S] : 0"),
    ("nested-calls", "pair(mk(1), pair(mk(2), pair(mk(3), S)))"),
    ("spread-then", "[...[mk(1), mk(2)], S]"),
    ("tagged", "tg`a${mk(1)}b${S}c${mk(2)}`"),
    ("method-receiver", "({ v: mk(5), m(x: any) { return [this.v, x]; } }).m(S)"),
    ("string-concat", "mk(1).tag.concat(String(S))"),
    ("two-suspensions", "pair(mk(1), pair(S, S))"),
    ("in-callee-frame", "(function (o: any) { return pair(o, pair(mk(3), S)); })(mk(1))"),
    ("closure-and-arg", "((o: any) => () => pair(o, S))(mk(1))()"),
    ("default-param", "(function (a: any = mk(1), b: any = S) { return [a, b]; })()"),
    ("destructuring-arg", "(function ({ p, q }: any) { return [p, q]; })({ p: mk(1), q: S })"),
    ("logical", "mk(1) && S"),
    ("comma-held", "pair((mk(1), mk(2)), S)"),
    ("computed-key", "({ [mk(1).tag]: S, k: mk(2) })"),
    ("array-method-arg", "[mk(1)].concat(mk(2), S as any)"),
    ("optional-call", "pair?.(mk(1), S)"),
    ("json-stringify-arg", "JSON.stringify([mk(1), S])"),
]
SUSPENDERS = [("order-in-callee", "sus(%d)"), ("order-two-frames-down", "sus2(%d)"), ("await-async-callee", "(await asus(%d))")]


def detach_program(name, expr, variant):
    """variant: how the elements come to exist (a returned helper frame, JSON.parse, structured literal)"""
    if variant == 0:
        make = "const a: any[] = fresh();"
    elif variant == 1:
        make = "const a: any[] = JSON.parse('[{\"id\":1,\"tag\":\"t1\",\"sub\":{\"v\":10}},{\"id\":2,\"tag\":\"t2\",\"sub\":{\"v\":20}},{\"id\":3,\"tag\":\"t3\",\"sub\":{\"v\":30}},{\"id\":4,\"tag\":\"t4\",\"sub\":{\"v\":40}}]');"
    else:
        make = "const a: any[] = [1, 2, 3, 4].map((i) => mk(i));"
    return JUNK + MK + SHOW + make + "\nconst r: any = " + expr + ";\njunk(5);\nshow(r)"


def view(r):
    return {"status": r.get("status"), "value": r.get("value"), "json": r.get("json"), "class": r.get("class"),
            "message": r.get("message"), "log": r.get("log")}


def run(chk):
    chk.assumptions = [
        "the proof is about the collector; that every native keeps what it still needs reachable from a guard is checked by execution only",
        "automatic collection disabled (threshold 0) is the reference schedule",
        "the stale-handle detector reports a handle whose slot generation changed since the handle was made (cfg tsrun_verif)",
    ]
    chk.prove(["theories/Gc/InvisibleProperties.vo"], ["theories/Gc/InvisibleProperties.v"])
    ok, out, chk.th = common.build_harness("debug")
    if not ok:
        chk.proof_breaks.append("harness does not build against /repo: " + out[-800:])
        return chk.finish()
    rng = common.Rng(chk.seed, PID)

    if chk.replay:
        r = json.load(open(chk.replay))
        reqs = [dict(sc, runs=[dict(r["run"], **{k: sc[k] for k in ("collect_every", "collect_when_suspended") if k in sc})])
                for _, sc in SCHEDULES]
        reqs = [{"gc": q["gc"], "runs": q["runs"]} for q in reqs]
        res, err = c11.run_seq(chk, reqs, "replay02")
        ref = view(res[0]["runs"][0])
        for (sn, _), o in zip(SCHEDULES, res):
            v = view(o["runs"][0]) if "runs" in o else {"status": "harness:" + str(o.get("error"))}
            st = o["runs"][0].get("stale") if "runs" in o else None
            log("replay %-6s %r stale=%r" % (sn, v.get("json") if v.get("status") == "complete" else v, st))
            if v != ref or st:
                chk.violation(dict(r, schedule=sn, observed={"this_schedule": v, "collection_disabled": ref, "stale_handles": st}))
        return chk.finish()

    programs = []
    for name, src in c14.CORPUS.items():
        programs.append(("corpus:" + name, {"src": src, "path": "/c02_%s.ts" % name}))
    for name, src in c07.T.items():
        programs.append(("await:" + name, {"src": c07.H + src, "path": "/c02_t.ts"}))
    for name, src in c07.GEN_T.items():
        programs.append(("generator:" + name, {"src": src, "path": None}))
    lib = probes.library_probes()
    step = 1 if chk.tier != "quick" else 2
    for k, (pid, e) in enumerate(lib):
        if k % step == 0:
            programs.append(("probe:" + pid, {"src": JUNK + "const r: any = " + e + ";\njunk(5);\n(() => { try { return JSON.stringify(r); } catch (e) { return String(r); } })()", "path": None}))
    for name, expr in DETACH:
        for variant in range(3):
            programs.append(("detach:%s:%d" % (name, variant), {"src": detach_program(name, expr, variant), "path": "/c02_d.ts"}))
    for name, expr in HELD:
        for sname, call in SUSPENDERS:
            e, k = expr, 0
            while _has_placeholder(e):
                k += 1
                e = _fill(e, call % (k * 7))
            programs.append(("held:%s:%s" % (name, sname), {"src": HELD_PRELUDE + "const r: any = " + e + ";\nshow(r)", "path": "/c02_h.ts"}))
    n_gen = 40 if chk.tier == "quick" else 2000
    for i in range(n_gen):
        g = genprog.Gen(rng, features={}, ts=True)
        programs.append(("generated:%d" % i, {"src": g.program(5, 3), "path": "/c02_g%d.ts" % i}))
    scheds = SCHEDULES if chk.tier != "quick" else [s for s in SCHEDULES if s[0] in ("off", "hostS", "t1S", "t100", "t5", "t2", "t1", "host1")]
    reqs = []
    for _, run in programs:
        for sn, sc in scheds:
            r = dict(run)
            if "collect_every" in sc:
                r["collect_every"] = sc["collect_every"]
            if sc.get("collect_when_suspended"):
                r["collect_when_suspended"] = True
            reqs.append({"gc": sc["gc"], "runs": [r]})
    res, err = c11.run_seq(chk, reqs, "s02", chunk=60)
    stats = {"programs": len(programs), "runs": len(reqs), "schedules": [s for s, _ in scheds], "disagreements": 0, "stale_reports": 0,
             "families": {}, "reference_status": {}}
    known_hit = {}
    n = len(scheds)
    for k, (name, run) in enumerate(programs):
        fam = name.split(":")[0]
        stats["families"][fam] = stats["families"].get(fam, 0) + 1
        outs = res[k * n:(k + 1) * n]
        if "runs" not in outs[0]:
            chk.violation({"program_name": name, "run": run, "what": "harness under the reference schedule: " + str(outs[0].get("error"))})
            continue
        ref = view(outs[0]["runs"][0])
        stats["reference_status"][ref["status"]] = stats["reference_status"].get(ref["status"], 0) + 1
        for (sn, _), o in zip(scheds, outs):
            if "runs" not in o:
                v, st = {"status": "harness:" + str(o.get("error"))}, None
            else:
                v, st = view(o["runs"][0]), o["runs"][0].get("stale")
            if v != ref or st:
                stats["disagreements"] += 1
                stats.setdefault("deviating", []).append("%s@%s" % (name, sn))
                if st:
                    stats["stale_reports"] += 1
                cls = known_class(name)
                if cls:
                    known_hit.setdefault(cls, []).append((name, sn))
                    break
                if len(chk.violations) < 8:
                    chk.violation({"program_name": name, "run": run, "schedule": sn,
                                   "observed": {"this_schedule": v, "collection_disabled": ref, "stale_handles": (st or [])[:5]},
                                   "what": "the outcome depends on when the collector runs (or a handle outlived its object)"})
                break
    for e in chk.known:
        if e["class"] in known_hit:
            chk.known_finding(e)
        else:
            chk.stale_known.append("%s no longer reproduces" % e["class"])
    chk.samples.append({"program": programs[len(c14.CORPUS) + len(c07.T) + 40][1]["src"][-300:], "schedules": [s for s, _ in scheds]})
    chk.coverage.update({
        "evaluations": len(reqs), "distinct_nontrivial": len(programs),
        "rule": "%d programs (C14 corpus, C07 await templates with host orders, generator templates, %s C01 library probes, %d detach-in-callback "
                "programs = %d shapes x 3 element origins, %d generated programs) x %d collection schedules (%s); outcome tuple identical to the "
                "collection-disabled run and no stale-handle report"
                % (len(programs), "all" if step == 1 else "every second of the", len(DETACH) * 3, len(DETACH), n_gen, n, ", ".join(s for s, _ in scheds)),
        "exhaustive": False, "stats": stats, "known_classes_hit": {k: v[:6] for k, v in known_hit.items()},
    })
    return chk.finish()


import re as _re


def _has_placeholder(e):
    return _re.search(r"(?<![A-Za-z0-9_$.'])S(?![A-Za-z0-9_$'(])", e) is not None


def _fill(e, call):
    return _re.sub(r"(?<![A-Za-z0-9_$.'])S(?![A-Za-z0-9_$'(])", lambda m: call, e, count=1)


KNOWN_PROGRAMS = {}


def known_class(name):
    for cls, names in KNOWN_PROGRAMS.items():
        if name in names or name.rsplit(":", 1)[0] in names:
            return cls
    return None
