"""C06, stream X: every argument position of the size/index/count taking
natives, the Date constructors and setters, the numeric formatters and the
operators, filled with the values at the edge of each conversion (infinities,
NaN, 2**31, 2**32, 2**53, 1e21, fractions, wrong types). The values are
compared elsewhere (C01 sweeps); here the only demand is that the host
survives: a Rust arithmetic-overflow or capacity panic is a script aborting the
embedding process. Allocation bombs are not in this stream (class E3)."""
X = ["Infinity","-Infinity","NaN","2**53","-(2**53)","2**31","2**32","-1","1e21","0.5","-0.5","undefined","null","'x'","{}","[]"]
T = {
 "arr.indexOf":"[1,2,3].indexOf(2, A)", "arr.lastIndexOf":"[1,2,3].lastIndexOf(2, A)", "arr.includes":"[1,2,3].includes(2, A)",
 "arr.at":"[1,2,3].at(A)", "arr.with":"(() => { try { return [1,2,3].with(A, 9).join(); } catch (e) { return e.name; } })()",
 "arr.splice":"[1,2,3].splice(A, B).length", "arr.toSpliced":"(() => { try { return [1,2,3].toSpliced(A, B).length; } catch (e) { return e.name; } })()",
 "arr.slice":"[1,2,3].slice(A, B).length", "arr.flat":"[1,[2,[3]]].flat(A).length", "arr.join":"[1,2].join(A)", "arr.fill":"[1,2,3].fill(0, A, B).length",
 "arr.copyWithin":"[1,2,3].copyWithin(A, B).length", "arr.from":"(() => { try { return Array.from({length: A}).length; } catch (e) { return e.name; } })()",
 "arr.lengthSet":"(() => { try { const x=[1,2,3]; x.length = A; return x.length; } catch (e) { return e.name; } })()",
 "str.at":"'abc'.at(A)", "str.charAt":"'abc'.charAt(A)", "str.charCodeAt":"'abc'.charCodeAt(A)", "str.codePointAt":"'abc'.codePointAt(A)",
 "str.indexOf":"'abcabc'.indexOf('b', A)", "str.lastIndexOf":"'abcabc'.lastIndexOf('b', A)", "str.includes":"'abc'.includes('b', A)",
 "str.startsWith":"'abc'.startsWith('b', A)", "str.endsWith":"'abc'.endsWith('b', A)", "str.slice":"'abc'.slice(A, B)", "str.substring":"'abc'.substring(A, B)",
 "str.substr":"'abc'.substr(A, B)", "str.split":"'a,b'.split(',', A).length", "str.fromCharCode":"String.fromCharCode(A).length",
 "str.fromCodePoint":"(() => { try { return String.fromCodePoint(A).length; } catch (e) { return e.name; } })()",
 "str.normalize":"(() => { try { return 'a'.normalize(A); } catch (e) { return e.name; } })()", "str.localeCompare":"'a'.localeCompare(A)",
 "str.padStartSmall":"'a'.padStart(3, A)", "str.concat":"'a'.concat(A)", "str.replaceAll":"(() => { try { return 'aaa'.replaceAll(A, B); } catch (e) { return e.name; } })()",
 "num.toFixed":"(() => { try { return (1.5).toFixed(A); } catch (e) { return e.name; } })()",
 "num.toPrecision":"(() => { try { return (1.5).toPrecision(A); } catch (e) { return e.name; } })()",
 "num.toExponential":"(() => { try { return (1.5).toExponential(A); } catch (e) { return e.name; } })()",
 "num.toString":"(() => { try { return (255).toString(A); } catch (e) { return e.name; } })()",
 "num.parseInt":"parseInt('123', A)", "math.pow":"Math.pow(A, B)", "math.round":"Math.round(A)", "math.max":"Math.max(A, B)", "math.atan2":"Math.atan2(A, B)",
 "math.sign":"Math.sign(A)+Math.trunc(A)+Math.floor(A)", "date.ctor":"new Date(A).getTime()", "date.utc":"Date.UTC(A, B)", "date.setters":"(() => { const d = new Date(0); d.setMonth(A); d.setDate(B); return d.getTime(); })()",
 "date.ymd":"new Date(A, B).getTime() >= 0", "json.indent":"JSON.stringify({a:[1]}, null, A).length", "obj.defineLength":"(() => { try { const x=[1]; Object.defineProperty(x, 'length', {value: A}); return x.length; } catch (e) { return e.name; } })()",
 "regexp.ctor":"(() => { try { return new RegExp(A).source; } catch (e) { return e.name; } })()", "regexp.lastIndex":"(() => { const r=/a/g; r.lastIndex = A; return r.test('aaa'); })()",
 "symbol.desc":"(() => { try { return Symbol(A).description; } catch (e) { return e.name; } })()", "map.key":"(() => { const m = new Map(); m.set(A, 1); return m.get(A) + m.size; })()",
 "set.key":"new Set([A, A, B]).size", "arr.sortCmp":"[3,1,2].sort(() => A).length", "arr.ctor2":"(() => { try { return new Array(A, B).length; } catch (e) { return e.name; } })()",
 "bitops":"(A | 0) + (A >>> 0) + (A << B) + (~A)", "exp":"(A ** B) + (A % B)", "compare":"String(A < B) + (A == B) + (A === B)",
 "template":"`${A}${B}`.length", "spread.str":"(() => { try { return [...A].length; } catch (e) { return e.name; } })()", "in.op":"(() => { try { return 'x' in A; } catch (e) { return e.name; } })()",
 "instanceof":"(() => { try { return ({}) instanceof A; } catch (e) { return e.name; } })()", "new.it":"(() => { try { return typeof new A(); } catch (e) { return e.name; } })()",
 "call.it":"(() => { try { return typeof A(); } catch (e) { return e.name; } })()", "member.it":"(() => { try { return typeof A.x; } catch (e) { return e.name; } })()",
 "destructure":"(() => { try { const [p] = A; return typeof p; } catch (e) { return e.name; } })()", "for.of":"(() => { try { let n = 0; for (const q of A) n++; return n; } catch (e) { return e.name; } })()",
 "obj.keys":"(() => { try { return Object.keys(A).length; } catch (e) { return e.name; } })()", "obj.assign":"(() => { try { return Object.keys(Object.assign({}, A, B)).length; } catch (e) { return e.name; } })()",
 "obj.create":"(() => { try { return typeof Object.create(A); } catch (e) { return e.name; } })()", "reflect.get":"(() => { try { return typeof Reflect.get(A, 'x'); } catch (e) { return e.name; } })()",
 "struct.clone":"(() => { try { return typeof structuredClone(A); } catch (e) { return e.name; } })()",
}

# text outside ASCII and the BMP, lone surrogates, combining marks, case-mapping oddities: every string method, every cut position
US = ["'a\\u{1D4B3}b'","'\\u{1D4B3}'","'\\uD835'","'\\uDCB3\\uD835'","'é\\u0301ß'","'\\u{1F600}\\u{1F601}'","'a\\u0000b'","'\\uFEFF x \\u2028'","'İıſ'","'ǆ'"]
UT = ["s.slice(i, j)","s.substring(i, j)","s.substr(i, j)","s.charAt(i)","s.charCodeAt(i)","s.codePointAt(i)","s.at(i)","s[i]","s.indexOf(s.charAt(i), j)","s.lastIndexOf(s.charAt(i), j)",
 "s.padStart(j + 4, s).length","s.padEnd(j + 4, s.charAt(i))","s.split('').length","s.split(s.charAt(i)).length","[...s].length","s.toUpperCase()","s.toLowerCase()","s.normalize('NFD').length","s.normalize('NFKC').length",
 "s.repeat(j < 0 ? 0 : j).length","s.replace(s.charAt(i), '$&$`$\\'')","s.replaceAll(s.charAt(i) || 'q', '$$')","s.trim().length","s.startsWith(s.charAt(i), j)","s.endsWith(s.charAt(i), j)","s.includes(s.charAt(i), j)",
 "s.localeCompare(s.charAt(i))","s.match(/./gu) && s.match(/./gu).length","s.match(/./g).length","s.search(/b/)","s.replace(/(.)/g, '$1$1').length","s.split(/(?:)/u).length","s.split(/(?:)/).length","/^.$/u.test(s)","/^.$/.test(s)",
 "encodeURIComponent(s.slice(i, j))","JSON.stringify(s.slice(i, j))","JSON.parse(JSON.stringify(s)) === s","escape ? 1 : 0","s.concat(s).length","s.isWellFormed ? s.isWellFormed() : 0","s.toWellFormed ? s.toWellFormed().length : 0","String.fromCodePoint(s.codePointAt(i) || 0) === s.charAt(i)","s.length","Array.from(s).length","Object.keys(s).length","s.at(-1 - i)","s < s.charAt(i)","s + s.slice(i)","`${s}`.length","({[s]: 1})[s]","new Map([[s, 1]]).get(s)","s.charAt(i).codePointAt(0)", "s.slice(i).split('').reverse().join('')"]

# regular expressions: valid, invalid and pathological patterns x flag strings x every method that takes a RegExp
RX_PAT = ["a","(a)(b)?","(?<n>a)\\\\k<n>","(?<=a)b","(?<!a)b","(?=a)a","(a)\\\\1","\\\\1(a)","[","(","a{2,1}","a{99999999}","(a*)*b","(a+)+$","\\\\p{L}+","\\\\u{1D4B3}","[\\\\u{1F600}-\\\\u{1F64F}]","^$","(?:)","\\\\b","\\\\B","[^]","[]","a|","|","(?<n>a)(?<n>b)","\\\\c","\\\\x","\\\\u","\\\\k<x>","(?i)a","a**","[b-a]","\\\\d{1,3}(?=(\\\\d{3})+$)",".",".*?","\\\\s+","[\\\\s\\\\S]","$^","(((((((((((a)))))))))))\\\\11","\\\\0","\\\\8","(?<a>.)(?<b>.)","\\\\ud835","\\\\/","a{,3}","x*"]
RX_FLAGS = ["","g","gi","gu","gy","m","s","d","gd","y","u","v","gg","z","gimsuyd"]
RX_SUBJ = ["'aab aab'","'a\\u{1D4B3}b'","''","'aaaaaaaaaaaaaaaaaaaaaaaaaaaaaaaaaaac'","'\\n a\\r\\nb'","'12345678'","'ABab'"]
RX_METH = {"exec":"(() => { const m = r.exec(s); return m && [m.index, m.length, m[0], m.groups && Object.keys(m.groups).join(), r.lastIndex]; })()",
 "exec2":"(() => { r.exec(s); const m = r.exec(s); return m && [m.index, m[0], r.lastIndex]; })()",
 "test":"[r.test(s), r.lastIndex, r.test(s), r.lastIndex]","match":"s.match(r)","matchAll":"[...s.matchAll(r)].map(m => [m.index, m[0]])",
 "replace":"s.replace(r, '[$&|$1|$<n>|$`]')","replaceFn":"s.replace(r, (...a) => '<' + a.length + '>')","replaceAll":"s.replaceAll(r, '-')","split":"s.split(r)","split2":"s.split(r, 2)","search":"s.search(r)",
 "props":"[r.source, r.flags, r.global, r.sticky, r.unicode, r.hasIndices, String(r)]","lastIndex":"(() => { r.lastIndex = 3; const m = r.exec(s); return [m && m.index, r.lastIndex]; })()",
 "lastIndexBig":"(() => { r.lastIndex = 2**40; const m = r.exec(s); return [m && m.index, r.lastIndex]; })()","lastIndexNeg":"(() => { r.lastIndex = -5; const m = r.exec(s); return [m && m.index, r.lastIndex]; })()",
 "lastIndexMid":"(() => { r.lastIndex = 2; const m = r.exec('a\\u{1D4B3}\\u{1D4B3}b'); return [m && m.index, r.lastIndex]; })()"}


def programs(tier="quick"):
    progs = []
    for name, t in T.items():
        if name == "arr.lengthSet":
            continue  # E3: x.length = 2**31 allocates; listed among the DEATH probes instead
        two = "B" in t
        body = ("(() => { const X = [%s]; const out = []; for (const A of X) { %s { let r; try { r = %s; } catch (e) "
                "{ r = 'thrown:' + (e && e.name); } out.push(String(r)); } } return out.join(';'); })()") % (
                    ",".join(X), "for (const B of X)" if two else "", t)
        progs.append((name, body))
    DX = X + ["-(2**31)", "50", "2000.9"]
    for s in ("setFullYear", "setMonth", "setDate", "setHours", "setMinutes", "setSeconds", "setMilliseconds", "setTime"):
        progs.append(("date." + s, "(() => { const X=[%s]; const out=[]; for (const A of X) for (const B of X) { const d = new Date(0); "
                      "let r; try { r = d.%s(A, B); } catch (e) { r = e.name; } out.push(String(r)); } return out.join(';'); })()" % (",".join(DX), s)))
    for g in ("getTime", "getFullYear", "getMonth", "getDate", "getDay", "getHours", "toISOString", "toJSON", "toDateString", "toString"):
        progs.append(("date." + g, "(() => { const X=[%s]; const out=[]; for (const A of X) { let r; try { r = new Date(A).%s(); } catch (e) "
                      "{ r = e.name; } out.push(String(r)); try { r = new Date(A, 0, 1, A, A, A, A).%s(); } catch (e) { r = e.name; } "
                      "out.push(String(r)); try { r = new Date(2000, A, A).%s(); } catch (e) { r = e.name; } out.push(String(r)); } "
                      "return out.join(';'); })()" % (",".join(DX), g, g, g)))
    progs.append(("date.utc7", "(() => { const X=[%s]; const out=[]; for (const A of X) for (const i of [0,1,2,3,4,5,6]) { "
                  "const a=[2000,0,1,0,0,0,0]; a[i]=A; out.push(String(Date.UTC(...a))); } return out.join(';'); })()" % ",".join(DX)))
    for k, t in enumerate(UT):
        progs.append(("text.%02d" % k, "(() => { const S = [%s]; const out = []; for (const s of S) for (const i of [0,1,2,3,-1]) "
                      "for (const j of [0,1,2,3,5,-1]) { let r; try { r = %s; } catch (e) { r = 'thrown:' + (e && e.name); } "
                      "out.push(JSON.stringify(r)); } return out.join(';'); })()" % (",".join(US), t)))
    flags = RX_FLAGS[:6] if tier == "quick" else RX_FLAGS
    for mn, mt in RX_METH.items():
        progs.append(("regexp." + mn, "(() => { const P = [%s]; const F = [%s]; const S = [%s]; const out = []; for (const p of P) for (const f of F) "
                      "{ for (const s of S) { let v; try { const r = new RegExp(p, f); v = %s; } catch (e) { v = 'thrown:' + (e && e.name); } "
                      "out.push(JSON.stringify(v)); } } return out.join(';'); })()" % (
                          ",".join('"%s"' % p for p in RX_PAT), ",".join('"%s"' % f for f in flags), ",".join(RX_SUBJ), mt)))
    return progs
