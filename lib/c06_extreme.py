"""C06, stream X: every argument position of the size/index/count taking
natives, the Date constructors and setters, the numeric formatters and the
operators, filled with the values at the edge of each conversion (infinities,
NaN, 2**31, 2**32, 2**53, 1e21, fractions, wrong types). The values are
compared elsewhere (C01 sweeps); here the only demand is that the host
survives: a Rust arithmetic-overflow or capacity panic is a script aborting the
embedding process. Allocation bombs are not in this stream (class E3)."""
X = ["Infinity","-Infinity","NaN","2**53","-(2**53)","2**31","2**32","-1","1e21","0.5","-0.5","undefined","null","'x'","{}","[]"]
T = {
 "arr.indexOf":"[1,2,3].indexOf(2, A)", "arr.lastIndexOf":"[1,2,3].lastIndexOf(2, A)", "arr.includes":"[1,2,3].includes(2, A)",
 "arr.at":"[1,2,3].at(A)", "arr.with":"(() => { try { return [1,2,3].with(A, 9).join(); } catch (e) { return e.name; } })()",
 "arr.splice":"[1,2,3].splice(A, B).length", "arr.toSpliced":"(() => { try { return [1,2,3].toSpliced(A, B).length; } catch (e) { return e.name; } })()",
 "arr.slice":"[1,2,3].slice(A, B).length", "arr.flat":"[1,[2,[3]]].flat(A).length", "arr.join":"[1,2].join(A)", "arr.fill":"[1,2,3].fill(0, A, B).length",
 "arr.copyWithin":"[1,2,3].copyWithin(A, B).length", "arr.from":"(() => { try { return Array.from({length: A}).length; } catch (e) { return e.name; } })()",
 "arr.lengthSet":"(() => { try { const x=[1,2,3]; x.length = A; return x.length; } catch (e) { return e.name; } })()",
 "str.at":"'abc'.at(A)", "str.charAt":"'abc'.charAt(A)", "str.charCodeAt":"'abc'.charCodeAt(A)", "str.codePointAt":"'abc'.codePointAt(A)",
 "str.indexOf":"'abcabc'.indexOf('b', A)", "str.lastIndexOf":"'abcabc'.lastIndexOf('b', A)", "str.includes":"'abc'.includes('b', A)",
 "str.startsWith":"'abc'.startsWith('b', A)", "str.endsWith":"'abc'.endsWith('b', A)", "str.slice":"'abc'.slice(A, B)", "str.substring":"'abc'.substring(A, B)",
 "str.substr":"'abc'.substr(A, B)", "str.split":"'a,b'.split(',', A).length", "str.fromCharCode":"String.fromCharCode(A).length",
 "str.fromCodePoint":"(() => { try { return String.fromCodePoint(A).length; } catch (e) { return e.name; } })()",
 "str.normalize":"(() => { try { return 'a'.normalize(A); } catch (e) { return e.name; } })()", "str.localeCompare":"'a'.localeCompare(A)",
 "str.padStartSmall":"'a'.padStart(3, A)", "str.concat":"'a'.concat(A)", "str.replaceAll":"(() => { try { return 'aaa'.replaceAll(A, B); } catch (e) { return e.name; } })()",
 "num.toFixed":"(() => { try { return (1.5).toFixed(A); } catch (e) { return e.name; } })()",
 "num.toPrecision":"(() => { try { return (1.5).toPrecision(A); } catch (e) { return e.name; } })()",
 "num.toExponential":"(() => { try { return (1.5).toExponential(A); } catch (e) { return e.name; } })()",
 "num.toString":"(() => { try { return (255).toString(A); } catch (e) { return e.name; } })()",
 "num.parseInt":"parseInt('123', A)", "math.pow":"Math.pow(A, B)", "math.round":"Math.round(A)", "math.max":"Math.max(A, B)", "math.atan2":"Math.atan2(A, B)",
 "math.sign":"Math.sign(A)+Math.trunc(A)+Math.floor(A)", "date.ctor":"new Date(A).getTime()", "date.utc":"Date.UTC(A, B)", "date.setters":"(() => { const d = new Date(0); d.setMonth(A); d.setDate(B); return d.getTime(); })()",
 "date.ymd":"new Date(A, B).getTime() >= 0", "json.indent":"JSON.stringify({a:[1]}, null, A).length", "obj.defineLength":"(() => { try { const x=[1]; Object.defineProperty(x, 'length', {value: A}); return x.length; } catch (e) { return e.name; } })()",
 "regexp.ctor":"(() => { try { return new RegExp(A).source; } catch (e) { return e.name; } })()", "regexp.lastIndex":"(() => { const r=/a/g; r.lastIndex = A; return r.test('aaa'); })()",
 "symbol.desc":"(() => { try { return Symbol(A).description; } catch (e) { return e.name; } })()", "map.key":"(() => { const m = new Map(); m.set(A, 1); return m.get(A) + m.size; })()",
 "set.key":"new Set([A, A, B]).size", "arr.sortCmp":"[3,1,2].sort(() => A).length", "arr.ctor2":"(() => { try { return new Array(A, B).length; } catch (e) { return e.name; } })()",
 "bitops":"(A | 0) + (A >>> 0) + (A << B) + (~A)", "exp":"(A ** B) + (A % B)", "compare":"String(A < B) + (A == B) + (A === B)",
 "template":"`${A}${B}`.length", "spread.str":"(() => { try { return [...A].length; } catch (e) { return e.name; } })()", "in.op":"(() => { try { return 'x' in A; } catch (e) { return e.name; } })()",
 "instanceof":"(() => { try { return ({}) instanceof A; } catch (e) { return e.name; } })()", "new.it":"(() => { try { return typeof new A(); } catch (e) { return e.name; } })()",
 "call.it":"(() => { try { return typeof A(); } catch (e) { return e.name; } })()", "member.it":"(() => { try { return typeof A.x; } catch (e) { return e.name; } })()",
 "destructure":"(() => { try { const [p] = A; return typeof p; } catch (e) { return e.name; } })()", "for.of":"(() => { try { let n = 0; for (const q of A) n++; return n; } catch (e) { return e.name; } })()",
 "obj.keys":"(() => { try { return Object.keys(A).length; } catch (e) { return e.name; } })()", "obj.assign":"(() => { try { return Object.keys(Object.assign({}, A, B)).length; } catch (e) { return e.name; } })()",
 "obj.create":"(() => { try { return typeof Object.create(A); } catch (e) { return e.name; } })()", "reflect.get":"(() => { try { return typeof Reflect.get(A, 'x'); } catch (e) { return e.name; } })()",
 "struct.clone":"(() => { try { return typeof structuredClone(A); } catch (e) { return e.name; } })()",
}


def programs(extra_date=True):
    progs = []
    for name, t in T.items():
        if name == "arr.lengthSet":
            continue  # E3: x.length = 2**31 allocates; listed among the DEATH probes instead
        two = "B" in t
        body = ("(() => { const X = [%s]; const out = []; for (const A of X) { %s { let r; try { r = %s; } catch (e) "
                "{ r = 'thrown:' + (e && e.name); } out.push(String(r)); } } return out.join(';'); })()") % (
                    ",".join(X), "for (const B of X)" if two else "", t)
        progs.append((name, body))
    DX = X + ["-(2**31)", "50", "2000.9"]
    for s in ("setFullYear", "setMonth", "setDate", "setHours", "setMinutes", "setSeconds", "setMilliseconds", "setTime"):
        progs.append(("date." + s, "(() => { const X=[%s]; const out=[]; for (const A of X) for (const B of X) { const d = new Date(0); "
                      "let r; try { r = d.%s(A, B); } catch (e) { r = e.name; } out.push(String(r)); } return out.join(';'); })()" % (",".join(DX), s)))
    for g in ("getTime", "getFullYear", "getMonth", "getDate", "getDay", "getHours", "toISOString", "toJSON", "toDateString", "toString"):
        progs.append(("date." + g, "(() => { const X=[%s]; const out=[]; for (const A of X) { let r; try { r = new Date(A).%s(); } catch (e) "
                      "{ r = e.name; } out.push(String(r)); try { r = new Date(A, 0, 1, A, A, A, A).%s(); } catch (e) { r = e.name; } "
                      "out.push(String(r)); try { r = new Date(2000, A, A).%s(); } catch (e) { r = e.name; } out.push(String(r)); } "
                      "return out.join(';'); })()" % (",".join(DX), g, g, g)))
    progs.append(("date.utc7", "(() => { const X=[%s]; const out=[]; for (const A of X) for (const i of [0,1,2,3,4,5,6]) { "
                  "const a=[2000,0,1,0,0,0,0]; a[i]=A; out.push(String(Date.UTC(...a))); } return out.join(';'); })()" % ",".join(DX)))
    return progs
