"""C07 — suspending and resuming is transparent to the program.

Proof: coq/theories/Suspend/Properties.v.
  * save/restore: the field lists of BytecodeVM / SavedVmState / TrampolineFrame /
    SavedTrampolineFrame and the copy tables of save_state / from_saved_state are
    regenerated from /repo's source on every run (tools/translate.py, group C07);
    the theorems say that every state-holding field of the running frame and of
    every caller frame comes back unchanged, and are re-checked against the
    regenerated tables (not against pinned ones).
  * schedules: on the ledger model of Interpreter::step (Host.Ledger, tied by the
    C08 trace correspondence) a completing run sees what the synchronous run sees,
    for every honest host schedule.
Tie / search for failing inputs:
  A. await-position templates x {host-suspending order(), synchronous stub, resolved-promise stub}
     x host schedules (fifo/lifo/random order, batch sizes, spurious steps, forced collections);
  B. generated programs (nested blocks with shadowing, try/catch/finally with pending
     completions, loops with break/continue, async callees, methods using this) under the same comparison;
  C. ledger-event programs: the implementation's completion under several schedules
     against Suspend.Schedule.sync_result evaluated inside Coq;
  D. generator templates against node (known finding Y1)."""
import json
import os
import subprocess

import common
from common import log
import c08

PID = "C07"
H = 'import { order } from "tsrun:host";\n'
STUBS = {"sync": "const order = (x: any) => x * 2;\n", "promise": "const order = (x: any) => Promise.resolve(x * 2);\n"}

T = {
    "basic": "const a = await order(1); const b = await order(2); `${a},${b}`",
    "try-catch": "let r = ''; try { const a = await order(1); r += a; throw new Error('x' + a); } catch (e) { r += '|c:' + (e as any).message; } r",
    "try-finally": "let r = ''; async function f() { try { r += await order(1); return 'ret'; } finally { r += '|f'; } } const v = await f(); r + '|' + v",
    "await-in-finally": "let r = ''; async function f() { try { return 'ret'; } finally { r += await order(1); } } const v = await f(); r + '|' + v",
    "await-in-catch": "let r = ''; try { throw new Error('e'); } catch (e) { r += await order(3); } r",
    "loop": "let s = 0; for (let i = 0; i < 3; i++) { s += await order(i); } s",
    "while-break": "let s = 0, i = 0; while (true) { const v = await order(i); s += v; if (++i >= 3) break; } s",
    "labeled-continue": "let r = ''; outer: for (let i = 0; i < 2; i++) { for (let j = 0; j < 2; j++) { const v = await order(i * 2 + j); if (j === 0) continue outer; r += v; } } r",
    "forof-generator": "function* g() { yield 1; yield 2; yield 3; } let s = 0; for (const x of g()) { s += await order(x); } s",
    "forof-array-entries": "let s = ''; for (const [i, x] of [5, 6, 7].entries()) { s += i + ':' + await order(x) + ';'; } s",
    "method-this": "class C { v = 5; async m() { const a = await order(1); return a + this.v; } } await new C().m()",
    "object-method-this": "const o = { v: 7, async m() { await order(1); return this.v; } }; await o.m()",
    "nested-async": "async function inner(x: number) { const v = await order(x); return v + 1; } async function outer() { const a = await inner(1); const b = await inner(2); return a + b; } await outer()",
    "caller-try-callee-throws": "async function inner() { const v = await order(1); throw new Error('bad' + v); } let r; try { await inner(); r = 'no'; } catch (e) { r = 'caught:' + (e as any).message; } r",
    "caller-finally": "let log = ''; async function inner() { return await order(1); } async function outer() { try { return 'r' + await inner(); } finally { log += 'F'; } } const v = await outer(); v + log",
    "caller-pending-return": "let log = ''; async function inner() { log += await order(1); } async function outer() { try { return 'ret'; } finally { await inner(); log += 'F'; } } const v = await outer(); v + log",
    "caller-pending-throw": "let log = ''; async function inner() { log += await order(1); } async function outer() { try { throw new Error('E'); } finally { await inner(); } } try { await outer(); log += 'no'; } catch (e) { log += 'c:' + (e as any).message; } log",
    "caller-catch-binding": "let log = ''; async function inner() { log += await order(1); } async function outer() { try { throw new Error('E'); } catch (e) { await inner(); log += (e as any).message; } } await outer(); log",
    "sync-callee-orders": "function inner() { return order(1); } let r; try { const v = await inner(); r = 'v' + v; } catch (e) { r = 'c'; } r",
    "sync-caller-chain": "function a() { return b() ; } function b() { return order(4); } class K { v = 2; go() { return a(); } } const v = await new K().go(); v",
    "destructure-default": "const { a = await order(1), b = 5 } = {} as any; a + b",
    "template": "`x${await order(1)}y${await order(2)}`",
    "conditional": "const v = (await order(1)) > 1 ? await order(2) : await order(3); v",
    "args": "function add(a: number, b: number) { return a + b; } add(await order(1), await order(2))",
    "array-literal": "const a = [await order(1), await order(2), 3]; a.join()",
    "object-literal": "const o = { a: await order(1), b: await order(2) }; o.a + o.b",
    "block-scope": "let r = 0; { let x = 10; { let y = 20; r = await order(1); r += x + y; } r += x; } r",
    "closure-capture": "const fs: any[] = []; for (let i = 0; i < 3; i++) { const v = await order(i); fs.push(() => v + i); } fs.map(f => f()).join()",
    "switch": "let r = ''; switch (await order(1)) { case 2: r += 'two'; r += await order(2); break; default: r += 'd'; } r",
    "ctor-arg": "class P { constructor(public v: number) {} } const p = new P(await order(4)); p.v",
    "compound-assign": "let s = 1; s += await order(2); s *= await order(1); s",
    "logical": "const v = (await order(0)) || (await order(3)); v",
    "promise-all": "const [a, b] = await Promise.all([order(1), order(2)]); a + b",
    "promise-all-3": "const xs = await Promise.all([order(1), order(2), order(3), order(4)]); xs.join()",
    "promise-allsettled": "const xs = await Promise.allSettled([order(1), order(2), order(3)]); xs.map((x: any) => x.status + x.value).join()",
    "promise-all-then-more": "const [a, b] = await Promise.all([order(1), order(2)]); const c = await order(a + b); c",
    "exception-pending": "async function f() { try { throw new Error('E'); } finally { await order(1); } } let r; try { await f(); r = 'no'; } catch (e) { r = 'c:' + (e as any).message; } r",
    "generator-async-mix": "function* g() { const x: number = yield 1; yield x + 1; } const it = g(); it.next(); const v = await order(5); it.next(v).value",
    "return-await-in-try-of-loop": "async function f() { for (let i = 0; i < 3; i++) { try { if (i === 1) return 'r' + await order(i); } finally { } } return 'end'; } await f()",
    "shadow-block": "let x = 1; { let x = 2; x += await order(1); } x",
    "shadow-loop": "let x = 'o'; for (let i = 0; i < 2; i++) { let x = 'i' + await order(i); } x",
    "shadow-in-fn": "async function f() { let x = 1; { let x = 2; await order(1); } return x; } await f()",
    "shadow-catch": "let e = 'outer'; try { { let e = 'inner'; await order(1); throw new Error('t'); } } catch (q) { } e",
    "shadow-in-caller": "async function inner() { return await order(1); } async function outer() { let x = 'o'; { let x = 'i'; await inner(); } return x; } await outer()",
    "derived-ctor-super": "class A { v: number; constructor(v: number) { this.v = v; } } class B extends A { w: number; constructor() { super(1); this.w = 2; } async m() { await order(1); return super.toString === Object.prototype.toString; } } await new B().m()",
    "break-through-finally": "let r = ''; for (let i = 0; i < 3; i++) { try { if (i === 1) break; r += i; } finally { r += 'f' + await order(i); } } r",
    "continue-through-finally": "let r = ''; for (let i = 0; i < 3; i++) { try { if (i === 1) continue; r += i; } finally { r += 'f' + await order(i); } } r",
    "catch-value-after-await": "let r; try { throw new Error('E1'); } catch (e) { await order(1); r = (e as any).message; } r",
    "arguments-after-await": "async function f(a: number, b: number) { await order(1); return arguments.length + a + b; } await f(1, 2)",
    "getter-this": "const o = { k: 3, get g() { return this.k; }, async m() { const a = await order(this.g); return a + this.g; } }; await o.m()",
    "arrow-this": "class C { v = 4; async m() { const f = async () => { await order(1); return this.v; }; return await f(); } } await new C().m()",
    "nested-finally-return": "let r = ''; async function f() { try { try { return 'a'; } finally { r += await order(1); } } finally { r += await order(2); } } const v = await f(); r + v",
    "return-override-in-finally": "async function f() { try { return 'a'; } finally { if ((await order(1)) === 2) { return 'b'; } } } await f()",
    "static-method-this": "class S { static k = 6; static async m() { await order(1); return this.k; } } await S.m()",
    "await-in-while-cond": "let n = 0; while ((await order(n)) < 4) { n++; } n",
    "await-in-for-update": "let s = ''; for (let i = 0; i < 4; i = (await order(i)) + 1) { s += i; } s",
    "spread-args": "function f(...xs: number[]) { return xs.join('-'); } f(...[await order(1), await order(2)], await order(3))",
    "optional-chain": "const o: any = { f: async (x: number) => (await order(x)) + 1 }; (await o?.f(2)) + (await order(1))",
}

GEN_T = {
    "g-return-in-finally-yield": "function* g(){ try { return 1 } finally { yield 2 } } const it = g(); JSON.stringify([it.next(), it.next(), it.next()])",
    "g-throw-finally-yield": "function* h(){ try { throw 'E' } finally { yield 2 } } const it = h(); const c = it.next(); let d; try { d = it.next() } catch (e) { d = 'c:' + e } JSON.stringify([c,d])",
    "g-method-this": "const o = { v: 5, *m(){ yield 1; yield this.v } }; const it = o.m(); it.next(); JSON.stringify(it.next())",
    "g-shadow": "function* k(){ let y = 'o'; { let y = 'i'; yield y; } yield y } JSON.stringify([...k()])",
    "g-shadow-loop": "function* k(){ let x = 'o'; for (const i of [1,2]) { let x = 'i' + i; yield x } yield x } JSON.stringify([...k()])",
    "g-break-finally": "function* k(){ for (let i = 0; i < 3; i++) { try { if (i === 1) break; yield i } finally { yield 'f' + i } } yield 'end' } JSON.stringify([...k()])",
    "g-catch-scope": "function* k(){ let e = 'outer'; try { { let e = 'inner'; yield e; throw 1 } } catch (q) { yield 'c' } yield e } JSON.stringify([...k()])",
    "g-class-this": "class C { v = 3; *m(){ yield this.v; yield this.v + 1 } } JSON.stringify([...new C().m()])",
    "g-yieldstar": "function* a(){ const r = yield* b(); yield 'r' + r } function* b(){ yield 1; { let z = 2; yield z } return 9 } JSON.stringify([...a()])",
    "g-throw-method": "function* g(){ try { yield 1 } catch (e) { yield 'c' + e } yield 3 } const it = g(); it.next(); JSON.stringify([it.throw('X'), it.next(), it.next()])",
    "g-args": "function* g(a, b){ yield a; yield arguments.length + b } JSON.stringify([...g(1,2)])",
    "g-loop-state": "function* g(){ for (const x of [1,2,3]) { for (let j = 0; j < 2; j++) { yield x * 10 + j } } } JSON.stringify([...g()])",
    "g-sent-values": "function* g(){ let s = 0; while (s < 10) { s += yield s } return s } const it = g(); it.next(); JSON.stringify([it.next(3), it.next(4), it.next(5)])",
}
GEN_KNOWN = {"g-return-in-finally-yield", "g-throw-finally-yield", "g-shadow", "g-shadow-loop", "g-break-finally", "g-catch-scope"}

SCHEDULES_QUICK = [
    {"mode": "double"},
    {"mode": "double", "order": "lifo"},
    {"mode": "double", "batch": 1},
    {"mode": "double", "batch": 1, "order": "lifo", "extra_steps": 2},
    {"mode": "double", "order": "rand", "seed": 7, "batch": 2, "collect": True},
    {"mode": "double", "extra_steps": 3, "collect": True},
]


def schedules(tier, rng):
    s = list(SCHEDULES_QUICK)
    n = 0 if tier == "quick" else 24
    for i in range(n):
        s.append({"mode": "double", "order": "rand", "seed": 11 + i, "batch": 1 + rng.below(4),
                  "extra_steps": rng.below(3), "collect": rng.chance(1, 2)})
    return s


# ---- stream B: generated programs -------------------------------------------------------
class Gen:
    """Programs whose only observable is the string `r` (a log) and the completion value. Every
    construct the property names can enclose an `await order(k)`: blocks that shadow outer bindings,
    try/catch/finally with return/throw/break/continue pending, loops, async callees, methods using this."""

    def __init__(self, rng):
        self.rng = rng
        self.k = 0

    def order(self):
        self.k += 1
        return "(await order(%d))" % (self.k % 9 + 1)

    def expr(self, scope, depth=0):
        r = self.rng.below(100)
        if r < 35 or depth > 1:
            return self.order()
        if r < 50:
            return str(self.rng.below(9))
        if r < 70 and scope["vars"]:
            return self.rng.choice(scope["vars"])
        if r < 80 and scope["this"]:
            return "this.v"
        return "(%s + %s)" % (self.expr(scope, depth + 1), self.expr(scope, depth + 1))

    def stmts(self, scope, depth, n=None):
        n = n if n is not None else 1 + self.rng.below(3)
        return " ".join(self.stmt(scope, depth) for _ in range(n))

    def stmt(self, scope, depth):
        rng = self.rng
        r = rng.below(100)
        if depth >= 3 or r < 25:
            return "r += '|' + %s;" % self.expr(scope)
        if r < 40:
            v = rng.choice(["x", "y", "z"])
            inner = dict(scope, vars=sorted(set(scope["vars"] + [v])))
            return "{ let %s = %s; %s r += '<%s' + %s + '>'; }" % (v, self.expr(scope), self.stmts(inner, depth + 1), v, v)
        if r < 60:
            body = self.stmts(scope, depth + 1)
            exits = ["", "throw new Error('T%d');" % rng.below(9)]
            if scope["fn"]:
                exits.append("return 'R' + %s;" % self.expr(scope))
            if scope["loop"]:
                exits += ["break;", "continue;"]
            ex = rng.choice(exits)
            if ex and rng.chance(1, 2):
                ex = "if (r.length %% 2 === %d) { %s }" % (rng.below(2), ex)
            catch = "catch (e) { r += '|c:' + (e as any).message; %s }" % self.stmts(scope, depth + 1, 1) if rng.chance(1, 2) else ""
            fin = "finally { r += '|f'; %s }" % self.stmts(scope, depth + 1, 1) if (rng.chance(2, 3) or not catch) else ""
            return "try { %s %s } %s %s" % (body, ex, catch, fin)
        if r < 72:
            i = "i%d" % depth
            inner = dict(scope, loop=True, vars=scope["vars"] + [i])
            return "for (let %s = 0; %s < 2; %s++) { %s }" % (i, i, i, self.stmts(inner, depth + 1))
        if r < 84 and scope["callees"]:
            f = rng.choice(scope["callees"])
            return "r += '|' + f%d + '=' + (await %s(%s));" % (rng.below(9), f, self.expr(scope))
        if r < 92 and scope["obj"]:
            return "r += '|m=' + (await obj.m(%s));" % self.expr(scope)
        v = rng.choice(["x", "y", "z"])
        if v in scope["vars"]:
            return "%s = %s; r += '|%s=' + %s;" % (v, self.expr(scope), v, v)
        return "r += '|' + %s;" % self.expr(scope)

    def program(self):
        rng = self.rng
        self.k = 0
        out = ["let r = '';", "let x: any = 'gx', y: any = 'gy', z: any = 'gz';", "const f0 = 0, f1 = 1, f2 = 2, f3 = 3, f4 = 4, f5 = 5, f6 = 6, f7 = 7, f8 = 8;"]
        callees = []
        for i in range(rng.below(3)):
            scope = {"vars": ["a", "x", "y", "z"], "this": False, "fn": True, "loop": False, "callees": list(callees), "obj": False}
            out.append("async function fn%d(a: any): Promise<any> { %s return 'v%d' + a; }" % (i, self.stmts(scope, 1), i))
            callees.append("fn%d" % i)
        obj = rng.chance(2, 3)
        if obj:
            scope = {"vars": ["a", "x", "y", "z"], "this": True, "fn": True, "loop": False, "callees": list(callees), "obj": False}
            out.append("class K { v = 100; async m(a: any): Promise<any> { %s return a + this.v; } }" % self.stmts(scope, 1))
            out.append("const obj = new K();")
        scope = {"vars": ["x", "y", "z"], "this": False, "fn": False, "loop": False, "callees": callees, "obj": obj}
        out.append("try { %s } catch (e) { r += '|top:' + (e as any).message; }" % self.stmts(scope, 0, 2 + rng.below(3)))
        out.append("r + '#' + x + y + z")
        return "\n".join(out)


def outcome(o):
    t = o.get("trace", [])
    fin = [x for x in t if x.get("r") in ("complete", "error", "stuck", "done")]
    if "error" in o and not t:
        return ("harness-error", str(o["error"])[:200])
    if not fin:
        return ("unfinished", t[-1].get("r") if t else None)
    f = fin[0]
    if f["r"] == "complete":
        return ("complete", f.get("json"))
    if f["r"] == "error":
        return ("error", f.get("class"), f.get("message"))
    return (f["r"],)


def run_orders(chk, reqs, tag):
    d = os.path.join(common.OUT, PID)
    os.makedirs(d, exist_ok=True)
    rf, of = os.path.join(d, tag + ".req.jsonl"), os.path.join(d, tag + ".res.jsonl")
    with open(rf, "w") as f:
        for r in reqs:
            f.write(json.dumps(r) + "\n")
    rc, out = common.sh([chk.th, "orders", rf, of], timeout=3000)
    res = [json.loads(l) for l in open(of) if l.strip()] if os.path.exists(of) else []
    for p in (rf, of):
        if os.path.exists(p):
            os.remove(p)
    if rc != 0 or len(res) != len(reqs):
        return None, "orders harness rc=%s produced %d of %d results: %s" % (rc, len(res), len(reqs), out[-300:])
    return res, ""


def node_eval(src):
    p = subprocess.run(["node", "-e", "console.log(eval(%s))" % json.dumps(src)], capture_output=True, text=True, timeout=30)
    return p.stdout.strip()


def norm_json(s):
    try:
        return json.dumps(json.loads(s), sort_keys=True)
    except (ValueError, TypeError):
        return s


def run(chk):
    chk.assumptions = [
        "save/restore: records are modelled as total maps from field names to values; an entry of a copy table copies one field "
        "(clone / map over the value / re-guarding are value-preserving); the translator classifies each field initialiser of the four "
        "record literals by the first self./frame./state./saved. path it mentions",
        "fields that hold no program state (register_guard, register_pool, arguments_pool) are excluded by name; the interpreter-level "
        "environment (Interpreter.env, saved in the wait-graph context) is outside save_state and is tied by the behavioural streams only",
        "the synchronous in-program stub is the reference for 'the awaited value is already available'",
    ]
    chk.prove(["theories/Suspend/Properties.vo"], ["theories/Suspend/Properties.v"], facts=["C07"])
    ok, out, chk.th = common.build_harness("debug")
    if not ok:
        chk.proof_breaks.append("harness does not build against /repo: " + out[-800:])
        return chk.finish()
    rng = common.Rng(chk.seed, PID)
    stats = {"templates": 0, "template_runs": 0, "generated": 0, "generated_runs": 0, "ledger_programs": 0, "ledger_runs": 0,
             "orders_answered": 0, "suspensions": 0, "disagreements": 0}
    scheds = schedules(chk.tier, rng)

    # ---- replay -------------------------------------------------------------------------
    if chk.replay:
        r = json.load(open(chk.replay))
        if r.get("generator"):
            res, err = run_orders(chk, [{"program": r["source"], "auto": {"mode": "double"}}], "replay")
            if res is None:
                raise common.FrameworkError(err)
            oc = outcome(res[0])
            mine, want = (norm_json(oc[1]) if oc[0] == "complete" else json.dumps(oc)), norm_json(node_eval(r["source"]))
            log("replay: tsrun=%s node=%s" % (mine, want))
            if mine != want:
                chk.violation(dict(r, observed=mine, reference_engine=want))
            return chk.finish()
        if r.get("combinator"):
            res, err = run_orders(chk, [{"program": r["program"], "host": r["host"]}], "replay")
            if res is None:
                raise common.FrameworkError(err)
            oc = outcome(res[0])
            log("replay: observed=%r expected=%r" % (oc, r["with_values_available_at_once"]))
            if oc != ("complete", r["with_values_available_at_once"]):
                chk.violation(dict(r, observed=oc))
            return chk.finish()
        if r.get("ledger"):
            res, err = run_orders(chk, [{"program": r["source"], "auto": r["schedule"]}], "replay")
            if res is None:
                raise common.FrameworkError(err)
            oc = outcome(res[0])
            log("replay: observed=%r sync_result=%r" % (oc, r["sync_result_in_coq"]))
            if oc != ("complete", r["sync_result_in_coq"]):
                chk.violation(dict(r, observed=oc))
            return chk.finish()
        reqs = [{"program": H + r["source"], "auto": r["schedule"]}, {"program": STUBS["sync"] + r["source"], "auto": {"mode": "double"}}]
        res, err = run_orders(chk, reqs, "replay")
        if res is None:
            raise common.FrameworkError(err)
        a, b = outcome(res[0]), outcome(res[1])
        log("replay: deferred=%r sync=%r" % (a, b))
        if a != b:
            chk.violation(dict(r, observed={"deferred": a, "sync": b}))
        return chk.finish()

    # ---- A + B ----------------------------------------------------------------------------
    progs = [("template:" + n, s) for n, s in T.items()]
    g = Gen(rng)
    n_gen = 150 if chk.tier == "quick" else 12000
    for i in range(n_gen):
        progs.append(("generated:%d" % i, g.program()))
    reqs, index = [], []
    for name, src in progs:
        reqs.append({"program": STUBS["sync"] + src, "auto": {"mode": "double"}})
        index.append((name, "sync", None))
        use = scheds if name.startswith("template:") else [scheds[k % len(scheds)] for k in (hash_of(name), hash_of(name) + 1, hash_of(name) + 3)]
        for sc in use:
            reqs.append({"program": H + src, "auto": sc})
            index.append((name, "deferred", sc))
        reqs.append({"program": STUBS["promise"] + src, "auto": {"mode": "double"}})
        index.append((name, "promise", None))
    res, err = run_orders(chk, reqs, "ab")
    if res is None:
        chk.violation({"what": err})
        return chk.finish()
    srcs = dict(progs)
    ref = {}
    shapes = {}
    for (name, variant, sc), o in zip(index, res):
        oc = outcome(o)
        if variant == "sync":
            ref[name] = oc
            continue
        key = "template_runs" if name.startswith("template:") else "generated_runs"
        stats[key] += 1
        if variant == "deferred":
            nsusp = sum(1 for x in o.get("trace", []) if x.get("r") == "suspended")
            stats["suspensions"] += nsusp
            stats["orders_answered"] += sum(len(x.get("pending", [])) for x in o.get("trace", []) if x.get("r") == "suspended")
        shapes[oc[0]] = shapes.get(oc[0], 0) + 1
        if oc != ref[name]:
            stats["disagreements"] += 1
            if len(chk.violations) < 5:
                chk.violation({"program_name": name, "source": srcs[name], "variant": variant, "schedule": sc or {"mode": "double"},
                               "observed": {"with_suspension": oc, "synchronous_stub": ref[name]},
                               "what": "the outcome differs between the host-suspending order() (%s) and the same program with the "
                                       "awaited value already available" % variant})
    stats["templates"] = len(T)
    stats["generated"] = n_gen
    # non-triviality of the generated stream: most programs complete and suspend several times
    completed = sum(1 for n, o in ref.items() if o[0] == "complete")

    # ---- C: ledger-event programs against sync_result evaluated in Coq ------------------------
    lprogs = []
    n_l = 120 if chk.tier == "quick" else 2400
    while len(lprogs) < n_l:
        prog, markers, awaited = [], 0, set()
        for _ in range(1 + rng.below(6)):
            r = rng.below(100)
            if r < 40:
                prog.append(("O", rng.below(50), False))
            elif r < 65:
                prog.append(("I", rng.below(50)))
                markers += 1
            elif r < 88 and markers > len(awaited):
                j = rng.choice([k for k in range(markers) if k not in awaited])
                awaited.add(j)
                prog.append(("M", j, False))
            else:
                prog.append(("G",))
        for j in range(markers):          # every issued order is awaited exactly once (O1 / O3 are C08 findings)
            if j not in awaited:
                prog.append(("M", j, False))
        lprogs.append(prog)
    lines = ["From Coq Require Import List String NArith ZArith.", "From TsrunV Require Import Base.Render Host.Ledger Suspend.Schedule.",
             "Import ListNotations.", "Local Open Scope string_scope.",
             "Definition show (x : seen) : string := match x with SVal v => \"v:\" ++ string_of_Z v | SCaught => \"caught\" | SId n => \"id:\" ++ string_of_N n end.",
             "Definition one (orc : list Z) (p : list pev) : string := String.concat \",\" (map show (sync_result (fun id => nth (N.to_nat id) orc 0%Z) p)).",
             "Definition cases : list string := ["]
    items = []
    for prog in lprogs:
        nid, orc = 1, {0: 0}
        evs = []
        for e in prog:
            if e[0] == "O":
                orc[nid] = 2 * e[1]
                nid += 1
                evs.append("POrder %d%%Z false" % e[1])
            elif e[0] == "I":
                orc[nid] = 2 * e[1]
                nid += 1
                evs.append("PIssue %d%%Z" % e[1])
            elif e[0] == "M":
                evs.append("PAwaitMarker %d false" % e[1])
            else:
                orc[nid] = 0
                nid += 1
                evs.append("PGetId")
        items.append("one [%s] [%s]" % ("; ".join("%d%%Z" % orc.get(k, 0) for k in range(nid)), "; ".join(evs)))
    lines.append(";\n".join(items) + "].")
    lines.append("Eval vm_compute in (lines cases).")
    model, out = common.run_cases_v("c07_sync", "\n".join(lines))
    if model is None:
        raise common.FrameworkError("cases.v for sync_result failed: " + out[-600:])
    lscheds = [{"mode": "double", "batch": 1}, {"mode": "double", "order": "lifo", "extra_steps": 1},
               {"mode": "double", "order": "rand", "seed": 5, "batch": 2}]
    reqs = []
    for prog in lprogs:
        for sc in lscheds:
            reqs.append({"program": c08.to_ts(prog), "auto": sc})
    res, err = run_orders(chk, reqs, "c")
    if res is None:
        chk.violation({"what": err})
        return chk.finish()
    for k, prog in enumerate(lprogs):
        stats["ledger_programs"] += 1
        for j, sc in enumerate(lscheds):
            stats["ledger_runs"] += 1
            oc = outcome(res[k * len(lscheds) + j])
            want = ("complete", model[k])
            if oc != want:
                stats["disagreements"] += 1
                if len(chk.violations) < 5:
                    chk.violation({"program_events": prog, "source": c08.to_ts(prog),
                                   "schedule": sc, "observed": oc, "sync_result_in_coq": model[k],
                                   "what": "Interpreter under this host schedule does not complete with Suspend.Schedule.sync_result of the program",
                                   "ledger": True})

    # ---- P: combinators over inputs that are available at different times -----------------------
    # three host orders feed Promise.all / Promise.race; each order is answered with a plain value (V), with
    # a host promise settled before the program continues (E) or with a host promise settled later (L), the
    # late ones in every order. The reference is the program with the synchronous stub: nothing is pending.
    import itertools
    pcases = []
    for comb in ("all", "race"):
        for kinds in itertools.product("VEL", repeat=3):
            late = [i for i, k in enumerate(kinds) if k == "L"]
            perms = list(itertools.permutations(late)) if late else [()]
            if chk.tier == "quick" and len(perms) > 2:
                perms = [perms[0], perms[-1], perms[len(perms) // 2]]
            for perm in perms:
                for spurious in ((0,) if chk.tier == "quick" else (0, 2)):
                    pcases.append((comb, kinds, perm, spurious))
    preqs, pexp = [], []
    for comb, kinds, perm, spurious in pcases:
        body = "const a = order(1); const b = order(2); const c = order(3);\n"
        if comb == "all":
            body += "(await Promise.all([a, b, c])).join()"
            want = "v1,v2,v3"
        else:
            body += "await Promise.race([a, b, c])"
            avail = [i for i, k in enumerate(kinds) if k != "L"]
            want = "v%d" % ((avail[0] if avail else perm[0]) + 1)
        host = []
        for i, k in enumerate(kinds):
            if k == "V":
                host.append({"fulfil": [[i + 1, {"ok": "v%d" % (i + 1)}]]})
            else:
                host.append({"fulfil": [[i + 1, {"promise": i + 1, "linked": True}]]})
                if k == "E":
                    host.append({"resolve": [i + 1, "v%d" % (i + 1)]})
            host.append({"step": 1})
        for i in perm:
            host += [{"step": 1}] * spurious
            host.append({"resolve": [i + 1, "v%d" % (i + 1)]})
            host.append({"step": 1})
        host += [{"step": 1}, {"step": 1}]
        preqs.append({"program": H + body, "host": host})
        pexp.append(want)
    pres, err = run_orders(chk, preqs, "p")
    stats["availability_cases"] = len(pcases)
    if pres is None:
        chk.violation({"what": "orders harness failed on the availability stream: " + err})
    else:
        for (comb, kinds, perm, spurious), rq, want, o in zip(pcases, preqs, pexp, pres):
            oc = outcome(o)
            if oc != ("complete", want):
                stats["disagreements"] += 1
                if len(chk.violations) < 8:
                    chk.violation({"combinator": comb, "answers": "".join(kinds), "late_settling_order": list(perm), "spurious_steps": spurious,
                                   "program": rq["program"], "host": rq["host"], "observed": oc, "with_values_available_at_once": want,
                                   "what": "the result of Promise.%s depends on whether its inputs were available at the call or arrived after a "
                                           "suspension (V = value, E = host promise settled before the program continued, L = settled later)" % comb})

    # ---- D: generators (known finding Y1) -------------------------------------------------------
    reqs = [{"program": s, "auto": {"mode": "double"}} for s in GEN_T.values()]
    res, err = run_orders(chk, reqs, "d")
    gen_dev = []
    if res is not None:
        for (name, src), o in zip(GEN_T.items(), res):
            oc = outcome(o)
            mine = norm_json(oc[1]) if oc[0] == "complete" else json.dumps(oc)
            want = norm_json(node_eval(src))
            if mine != want:
                gen_dev.append(name)
                if name not in GEN_KNOWN:
                    chk.violation({"program_name": name, "source": src, "observed": mine, "reference_engine": want,
                                   "what": "a generator's yield/resume changes the program's behaviour (not in known class Y1)", "generator": True})
    for e in chk.known:
        if e["class"] == "Y1-generator-yield-loses-frame-state":
            if set(gen_dev) & GEN_KNOWN:
                chk.known_finding(e)
            else:
                chk.stale_known.append("Y1 no longer reproduces")
    chk.samples.append({"program": progs[len(T) + 3][1], "outcome_with_suspension_and_stub": ref.get(progs[len(T) + 3][0])})
    chk.coverage.update({
        "evaluations": stats["template_runs"] + stats["generated_runs"] + stats["ledger_runs"] + len(GEN_T),
        "distinct_nontrivial": len(T) + n_gen + n_l,
        "rule": "%d await-position templates x %d host schedules (order fifo/lifo/random, batch 1/2/all, 0-3 spurious steps, forced collect) "
                "+ resolved-promise stub; %d generated programs (shadowing blocks, try/catch/finally exits, loops, async callees, methods) x 3 "
                "schedules; %d ledger-event programs x 3 schedules against sync_result computed in Coq; %d generator templates against node"
                % (len(T), len(scheds), n_gen, n_l, len(GEN_T)),
        "exhaustive": False, "stats": stats, "outcome_shapes": shapes, "reference_completed": completed,
        "generator_deviations": gen_dev,
    })
    return chk.finish()


def hash_of(s):
    h = 0
    for c in s:
        h = (h * 131 + ord(c)) % 1000003
    return h
