"""C01 — programs in the supported core evaluate as ECMAScript specifies.
Proof (mechanism M1): coq/theories/Lang/Properties.v — every binary and unary
operator on primitive operands, as execute_op implements it, equals the
ECMAScript operator (all doubles, all strings). Tie: the operator x operand
cross product is evaluated by tsrun, by the model inside Coq (PrimFloat,
vm_compute) and by node. Everything outside M1 (objects, library, control
flow, classes, generators) is reference-only: a systematic probe matrix and a
generated-program stream compared with node 20; deviations present on the
unchanged tree are listed by probe id / program seed in corpus/C01/."""
import json
import os
import struct
import subprocess
from concurrent.futures import ThreadPoolExecutor

import common
import genprog
import probes
import c01core
import c01sweeps
import c01pattern
import c01date
import c01forof
from common import log

PID = "C01"
OPS = {"+": "Add", "-": "Sub", "*": "Mul", "/": "Div", "==": "Eq", "!=": "NotEq", "===": "StrictEq", "!==": "StrictNotEq",
       "<": "Lt", "<=": "LtEq", ">": "Gt", ">=": "GtEq", "&": "BitAnd", "|": "BitOr", "^": "BitXor", "<<": "LShift", ">>": "RShift",
       ">>>": "URShift", "&&": "And", "||": "Or", "??": "Nullish"}
UNS = {"-": "Neg", "+": "Plus", "!": "Not", "~": "BitNot", "typeof": "Typeof", "void": "Void"}
PROGRAM_SEED_BASE = 1000          # reference-only stream: fixed, see DESIGN.md §5 C01


def node_eval(src, tag):
    d = os.path.join(common.OUT, PID)
    os.makedirs(d, exist_ok=True)
    p = os.path.join(d, "n_%s.js" % tag)
    open(p, "w").write(src)
    try:
        r = subprocess.run(["node", os.path.join(common.ROOT, "tools", "node_eval.js"), p], capture_output=True, text=True, timeout=300)
        os.remove(p)
        return json.loads(r.stdout)
    except Exception as ex:
        return {"status": "unavailable", "message": str(ex)}


def evaluate(th, ps, size=40, tag="pr"):
    """{probe id: (expr, tsrun result, node result)}; chunks that fail as a whole are retried probe by probe"""
    chunks = [ps[k:k + size] for k in range(0, len(ps), size)]
    progs = [("c%d" % i, "", probes.chunk_program(c)) for i, c in enumerate(chunks)]
    tres = common.run_programs(th, progs, tag="c01" + tag, timeout=2400)
    with ThreadPoolExecutor(8) as ex:
        nres = list(ex.map(lambda x: node_eval(x[1][2], "%s%d" % (tag, x[0])), enumerate(progs)))
    out, retry = {}, []
    for i, c in enumerate(chunks):
        t, n = tres.get("c%d" % i, {}), nres[i]
        if n.get("status") == "unavailable":
            raise common.FrameworkError("node is required for C01: " + str(n.get("message")))
        if t.get("status") == "complete" and n.get("status") == "complete":
            tv, nv = t["value"][4:].split("\u0001"), n["value"].split("\u0001")
            for (pid, e), a, b in zip(c, tv, nv):
                out[pid] = (e, a, b)
        elif size > 1:
            retry += c
        else:
            pid, e = c[0]
            out[pid] = (e, "<%s %s>" % (t.get("status"), t.get("class")),
                        n.get("value") if n.get("status") == "complete" else "<%s %s>" % (n.get("status"), n.get("class")))
    if retry:
        out.update(evaluate(th, retry, 1, tag + "r"))
    return out


# ---- model side -----------------------------------------------------------------
def fhex(x):
    if x != x:
        return "nan"
    if x == float("inf"):
        return "infinity"
    if x == float("-inf"):
        return "neg_infinity"
    if x == 0:
        return "(-0)" if str(x).startswith("-") else "0"
    return "(%s)" % float(x).hex()


def coq_prim(name, js):
    if js == "undefined":
        return "PUndef _"
    if js == "null":
        return "PNull _"
    if js in ("true", "false"):
        return "PBool _ %s" % js
    if js.startswith('"'):
        return 'PStr _ (string_of_hex "%s")' % json.loads(js).encode("utf-8").hex()
    v = {"NaN": float("nan"), "Infinity": float("inf"), "(-0)": -0.0}.get(js)
    if v is None:
        v = float(js.strip("()"))
    return "PNum _ %s" % fhex(v)


def fbits_py(x):
    """the rendering of Lang/OpsExec.fbits, computed in Python"""
    if x != x:
        return "nan"
    if x in (float("inf"), float("-inf")):
        return "inf" if x > 0 else "-inf"
    if x == 0:
        return "-0" if str(x).startswith("-") else "0"
    b = struct.unpack("<Q", struct.pack("<d", x))[0]
    e = (b >> 52) & 0x7FF
    m = b & ((1 << 52) - 1)
    if e == 0:
        mant, ex = m, -1074
    else:
        mant, ex = m | (1 << 52), e - 1075
    return "f%s%de%d" % ("-" if b >> 63 else "+", mant, ex)


def parse_fbits(s):
    if s == "nan":
        return float("nan")
    if s in ("inf", "-inf"):
        return float(s)
    if s in ("0", "-0"):
        return float(s + ".0") if s == "0" else -0.0
    sign = -1.0 if s[1] == "-" else 1.0
    m, e = s[2:].split("e")
    import math
    return sign * math.ldexp(int(m), int(e))


def show_to_js(s):
    """model rendering -> the __p rendering used by the probe driver"""
    if s in ("undefined", "null", "true", "false"):
        return s
    if s.startswith("s:"):
        return json.dumps(bytes.fromhex(s[2:]).decode("utf-8"), ensure_ascii=False)
    x = parse_fbits(s[2:])
    if x != x:
        return "NaN"
    if x == 0:
        return "-0" if str(x).startswith("-") else "0"
    return None, x      # numbers are compared numerically


def same_value(model_s, tsrun_s):
    m = show_to_js(model_s)
    if isinstance(m, tuple):
        try:
            if tsrun_s in ("Infinity", "-Infinity"):
                return float(tsrun_s.replace("Infinity", "inf")) == m[1]
            return float(tsrun_s) == m[1]
        except ValueError:
            return False
    if m.startswith('"'):
        try:
            return json.loads(tsrun_s) == json.loads(m)
        except ValueError:
            return False
    return m == tsrun_s


def model_cases(cases, tables):
    """cases: list of ('bin', Op, a_js, b_js) / ('un', Op, a_js); returns list of rendered results"""
    pre = ["From Coq Require Import String ZArith List Floats.", "From TsrunV Require Import Lang.Ops Lang.OpsExec Base.Render.",
           "Import ListNotations.", "Open Scope float_scope.",
           "Definition tn : list (string * float) := [%s]." % "; ".join('(string_of_hex "%s", %s)' % (k.encode().hex(), fhex(v)) for k, v in tables["tonum"]),
           "Definition ts : list (string * string) := [%s]." % "; ".join('("%s"%%string, string_of_hex "%s")' % (k, v.encode().hex()) for k, v in tables["tostr"]),
           "Definition rk : list (string * Z) := [%s]." % "; ".join('(string_of_hex "%s", %d%%Z)' % (k.encode().hex(), r) for k, r in tables["rank"]),
           "Definition B (o : binop) (a b : P) : string := show (run_bin tn ts [] [] rk o a b).",
           "Definition U (o : unop) (a : P) : string := show (run_un tn o a).", "Definition results : list string := ["]
    items = []
    for c in cases:
        if c[0] == "bin":
            items.append("B %s (%s) (%s)" % (c[1], coq_prim(None, c[2]), coq_prim(None, c[3])))
        else:
            items.append("U %s (%s)" % (c[1], coq_prim(None, c[2])))
    body = "\n".join(pre) + "\n" + ";\n".join(items) + "].\nEval vm_compute in (lines results).\n"
    return common.run_cases_v("c01_ops_%d_%d" % (os.getpid(), abs(hash(items[0])) % 100000), body, timeout=900)


# ---- known deviations ---------------------------------------------------------------
def load_known():
    p = os.path.join(common.CORPUS, PID, "known_deviations.json")
    if os.path.exists(p):
        return json.load(open(p))
    return {"probes": {}, "programs": {}}


def program_for(seed, ts=False):
    rng = common.Rng(PROGRAM_SEED_BASE + seed, "g")
    feats = {}
    g = genprog.Gen(rng, features=feats, ts=ts)
    return g.program(5, 3), feats


def compare_program(t, n):
    if n.get("status") == "complete":
        return t.get("status") == "complete" and t.get("value") == "str:" + n["value"]
    return t.get("status") == "error" and t.get("class") == n.get("class")


def run(chk, rebaseline=False):
    # C01_REBASELINE=1 rewrites corpus/C01/known_deviations.json from this run (use on the pinned tree only)
    rebaseline = rebaseline or bool(os.environ.get("C01_REBASELINE"))
    chk.assumptions = [
        "M1 is proved over an abstract IEEE signature under four comparison laws (no NaN compares, trichotomy, < excludes ==, string order "
        "asymmetric); ToNumber(string), Number::toString, ToInt32 are parameters shared by both sides (C15)",
        "objects, the built-in library, control flow, classes, destructuring and generators are compared with node only (reference-only); "
        "deviations present on the unchanged tree are listed in corpus/C01/known_deviations.json by probe id / program seed",
        "the generated-program stream uses fixed PRNG seeds (not VERIF_SEED): a new seed can expose one of the many unlisted library "
        "deviations of the pinned tree, which would make the check raise an alarm on the unchanged tree",
    ]
    chk.prove(["theories/Lang/Properties.vo", "theories/Lang/OpsExec.vo", "theories/Lang/CoreProperties.vo", "theories/Lang/PrattProperties.vo",
               "theories/Lang/CoreExec.vo", "theories/Lang/ArrayPatternProperties.vo", "theories/Lang/ArrayPatternExec.vo",
               "theories/Lang/CivilProperties.vo", "theories/Lang/CivilExec.vo", "theories/Lang/ForOfProperties.vo", "theories/Lang/ForOfExec.vo"],
              ["theories/Lang/Properties.v", "theories/Lang/CoreProperties.v", "theories/Lang/PrattProperties.v",
               "theories/Lang/ArrayPatternProperties.v", "theories/Lang/CivilProperties.v",
               "theories/Lang/ForOfProperties.v"], facts=["C01"])
    ok, out, chk.th = common.build_harness("debug")
    if not ok:
        chk.proof_breaks.append("harness does not build against /repo: " + out[-800:])
        return chk.finish()
    known = load_known()
    stats = {"operator_cases": 0, "probes": 0, "programs": 0, "disagreements": 0, "known_probe_deviations": 0, "known_program_deviations": 0}

    # ---- stream M2: the compiled core: compiler output and outcome vs Lang/Core*.v vs node ----
    if chk.replay and "model_term" in json.load(open(chk.replay)):
        c01core.run(chk, chk.th, stats)
        return chk.finish()
    if not chk.replay:
        c01core.run(chk, chk.th, stats)

    # ---- stream M4: array patterns: emitted instructions and outcome vs Lang/ArrayPattern*.v vs node ----
    if chk.replay and "iterator_values" in json.load(open(chk.replay)):
        c01pattern.run(chk, chk.th, stats)
        return chk.finish()
    if not chk.replay:
        c01pattern.run(chk, chk.th, stats)

    # ---- stream M5: Date's calendar arithmetic: getters and Date.UTC vs Lang/Civil*.v vs node ----
    if chk.replay and ("time_values" in json.load(open(chk.replay)) or "utc_arguments" in json.load(open(chk.replay))):
        c01date.run(chk, chk.th, stats)
        return chk.finish()
    if not chk.replay:
        c01date.run(chk, chk.th, stats)

    # ---- stream M6: for-of with a binding per iteration: emitted instructions and outcome vs Lang/ForOf*.v vs node ----
    if chk.replay and "break_on" in json.load(open(chk.replay)):
        c01forof.run(chk, chk.th, stats)
        return chk.finish()
    if chk.replay and "throw_on" in json.load(open(chk.replay)):
        c01forof.run_throw(chk, chk.th, stats)
        return chk.finish()
    if not chk.replay:
        c01forof.run(chk, chk.th, stats)
        c01forof.run_throw(chk, chk.th, stats)

    # ---- stream A: operators on primitives: tsrun vs model vs node -----------------
    prims = probes.PRIMS
    bin_cases, ps = [], []
    for js_op, name in OPS.items():
        for an, a in prims:
            for bn, b in prims:
                bin_cases.append(("bin", name, a, b, "bin:%s:%s:%s" % (js_op, an, bn)))
                ps.append(("bin:%s:%s:%s" % (js_op, an, bn), "(%s %s %s)" % (a, js_op, b)))
    for js_op, name in UNS.items():
        for an, a in prims:
            bin_cases.append(("un", name, a, None, "un:%s:%s" % (js_op, an)))
            ps.append(("un:%s:%s" % (js_op, an), "(%s %s)" % (js_op, a)))
    # conversion tables from the reference engine
    strs = [json.loads(js) for _, js in prims if js.startswith('"')]
    nums = [js for _, js in prims if not js.startswith('"') and js not in ("undefined", "null", "true", "false")]
    tabprog = "JSON.stringify([%s].map(s => String(Number(s))).concat([%s].map(x => String(x))))" % (
        ", ".join(json.dumps(s) for s in strs), ", ".join(nums))
    tn = node_eval(tabprog, "tables")
    if tn.get("status") != "complete":
        raise common.FrameworkError("node is required for C01 tables: %r" % tn)
    tv = json.loads(tn["value"])
    conv = lambda s: {"NaN": float("nan"), "Infinity": float("inf"), "-Infinity": float("-inf")}.get(s, None) if s in ("NaN", "Infinity", "-Infinity") else float(s)
    tables = {"tonum": [(s, conv(v)) for s, v in zip(strs, tv[:len(strs)])], "tostr": [], "rank": []}
    for js, v in zip(nums, tv[len(strs):]):
        x = {"NaN": float("nan"), "Infinity": float("inf"), "(-0)": -0.0}.get(js)
        x = float(js.strip("()")) if x is None else x
        tables["tostr"].append((fbits_py(x), v))
    tables["tostr"] += [(fbits_py(1.0), "1"), (fbits_py(0.0), "0")]
    order = sorted(strs, key=lambda s: s.encode("utf-16-be"))
    tables["rank"] = [(s, order.index(s)) for s in strs]
    res = evaluate(chk.th, ps, tag="op")
    shards = [bin_cases[k:k + 600] for k in range(0, len(bin_cases), 600)]
    with ThreadPoolExecutor(8) as ex:
        mres = list(ex.map(lambda sh: model_cases([(c[0], c[1], c[2], c[3]) if c[0] == "bin" else ("un", c[1], c[2]) for c in sh], tables), shards))
    model = []
    for lines, raw in mres:
        if lines is None:
            raise common.FrameworkError("coqc failed on C01 operator cases: " + raw[-600:])
        model.extend(lines)
    for c, m in zip(bin_cases, model):
        pid = c[4]
        e, a, b = res.get(pid, (None, "<missing>", "<missing>"))
        stats["operator_cases"] += 1
        if a != b:
            stats["disagreements"] += 1
            if len(chk.violations) < 4:
                chk.violation({"probe": pid, "expression": e, "tsrun": a, "reference": b, "model": m,
                               "what": "operator on primitive operands differs from ECMAScript (M1 fragment: no known deviation is accepted here)"})
        elif not same_value(m, a):
            stats["disagreements"] += 1
            if len(chk.proof_breaks) < 4:
                chk.proof_breaks.append("correspondence Lang.Ops.vm_binop vs execute_op on %s = %s: tsrun %r model %r" % (pid, e, a, m))
    chk.samples.append({"stream": "operators", "probe": ps[777][0], "expression": ps[777][1], "result": res.get(ps[777][0], ("", "", ""))[1]})

    # ---- stream B: probe matrix vs node ---------------------------------------------
    allp = [p for p in probes.all_probes() if p[0] not in res]
    pres = evaluate(chk.th, allp, tag="lib")
    pres.update({k: v for k, v in res.items()})
    dev_now = {k: v for k, v in pres.items() if v[1] != v[2]}
    stats["probes"] = len(pres)
    if rebaseline:
        known["probes"] = {k: {"expression": v[0], "tsrun": v[1], "reference": v[2]} for k, v in sorted(dev_now.items())}
    for k, (e, a, b) in sorted(dev_now.items()):
        if k in known["probes"]:
            stats["known_probe_deviations"] += 1
            continue
        stats["disagreements"] += 1
        if len(chk.violations) < 6:
            chk.violation({"probe": k, "expression": e, "tsrun": a, "reference": b,
                           "what": "probe deviates from the reference engine and is not in the known-deviation list"})
    repaired = [k for k in known["probes"] if k in pres and k not in dev_now]
    if repaired:
        chk.stale_known.append("probes listed as deviating that now agree with the reference: %s" % ", ".join(repaired[:20]))

    # ---- stream S: exhaustive argument sweeps vs node -----------------------------------
    known.setdefault("sweeps", {})
    snames = sorted(c01sweeps.S)
    sprogs = [("s:" + n, "", c01sweeps.S[n]) for n in snames]
    sres = common.run_programs(chk.th, sprogs, tag="c01s", timeout=1800)
    with ThreadPoolExecutor(8) as ex:
        snode = list(ex.map(lambda x: node_eval(x[2], "sw%d" % abs(hash(x[0]))), sprogs))
    sweep_now = {}
    stats["sweep_items"] = 0
    for n, nd in zip(snames, snode):
        t = sres.get("s:" + n, {})
        if nd.get("status") == "unavailable":
            raise common.FrameworkError("node is required for C01")
        tv = t.get("value", "")[4:] if t.get("status") == "complete" else "<%s %s>" % (t.get("status"), t.get("class"))
        nv = nd.get("value") if nd.get("status") == "complete" else "<%s %s>" % (nd.get("status"), nd.get("class"))
        a, b = tv.split(";"), str(nv).split(";")
        stats["sweep_items"] += len(b)
        dev = {}
        if len(a) != len(b):
            dev["whole"] = [tv[:200], str(nv)[:200]]
        else:
            for i, (x, y) in enumerate(zip(a, b)):
                if x != y:
                    dev[str(i)] = [x[:120], y[:120]]
        sweep_now[n] = dev
    if rebaseline or os.environ.get("C01_REBASELINE_SWEEPS"):
        known["sweeps"] = {n: d for n, d in sweep_now.items() if d}
        if not rebaseline:
            json.dump(known, open(os.path.join(common.CORPUS, PID, "known_deviations.json"), "w"), indent=1, sort_keys=True)
    sweeps_known_hit = False
    for n in snames:
        base = known["sweeps"].get(n, {})
        for i, (x, y) in sorted(sweep_now[n].items()):
            if i in base:
                sweeps_known_hit = True
                stats["known_probe_deviations"] += 1
                continue
            stats["disagreements"] += 1
            if len(chk.violations) < 10:
                chk.violation({"sweep": n, "item": i, "program": c01sweeps.S[n], "tsrun": x, "reference": y,
                               "what": "item %s of the argument sweep (tuples in the order of the nested loops of the program) differs from the "
                                       "reference engine and is not in the known-deviation list" % i})
        gone = [i for i in base if i not in sweep_now[n]]
        if gone:
            chk.stale_known.append("sweep %s: items listed as deviating that now agree: %s" % (n, ", ".join(gone[:12])))

    # ---- stream C: generated programs (fixed seeds) vs node ---------------------------
    n_prog = 300 if chk.tier == "quick" else 3000
    progs, feats = [], {}
    for i in range(n_prog):
        src, f = program_for(i)
        progs.append(("p%d" % i, "gc=%d" % [100, 1, 7][i % 3], src))
        for k in f:
            feats[k] = feats.get(k, 0) + 1
    tres = common.run_programs(chk.th, progs, tag="c01p", timeout=3000)
    with ThreadPoolExecutor(8) as ex:
        nres = list(ex.map(lambda x: node_eval(x[2], x[0]), progs))
    devp = {}
    for (name, _, src), n in zip(progs, nres):
        stats["programs"] += 1
        t = tres.get(name, {})
        if n.get("status") == "unavailable":
            raise common.FrameworkError("node is required for C01")
        if not compare_program(t, n):
            devp[name[1:]] = {"tsrun": (t.get("value") or t.get("class") or t.get("status"))[:200], "reference": (n.get("value") or n.get("class"))[:200]}
    if rebaseline:
        # a quick re-baselining keeps the entries of the seeds only the thorough tier runs
        known["programs"] = dict({k: v for k, v in known.get("programs", {}).items() if int(k) >= n_prog}, **devp)
        os.makedirs(os.path.join(common.CORPUS, PID), exist_ok=True)
        json.dump(known, open(os.path.join(common.CORPUS, PID, "known_deviations.json"), "w"), indent=1, sort_keys=True)
        log("rebaselined: %d probe deviations, %d program deviations" % (len(known["probes"]), len(known["programs"])))
    for seed, d in sorted(devp.items(), key=lambda kv: int(kv[0])):
        if seed in known["programs"]:
            stats["known_program_deviations"] += 1
            continue
        stats["disagreements"] += 1
        if len(chk.violations) < 8:
            src, _ = program_for(int(seed))
            chk.violation({"program_seed": int(seed), "program": src, "tsrun": d["tsrun"], "reference": d["reference"],
                           "what": "generated program differs from the reference engine and is not in the known-deviation list"})
    # KNOWN-FINDING lines: one per class (probe group) reproduced in this run
    groups = {}
    for k in known["probes"]:
        if k in dev_now:
            g = k.split(":")[0] if not k.startswith(("bin:", "un:", "expr:", "tostr:", "tonum:", "tmpl:", "tobool:")) else "operators-on-objects-and-expressions"
            groups.setdefault(g, []).append(k)
    for e in chk.known:
        g = e["class"].split("-", 1)[1] if "-" in e["class"] else e["class"]
        if e["class"] == "L-Sweeps":
            if sweeps_known_hit:
                chk.known_finding(e)
            else:
                chk.stale_known.append("L-Sweeps did not reproduce")
            continue
        if e["class"] == "P-programs":
            if any(s in devp for s in known["programs"]):
                chk.known_finding(e)
            continue
        if g in groups:
            chk.known_finding(e)
        else:
            chk.stale_known.append("%s did not reproduce" % e["class"])
    chk.coverage.update({
        "evaluations": stats["operator_cases"] * 3 + stats["probes"] * 2 + stats["programs"] * 2,
        "distinct_nontrivial": stats["probes"] + stats["programs"],
        "rule": "operators: %d binary/unary operators x %d primitive operand values (pairs) evaluated by tsrun, the Coq model and node; probe matrix: "
                "library entry points x argument shapes and control-flow snippets vs node; programs: typed-grammar generator, fixed seeds, vs node"
                % (len(OPS) + len(UNS), len(prims)),
        "operator_cases": stats["operator_cases"], "probes": stats["probes"], "programs": stats["programs"],
        "known_probe_deviations": stats["known_probe_deviations"], "known_program_deviations": stats["known_program_deviations"],
        "generator_features": feats, "disagreements": stats["disagreements"],
        "sweeps": len(c01sweeps.S), "sweep_items": stats.get("sweep_items", 0),
        "date_cases": stats.get("date_cases", 0), "for_of_cases": stats.get("forof_cases", 0),
        "array_pattern_cases": stats.get("pattern_cases", 0), "array_pattern_instructions_compared": stats.get("pattern_instructions", 0),
        "core_programs": stats.get("core_programs", 0), "core_instructions_compared": stats.get("core_instructions", 0),
        "core_value_outcomes": stats.get("core_value", 0), "core_error_outcomes": stats.get("core_error", 0),
    })
    return chk.finish()
