"""C04 — TypeScript's run-time constructs behave as their standard JavaScript emit.

Proof: coq/theories/TsEmit/Properties.v (enums): the object denoted by enum declarations as tsc is
specified to emit them - each member writes its forward entry and, for numeric values, the reverse
entry, and nothing else; uninitialised members continue the previous numeric value; references take
the referenced value; for declarations of any length, merged declarations included, a name keeps
its value until re-declared and E[v] names the last member whose value is v.
Tie / search:
  A. random enum declarations (auto, numeric incl. negative and fractional, string, references to
     earlier members bare and qualified, constant expressions, duplicate values, repeated
     declarations): the property set of the enum object on tsrun vs TsEmit.Enum evaluated in Coq vs
     the emitted JavaScript on node and on tsrun itself;
  B. namespaces, parameter properties, abstract classes: TypeScript programs vs their hand-written
     emit on node and on tsrun (templates and generated shapes)."""
import json
import os
import subprocess

import common
from common import log
import c11

PID = "C04"


# ---- enums -------------------------------------------------------------------------------------------
def gen_enum(rng, merged):
    """a list of declarations; each a list of (name, init) with init in
    ("auto",) ("num", text, value) ("str", text) ("ref", name, qualified) ("expr", text, value)"""
    decls, names, values, k = [], [], {}, 0
    for d in range(1 + (rng.below(2) if merged else 0)):
        ms, prev = [], -1
        for _ in range(1 + rng.below(5)):
            name = "M%d" % k
            k += 1
            r = rng.below(100)
            numeric_names = [n for n in names + [m[0] for m in ms] if isinstance(values.get(n), (int, float))]
            if r < 35 and prev is not None:
                init, val = ("auto",), prev + 1
            elif r < 55:
                v = rng.choice([0, 1, 2, 5, 7, -1, -3, 10, 100, 1.5, 0.25])
                init, val = ("num", repr(v) if isinstance(v, float) else str(v), v), v
            elif r < 70:
                t = rng.choice(["a", "b c", "é", "", "0", "x-y"])
                init, val = ("str", t), "s:" + t
            elif r < 80 and numeric_names:
                n = rng.choice(numeric_names)
                init, val = ("ref", n, rng.chance(1, 2)), values[n]
            elif r < 88:
                # a constant expression that evaluates to a string: tsc folds it and emits no reverse mapping
                string_names = [n for n in names + [m[0] for m in ms] if isinstance(values.get(n), str)]
                parts, text_ts, text_js, v = 1 + rng.below(3), [], [], ""
                for _ in range(parts):
                    q = rng.below(3)
                    if q == 0 and string_names:
                        n = rng.choice(string_names)
                        qual = rng.chance(1, 2)
                        text_ts.append(("E." if qual else "") + n)
                        text_js.append("E." + n)
                        v += values[n][2:]
                    elif q == 1:
                        t = rng.choice(["a", "M0", "M1", "x/", "é"])
                        text_ts.append("`%s`" % t)
                        text_js.append("`%s`" % t)
                        v += t
                    else:
                        t = rng.choice(["a", "b", "M0", "M2", "/u", ""])
                        text_ts.append(json.dumps(t))
                        text_js.append(json.dumps(t))
                        v += t
                if len(text_ts) == 1 and not text_ts[0].startswith(("`", '"')):
                    text_ts.append('""')
                    text_js.append('""')
                init, val = ("sexpr", " + ".join(text_ts), " + ".join(text_js), v), "s:" + v
            else:
                a, b = rng.below(8), 1 + rng.below(4)
                text, v = rng.choice([("%d << %d" % (a, b), a << b), ("%d | %d" % (a, b), a | b), ("%d + %d * 2" % (a, b), a + b * 2),
                                      ("'abc'.length + %d" % a, 3 + a), ("~%d" % a, ~a), ("%d %% %d" % (a + 5, b), (a + 5) % b)])
                init, val = ("expr", text, v), v
            ms.append((name, init))
            values[name] = val
            prev = val if isinstance(val, (int, float)) else None
            if init[0] == "auto" and prev is None:
                prev = None
        names += [m[0] for m in ms]
        decls.append(ms)
    return decls, values


def enum_ts(decls, name="E"):
    out = []
    for ms in decls:
        items = []
        for n, init in ms:
            if init[0] == "auto":
                items.append(n)
            elif init[0] == "num":
                items.append("%s = %s" % (n, init[1]))
            elif init[0] == "str":
                items.append("%s = %s" % (n, json.dumps(init[1], ensure_ascii=False)))
            elif init[0] == "ref":
                items.append("%s = %s%s" % (n, (name + ".") if init[2] else "", init[1]))
            else:
                items.append("%s = %s" % (n, init[1]))
        out.append("enum %s { %s }" % (name, ", ".join(items)))
    return "\n".join(out)


def enum_js(decls, name="E"):
    out = ["var %s;" % name]
    for ms in decls:
        body, prev = [], "-1"
        for n, init in ms:
            if init[0] == "auto":
                body.append('%s[%s["%s"] = %s + 1] = "%s";' % (name, name, n, prev, n))
                prev = '%s["%s"]' % (name, n)
            elif init[0] == "str":
                body.append('%s["%s"] = %s;' % (name, n, json.dumps(init[1], ensure_ascii=False)))
                prev = None
            elif init[0] == "sexpr":
                body.append('%s["%s"] = %s;' % (name, n, init[2].replace("E.", name + ".")))
                prev = None
            else:
                expr = init[1] if init[0] != "ref" else "%s.%s" % (name, init[1])
                if init[0] == "ref":
                    # tsc decides reverse mapping statically: a string-valued member referenced gets none
                    body.append('(typeof %s === "string") ? (%s["%s"] = %s) : (%s[%s["%s"] = %s] = "%s");' % (expr, name, n, expr, name, name, n, expr, n))
                else:
                    body.append('%s[%s["%s"] = %s] = "%s";' % (name, name, n, expr, n))
                prev = '%s["%s"]' % (name, n)
        out.append("(function (%s) { %s })(%s || (%s = {}));" % (name, " ".join(body), name, name))
    return "\n".join(out)


OBSERVE = ("\nJSON.stringify(Object.keys(E).sort().map((k) => [k, typeof E[k] === 'number' ? 'n:' + E[k] : 's:' + E[k]]))")


def coq_decl(decls):
    """names as numbers; string literals as numbers via a table"""
    idx, strs, out = {}, {}, []
    for ms in decls:
        items = []
        for n, init in ms:
            i = idx.setdefault(n, len(idx))
            if init[0] == "auto":
                items.append("(%d%%nat, Auto)" % i)
            elif init[0] in ("num", "expr"):
                v = init[2]
                if isinstance(v, float):
                    return None, None, None           # the model's numbers are integers
                items.append("(%d%%nat, Num (%d)%%Z)" % (i, v))
            elif init[0] == "str":
                items.append("(%d%%nat, Str %d%%nat)" % (i, strs.setdefault(init[1], len(strs))))
            elif init[0] == "sexpr":
                items.append("(%d%%nat, Str %d%%nat)" % (i, strs.setdefault(init[3], len(strs))))
            else:
                items.append("(%d%%nat, Ref %d%%nat)" % (i, idx[init[1]]))
        out.append("[%s]" % "; ".join(items))
    return "[%s]" % "; ".join(out), idx, strs


# ---- namespaces, parameter properties, abstract classes: (name, TypeScript, emitted JavaScript) ----------
PAIRS = [
    ("ns-basic", "namespace N { export const a = 1; export function f() { return a + 1; } const hidden = 5; export const b = hidden * 2; } JSON.stringify([N.a, N.f(), N.b, Object.keys(N).sort(), typeof (N as any).hidden])",
     "var N; (function (N) { N.a = 1; function f() { return N.a + 1; } N.f = f; const hidden = 5; N.b = hidden * 2; })(N || (N = {})); JSON.stringify([N.a, N.f(), N.b, Object.keys(N).sort(), typeof N.hidden])"),
    ("ns-nested", "namespace A { export namespace B { export const v = 1; export namespace C { export const w = v + 1; } } export const u = B.C.w + 1; } JSON.stringify([A.B.v, A.B.C.w, A.u, Object.keys(A).sort(), Object.keys(A.B).sort()])",
     "var A; (function (A) { let B; (function (B) { B.v = 1; let C; (function (C) { C.w = B.v + 1; })(C = B.C || (B.C = {})); })(B = A.B || (A.B = {})); A.u = B.C.w + 1; })(A || (A = {})); JSON.stringify([A.B.v, A.B.C.w, A.u, Object.keys(A).sort(), Object.keys(A.B).sort()])"),
    ("ns-dotted", "namespace X.Y.Z { export const q = 3; } JSON.stringify([X.Y.Z.q, Object.keys(X), Object.keys(X.Y)])",
     "var X; (function (X) { let Y; (function (Y) { let Z; (function (Z) { Z.q = 3; })(Z = Y.Z || (Y.Z = {})); })(Y = X.Y || (X.Y = {})); })(X || (X = {})); JSON.stringify([X.Y.Z.q, Object.keys(X), Object.keys(X.Y)])"),
    ("ns-merge", "namespace M { export const a = 1; } namespace M { export const b = a + 1; } namespace M { export function sum() { return a + b; } } JSON.stringify([M.a, M.b, M.sum(), Object.keys(M).sort()])",
     "var M; (function (M) { M.a = 1; })(M || (M = {})); (function (M) { M.b = M.a + 1; })(M || (M = {})); (function (M) { function sum() { return M.a + M.b; } M.sum = sum; })(M || (M = {})); JSON.stringify([M.a, M.b, M.sum(), Object.keys(M).sort()])"),
    ("ns-exported-let-live", "namespace L { export let n = 1; export function bump() { n++; return n; } } L.bump(); L.bump(); JSON.stringify([L.n])",
     "var L; (function (L) { L.n = 1; function bump() { L.n++; return L.n; } L.bump = bump; })(L || (L = {})); L.bump(); L.bump(); JSON.stringify([L.n])"),
    ("ns-class-enum-members", "namespace K { export class P { constructor(public v: number) {} } export enum Col { R, G = 5, B } export const p = new P(Col.B); } JSON.stringify([K.p.v, K.Col.G, K.Col[6], typeof K.P, Object.keys(K).sort()])",
     "var K; (function (K) { class P { constructor(v) { this.v = v; } } K.P = P; let Col; (function (Col) { Col[Col[\"R\"] = 0] = \"R\"; Col[Col[\"G\"] = 5] = \"G\"; Col[Col[\"B\"] = 6] = \"B\"; })(Col = K.Col || (K.Col = {})); K.p = new P(Col.B); })(K || (K = {})); JSON.stringify([K.p.v, K.Col.G, K.Col[6], typeof K.P, Object.keys(K).sort()])"),
    ("ns-function-merge", "function tool() { return 'called'; } namespace tool { export const version = 2; } JSON.stringify([tool(), tool.version])",
     "function tool() { return 'called'; } (function (tool) { tool.version = 2; })(tool || (tool = {})); JSON.stringify([tool(), tool.version])"),
    ("ns-class-merge", "class Box { static made = 0; } namespace Box { export const defaults = { w: 1 }; } JSON.stringify([Box.made, Box.defaults.w, typeof Box])",
     "class Box { static made = 0; } (function (Box) { Box.defaults = { w: 1 }; })(Box || (Box = {})); JSON.stringify([Box.made, Box.defaults.w, typeof Box])"),
    ("ns-empty-and-types-only", "namespace T { export interface I { a: number } export type U = number; } namespace Em {} JSON.stringify([typeof (globalThis as any).T, 1])",
     "JSON.stringify([typeof globalThis.T, 1])"),
    ("ns-shadowing", "const a = 'outer'; namespace S { export const a = 'inner'; export const seen = a; } JSON.stringify([a, S.a, S.seen])",
     "const a = 'outer'; var S; (function (S) { S.a = 'inner'; S.seen = S.a; })(S || (S = {})); JSON.stringify([a, S.a, S.seen])"),
    ("ns-destructured-export", "namespace D { export const { p, q: [r] } = { p: 1, q: [2] }; } JSON.stringify([D.p, D.r, Object.keys(D).sort()])",
     "var D; (function (D) { var _a; _a = { p: 1, q: [2] }, D.p = _a.p, D.r = _a.q[0]; })(D || (D = {})); JSON.stringify([D.p, D.r, Object.keys(D).sort()])"),
    ("pp-basic", "class P { constructor(public x: number, private y = 2, protected readonly z?: string, w = 9) {} } const p = new P(1) as any; JSON.stringify([p.x, p.y, p.z, 'z' in p, Object.keys(p), 'w' in p])",
     "class P { constructor(x, y = 2, z, w = 9) { this.x = x; this.y = y; this.z = z; } } const p = new P(1); JSON.stringify([p.x, p.y, p.z, 'z' in p, Object.keys(p), 'w' in p])"),
    ("pp-order-with-fields", "const log: string[] = []; class Q { a = (log.push('field a'), 1); constructor(public b: number) { log.push('body ' + this.a + this.b); } c = (log.push('field c ' + (this as any).b), 3); } new Q(2); JSON.stringify(log)",
     "const log = []; class Q { constructor(b) { this.b = b; this.a = (log.push('field a'), 1); this.c = (log.push('field c ' + this.b), 3); log.push('body ' + this.a + this.b); } } new Q(2); JSON.stringify(log)"),
    ("pp-derived", "class A { constructor(public n: number) {} } class B extends A { constructor(public m: number, n: number) { super(n); } sum() { return this.m + this.n; } } JSON.stringify([new B(1, 2).sum(), Object.keys(new B(1, 2))])",
     "class A { constructor(n) { this.n = n; } } class B extends A { constructor(m, n) { super(n); this.m = m; } sum() { return this.m + this.n; } } JSON.stringify([new B(1, 2).sum(), Object.keys(new B(1, 2))])"),
    ("pp-destructured-neighbour", "class R { constructor(readonly id: number, { a, b }: any, ...rest: number[]) { (this as any).s = a + b + rest.length; } } JSON.stringify(new R(1, { a: 2, b: 3 }, 4, 5))",
     "class R { constructor(id, { a, b }, ...rest) { this.id = id; this.s = a + b + rest.length; } } JSON.stringify(new R(1, { a: 2, b: 3 }, 4, 5))"),
    ("pp-shadowing-body", "class S { constructor(public v: number) { v = 100; (this as any).w = v; } } JSON.stringify(new S(1))",
     "class S { constructor(v) { this.v = v; v = 100; this.w = v; } } JSON.stringify(new S(1))"),
    ("abstract-basic", "abstract class Sh { abstract area(): number; describe() { return 'area ' + this.area(); } static make(): Sh { return new Sq(2); } } class Sq extends Sh { constructor(private s: number) { super(); } area() { return this.s * this.s; } } JSON.stringify([Sh.make().describe(), Object.getOwnPropertyNames(Sh.prototype).sort(), 'area' in Sh.prototype])",
     "class Sh { describe() { return 'area ' + this.area(); } static make() { return new Sq(2); } } class Sq extends Sh { constructor(s) { super(); this.s = s; } area() { return this.s * this.s; } } JSON.stringify([Sh.make().describe(), Object.getOwnPropertyNames(Sh.prototype).sort(), 'area' in Sh.prototype])"),
    ("abstract-inherit-over-parent", "class Base { hello() { return 'base'; } } abstract class Mid extends Base { abstract hello(): string; } class Leaf extends Mid { } JSON.stringify([Object.getOwnPropertyNames(Mid.prototype), (() => { try { return (new Leaf() as any).hello(); } catch (e) { return 'threw'; } })()])",
     "class Base { hello() { return 'base'; } } class Mid extends Base { } class Leaf extends Mid { } JSON.stringify([Object.getOwnPropertyNames(Mid.prototype), (() => { try { return new Leaf().hello(); } catch (e) { return 'threw'; } })()])"),
    ("abstract-property", "abstract class AP { abstract name: string; greet() { return 'hi ' + this.name; } } class CP extends AP { name = 'c'; } JSON.stringify([new CP().greet(), Object.keys(new CP())])",
     "class AP { greet() { return 'hi ' + this.name; } } class CP extends AP { constructor() { super(...arguments); this.name = 'c'; } } JSON.stringify([new CP().greet(), Object.keys(new CP())])"),
    ("enum-in-expression-positions", "enum Dir { Up = 1, Down, Left = 'L' } const o = { [Dir.Up]: 'u', [Dir.Left]: 'l' }; function f(d: Dir) { switch (d) { case Dir.Up: return 'U'; case Dir.Down: return 'D'; default: return '?'; } } JSON.stringify([o, f(Dir.Down), f(Dir.Left), Dir[2], Dir.Left, typeof Dir])",
     "var Dir; (function (Dir) { Dir[Dir[\"Up\"] = 1] = \"Up\"; Dir[Dir[\"Down\"] = 2] = \"Down\"; Dir[\"Left\"] = \"L\"; })(Dir || (Dir = {})); const o = { [Dir.Up]: 'u', [Dir.Left]: 'l' }; function f(d) { switch (d) { case Dir.Up: return 'U'; case Dir.Down: return 'D'; default: return '?'; } } JSON.stringify([o, f(Dir.Down), f(Dir.Left), Dir[2], Dir.Left, typeof Dir])"),
    ("enum-const", "const enum CE { A = 1, B = A * 4, C } JSON.stringify([CE.A, CE.B, CE.C])", "JSON.stringify([1, 4, 5])"),
    ("enum-exported-and-merged-ns", "enum Lv { Lo, Hi } namespace Lv { export function parse(s: string) { return s === 'hi' ? Lv.Hi : Lv.Lo; } } JSON.stringify([Lv.parse('hi'), Lv[1], Object.keys(Lv).sort()])",
     "var Lv; (function (Lv) { Lv[Lv[\"Lo\"] = 0] = \"Lo\"; Lv[Lv[\"Hi\"] = 1] = \"Hi\"; })(Lv || (Lv = {})); (function (Lv) { function parse(s) { return s === 'hi' ? Lv.Hi : Lv.Lo; } Lv.parse = parse; })(Lv || (Lv = {})); JSON.stringify([Lv.parse('hi'), Lv[1], Object.keys(Lv).sort()])"),
    ("enum-self-reference-shadow", "enum E { A = 1 } function f() { enum E { X = 7, Y = E.X + 1 } return E.Y; } JSON.stringify([f(), E.A])",
     "var E; (function (E) { E[E[\"A\"] = 1] = \"A\"; })(E || (E = {})); function f() { let E; (function (E) { E[E[\"X\"] = 7] = \"X\"; E[E[\"Y\"] = E.X + 1] = \"Y\"; })(E || (E = {})); return E.Y; } JSON.stringify([f(), E.A])"),
]


def node_eval(src):
    p = subprocess.run(["node", "-e", "try { console.log(eval(%s)); } catch (e) { console.log('!' + e.name); }" % json.dumps(src)],
                       capture_output=True, text=True, timeout=30)
    return p.stdout.strip()


def run(chk):
    chk.assumptions = [
        "the emit is TypeScript's standard one (target ES2022, no preserveConstEnums, useDefineForClassFields=false semantics for parameter "
        "properties preceding field initialisers); the hand-written JavaScript of stream B follows it",
        "the property SET of an enum object is compared (sorted keys): the enumeration order of numeric reverse keys is left to C01",
        "the Coq model has integer numbers: enum declarations with fractional values are compared with node only",
    ]
    chk.prove(["theories/TsEmit/Properties.vo"], ["theories/TsEmit/Properties.v"])
    ok, out, chk.th = common.build_harness("debug")
    if not ok:
        chk.proof_breaks.append("harness does not build against /repo: " + out[-800:])
        return chk.finish()
    rng = common.Rng(chk.seed, PID)
    stats = {"enum_cases": 0, "enum_vs_coq": 0, "pairs": len(PAIRS), "disagreements": 0}

    def request(src, path="/c04.ts"):
        return {"runs": [{"src": src, "path": path}]}

    if chk.replay:
        r = json.load(open(chk.replay))
        res, err = c11.run_seq(chk, [request(r["typescript"]), request(r["javascript"])], "replay04")
        a, b = c11.view(res[0]["runs"][0]), c11.view(res[1]["runs"][0])
        n = node_eval(r["javascript"])
        log("replay: typescript on tsrun %r" % (a.get("json") if a["status"] == "complete" else a,))
        log("replay: emit on tsrun %r ; emit on node %r" % (b.get("json") if b["status"] == "complete" else b, n))
        if not (a["status"] == "complete" and a.get("json") == n):
            chk.violation(dict(r, observed={"typescript_on_tsrun": a, "emit_on_node": n, "emit_on_tsrun": b}))
        return chk.finish()

    # ---- A: enums ---------------------------------------------------------------------------------------
    n_enum = 120 if chk.tier == "quick" else 8000
    enums = [gen_enum(rng, merged=(k % 3 == 0)) for k in range(n_enum)]
    fixed = [[[("A", ("auto",)), ("B", ("num", "5", 5)), ("C", ("auto",)), ("D", ("str", "s")), ("F", ("ref", "B", False)), ("G", ("num", "5", 5))], [("H", ("num", "0", 0))]],
             [[("A", ("num", "1", 1)), ("B", ("expr", "A << 1" if False else "1 << 1", 2)), ("C", ("ref", "A", True))]],
             [[("X", ("num", "7", 7)), ("Y", ("expr", "3 + 4", 7)), ("Z", ("auto",))]]]
    enums = [(d, None) for d in fixed] + enums
    reqs, items, coq_index = [], [], []
    for k, (decls, _) in enumerate(enums):
        ts, js = enum_ts(decls) + OBSERVE, enum_js(decls) + OBSERVE
        reqs.append(request(ts))
        reqs.append(request(js, "/c04.js"))
        cd, idx, strs = coq_decl(decls)
        if cd:
            coq_index.append((k, idx, strs))
            items.append("one %s" % cd)
    lines = ["From Coq Require Import List String ZArith.", "From TsrunV Require Import Base.Render TsEmit.Enum.", "Import ListNotations.",
             "Local Open Scope string_scope.",
             "Definition showk (k : key) : string := match k with KName n => \"N\" ++ string_of_nat n | KNum v => \"#\" ++ string_of_Z v end.",
             "Definition showv (v : value) : string := match v with VNum z => \"n\" ++ string_of_Z z | VStr s => \"s\" ++ string_of_nat s | VName n => \"m\" ++ string_of_nat n end.",
             "Definition one (ds : list (list (nat * init))) : string := match declare_all [] ds with None => \"rejected\" | "
             "Some o => String.concat \",\" (map (fun kv => showk (fst kv) ++ \"=\" ++ showv (snd kv)) o) end.",
             "Definition cases : list string := [", ";\n".join(items) + "].", "Eval vm_compute in (lines cases)."]
    model, out = common.run_cases_v("c04_enum", "\n".join(lines))
    if model is None:
        raise common.FrameworkError("cases.v for TsEmit.Enum failed: " + out[-600:])
    res, err = c11.run_seq(chk, reqs, "c04e", chunk=40)
    coq_by_case = {k: (m, idx, strs) for (k, idx, strs), m in zip(coq_index, model)}
    for k, (decls, _) in enumerate(enums):
        stats["enum_cases"] += 1
        a, b = c11.view(res[2 * k]["runs"][0]), c11.view(res[2 * k + 1]["runs"][0])
        ts, js = enum_ts(decls) + OBSERVE, enum_js(decls) + OBSERVE
        n = node_eval(js)
        got = a.get("json") if a["status"] == "complete" else "!" + str(a.get("class"))
        bad = None
        if got != n:
            bad = "the enum object on tsrun differs from its emit on node"
        elif k in coq_by_case and not n.startswith("!"):
            m, idx, strs = coq_by_case[k]
            stats["enum_vs_coq"] += 1
            names = {v: kk for kk, v in idx.items()}
            strtab = {v: kk for kk, v in strs.items()}
            want = []
            if m != "rejected":
                for ent in m.split(","):
                    kk, vv = ent.split("=")
                    key = names[int(kk[1:])] if kk[0] == "N" else kk[1:]
                    val = ("n:" + vv[1:]) if vv[0] == "n" else ("s:" + (strtab[int(vv[1:])] if vv[0] == "s" else names[int(vv[1:])]))
                    want.append([key, val])
                want = json.dumps(sorted(want, key=lambda e: js_sort_key(e[0])), separators=(",", ":"), ensure_ascii=False)
                if want != n:
                    chk.proof_breaks.append("correspondence TsEmit.Enum vs the emit on node for %s: model %s node %s" % (enum_ts(decls), want, n))
        if bad:
            stats["disagreements"] += 1
            if len(chk.violations) < 5:
                chk.violation({"typescript": ts, "javascript": js, "observed": {"typescript_on_tsrun": a, "emit_on_node": n, "emit_on_tsrun": b}, "what": bad})

    # ---- B: namespaces, parameter properties, abstract classes ---------------------------------------------
    reqs = []
    for name, ts, js in PAIRS:
        reqs.append(request(ts))
        reqs.append(request(js, "/c04.js"))
    res, err = c11.run_seq(chk, reqs, "c04p", chunk=40)
    known_hit = set()
    kp = {e["class"]: e for e in chk.known}
    for k, (name, ts, js) in enumerate(PAIRS):
        a, b = c11.view(res[2 * k]["runs"][0]), c11.view(res[2 * k + 1]["runs"][0])
        n = node_eval(js)
        got = a.get("json") if a["status"] == "complete" else "!" + str(a.get("class")) + ":" + str(a.get("message"))
        if got != n:
            stats["disagreements"] += 1
            cls = KNOWN_PAIRS.get(name)
            if cls:
                known_hit.add(cls)
                continue
            if len(chk.violations) < 8:
                chk.violation({"pair": name, "typescript": ts, "javascript": js,
                               "observed": {"typescript_on_tsrun": got, "emit_on_node": n, "emit_on_tsrun": b.get("json") if b["status"] == "complete" else b},
                               "what": "a TypeScript run-time construct behaves differently from its JavaScript emit"})
    for cls, e in kp.items():
        if cls in known_hit:
            chk.known_finding(e)
        else:
            chk.stale_known.append("%s no longer reproduces" % cls)
    chk.samples.append({"typescript": enum_ts(enums[5][0]), "emit": enum_js(enums[5][0])})
    chk.coverage.update({
        "evaluations": 2 * (len(enums) + len(PAIRS)), "distinct_nontrivial": len(enums) + len(PAIRS),
        "rule": "%d enum declarations (3 fixed + PRNG: 1-5 members, every third case merged declarations; auto / numeric / string / reference / "
                "constant-expression members) three ways: tsrun, TsEmit.Enum in Coq, emit on node; %d hand-emitted pairs for namespaces, "
                "parameter properties, abstract classes and enums in context" % (len(enums), len(PAIRS)),
        "exhaustive": False, "stats": stats,
    })
    return chk.finish()


def js_sort_key(k):
    return k


KNOWN_PAIRS = {
    "ns-exported-let-live": "K-namespace", "ns-merge": "K-namespace", "ns-dotted": "K-namespace", "ns-destructured-export": "K-namespace",
    "pp-basic": "K-parameter-properties", "pp-derived": "K-parameter-properties", "pp-destructured-neighbour": "K-parameter-properties",
}
