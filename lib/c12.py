"""C12 — execution is deterministic and interpreter instances are isolated.

Proof: coq/theories/Iso/Properties.v: an instance whose step is a function of its own state
shows, under every interleaving with anything else, exactly the trace it shows alone
(c12_isolation, c12_schedule_irrelevant - for every pair of machines and every schedule).
That an Interpreter is such an instance is read from the source on every run: the only
process-wide / environment-dependent state in non-test code is the clock behind the
replaceable providers, and the two hash-map iterations that can influence execution order run
over FxHashMap (regenerated facts, proved by reflexivity and pinned by FactsAgreeC12).
Tie / search: every program's full trace (StepResult kinds with the number of Continue steps
between them, order ids, final value or error text, console, step count, live objects) is
recorded alone and must be identical (1) in a second process, (2) interleaved with other
programs in one thread under several budget schedules, (3) in concurrent threads, (4) after
other interpreters were created, run, failed and dropped and while a suspended one is alive.
Time and random providers are fixed (counting clock, seeded xorshift)."""
import json
import os

import common
from common import log
import c07
import c14
import genprog

PID = "C12"

EXTRA = {
    "date-random": "const a = Date.now(); const b = Math.random(); const c = Math.random(); const d = new Date().getTime(); [a, b, c, d - a].join()",
    "random-loop": "let s = 0; for (let i = 0; i < 50; i++) { s += Math.floor(Math.random() * 100); } s",
    "object-key-order": "const o: any = {}; for (const k of ['b', 'a', '2', '1', 'c']) o[k] = k; Object.keys(o).join() + '|' + JSON.stringify(o)",
    "map-set-order": "const m = new Map(); const s = new Set(); for (const k of ['x', 'q', 'a', 'z']) { m.set(k, 1); s.add(k + k); } [...m.keys()].join() + '|' + [...s].join()",
    "promise-wakeup-order": "const log: string[] = []; const ps = [3, 1, 2].map((n) => Promise.resolve(n).then((v) => { log.push('a' + v); return v; })); await Promise.all(ps); ps.forEach((p, i) => p.then(() => log.push('b' + i))); await null; await null; log.join()",
    "many-waiters": "import { order } from \"tsrun:host\"; const log: string[] = []; async function w(n: number) { const v = await order(n); log.push(n + ':' + v); } await Promise.all([w(5), w(3), w(9), w(1)]); log.join()",
    "symbol-ids": "const a = Symbol('a'), b = Symbol('b'); const o = { [b]: 1, [a]: 2 }; Object.getOwnPropertySymbols(o).map((s) => s.description).join() + String(a === Symbol('a'))",
    "symbol-key-order": "const syms = ['a', 'b', 'c', 'd', 'e', 'f', 'g'].map((n) => Symbol(n)); const o: any = {}; for (const s of syms) o[s] = 1; const r = Symbol.for('reg'); o[r] = 2; [Object.getOwnPropertySymbols(o).map((s) => s.description).join(), Reflect.ownKeys({ ...o }).length, Object.getOwnPropertySymbols(Object.assign({}, o)).map((s) => String(s.description)).join('')].join('|')",
    "symbols-in-map-set": "const ks = [1, 2, 3, 4, 5].map((i) => Symbol('k' + i)); const m = new Map(ks.map((k, i) => [k, i] as any)); const st = new Set(ks); const o: any = {}; ks.forEach((k, i) => { o[k] = i; o['p' + i] = i; }); [[...m.keys()].map((k: any) => k.description).join(), [...st].length, Object.getOwnPropertySymbols(o).map((k) => k.description).join(), Object.keys(o).join()].join('|')",
    "error-stack-text": "function f() { return new Error('e'); } const e = f(); String(e.stack).split('\\n').length + ':' + e.message",
    "sort-stability": "[5, 1, 4, 1, 3].map((v, i) => ({ v, i })).sort((a, b) => a.v - b.v).map((x) => x.v + '' + x.i).join()",
    "string-interning": "const parts: string[] = []; for (let i = 0; i < 30; i++) parts.push('k' + (i % 7)); const o: any = {}; parts.forEach((p) => o[p] = (o[p] || 0) + 1); JSON.stringify(o)",
    "uncaught": "function f() { throw new RangeError('r'); } f();",
    "syntax": "let = 1;",
}


def same(a, b):
    return a == b


def run_iso(chk, reqs, tag):
    from concurrent.futures import ThreadPoolExecutor
    d = os.path.join(common.OUT, PID)
    os.makedirs(d, exist_ok=True)

    def work(item):
        k, r = item
        rf, of = os.path.join(d, "%s-%d.req" % (tag, k)), os.path.join(d, "%s-%d.res" % (tag, k))
        open(rf, "w").write(json.dumps(r) + "\n")
        rc, out = common.sh([chk.th, "iso", rf, of], timeout=600)
        res = [json.loads(l) for l in open(of) if l.strip()] if os.path.exists(of) else []
        for p in (rf, of):
            if os.path.exists(p):
                os.remove(p)
        return res[0] if res else {"error": "iso harness died (rc=%s): %s" % (rc, out[-200:])}

    with ThreadPoolExecutor(8) as ex:
        return list(ex.map(work, list(enumerate(reqs))))


def run(chk):
    chk.assumptions = [
        "the host supplies the same responses (twice the numeric payload) and fixed time/random providers; the std providers read the "
        "system clock by design and are outside the property",
        "the step function of an instance is a function of that instance's state: discharged for the source by the regenerated facts "
        "(no statics, thread-locals, atomics, lazily initialised cells or randomly seeded hashers in non-test code) and tested by the traces",
    ]
    chk.prove(["theories/Iso/Properties.vo"], ["theories/Iso/Properties.v"], facts=["C12"])
    ok, out, chk.th = common.build_harness("debug")
    if not ok:
        chk.proof_breaks.append("harness does not build against /repo: " + out[-800:])
        return chk.finish()
    rng = common.Rng(chk.seed, PID)
    progs = []
    for name, src in EXTRA.items():
        progs.append((("extra:" + name), {"src": src, "path": None if name in ("uncaught", "syntax") else "/c12_%s.ts" % name}))
    for name, src in c14.CORPUS.items():
        progs.append(("corpus:" + name, {"src": src, "path": "/c12_%s.ts" % name}))
    for name, src in c07.T.items():
        progs.append(("await:" + name, {"src": c07.H + src, "path": "/c12_t.ts"}))
    # modules: the order in which export names come out (namespace keys, host export list) is part of the trace
    names = ["area", "sides", "zeta", "alpha", "mid", "b2", "k9"]
    for k in range(1, 7):
        for variant in range(3):
            ex = names[:k] if variant != 2 else list(reversed(names[:k]))
            if variant == 0:
                lib = "".join("export const %s = %d;\n" % (n, i) for i, n in enumerate(ex))
            elif variant == 1:
                lib = "".join("export function %s() { return %d; }\n" % (n, i) for i, n in enumerate(ex))
            else:
                lib = "".join("const %s = %d;\n" % (n, i) for i, n in enumerate(ex)) + "export { %s };\n" % ", ".join(ex)
            main = ("import * as ns from './lib%d';\nexport const first = 1;\nexport function second() { return 2; }\n"
                    "const viaForIn: string[] = []; for (const key in ns) viaForIn.push(key);\n"
                    "[Object.keys(ns).join(), viaForIn.join(), Object.entries(ns).map((e) => e[0]).join(), Object.keys({ ...ns }).join()].join('|')" % k)
            progs.append(("modules:%d:%d" % (k, variant), {"src": main, "path": "/c12m/main.ts", "modules": {"/c12m/lib%d" % k: lib}}))
    n_gen = 30 if chk.tier == "quick" else 1500
    for i in range(n_gen):
        g = genprog.Gen(rng, features={}, ts=True)
        progs.append(("generated:%d" % i, {"src": g.program(5, 3), "path": "/c12_g%d.ts" % i}))

    if chk.replay:
        r = json.load(open(chk.replay))
        res = run_iso(chk, [{"programs": r["programs"], "mode": "solo"}, dict(r["request"])], "replay12")
        a, b = res[0].get("traces"), res[1].get("traces")
        log("replay: solo %s" % json.dumps(a)[:400])
        log("replay: %s %s" % (r["request"].get("mode"), json.dumps(b)[:400]))
        if a != b:
            chk.violation(dict(r, observed={"solo": a, "other": b}))
        return chk.finish()

    plist = [p for _, p in progs]
    groups = [plist[k:k + 6] for k in range(0, len(plist), 6)]
    reqs, meta = [], []
    scheds = [[1], [1, 7, 3], [50, 1], [2, 2, 2, 400]] if chk.tier == "quick" else [[1], [1, 7, 3], [50, 1], [2, 2, 2, 400], [13], [1000, 1], [3, 1, 4, 1, 5, 9, 2, 6]]
    for gi, g in enumerate(groups):
        reqs.append({"programs": g, "mode": "solo"})
        meta.append((gi, "solo", None))
        reqs.append({"programs": g, "mode": "solo"})
        meta.append((gi, "second-process", None))
        for sc in scheds:
            reqs.append({"programs": g, "mode": "interleave", "schedule": sc})
            meta.append((gi, "interleave", sc))
        reqs.append({"programs": list(reversed(g)), "mode": "interleave", "schedule": [5, 1]})
        meta.append((gi, "interleave-reversed", [5, 1]))
        reqs.append({"programs": g, "mode": "threads"})
        meta.append((gi, "threads", None))
        reqs.append({"programs": g, "mode": "lifetimes"})
        meta.append((gi, "lifetimes", None))
    res = run_iso(chk, reqs, "i12")
    stats = {"programs": len(progs), "requests": len(reqs), "contexts": {}, "disagreements": 0, "final_kinds": {}, "suspending": 0}
    solo = {}
    for (gi, mode, sc), o, rq in zip(meta, res, reqs):
        if "error" in o:
            chk.violation({"request": rq, "programs": rq["programs"], "what": "harness: " + str(o["error"])})
            continue
        tr = o["traces"]
        if mode == "interleave-reversed":
            tr = list(reversed(tr))
        if mode == "solo":
            solo[gi] = tr
            for t in tr:
                k = t["final"].get("status")
                stats["final_kinds"][k] = stats["final_kinds"].get(k, 0) + 1
                stats["suspending"] += " S[" in (" " + t["kinds"])
            continue
        stats["contexts"][mode] = stats["contexts"].get(mode, 0) + len(tr)
        for j, (a, b) in enumerate(zip(solo[gi], tr)):
            if a != b:
                stats["disagreements"] += 1
                if len(chk.violations) < 6:
                    name = progs[gi * 6 + j][0]
                    diff = [k for k in a if a.get(k) != b.get(k)]
                    chk.violation({"program_name": name, "programs": rq["programs"], "request": rq, "context": mode, "schedule": sc,
                                   "differs_in": diff, "observed": {"alone": {k: a[k] for k in diff}, "in_context": {k: b.get(k) for k in diff}},
                                   "what": "the trace of a program depends on what else runs in the process (or differs between two processes)"})
    chk.samples.append({"program": progs[3][0], "trace_alone": solo.get(0, [{}] * 4)[3]})
    chk.coverage.update({
        "evaluations": sum(stats["contexts"].values()) + len(progs), "distinct_nontrivial": len(progs),
        "rule": "%d programs (12 order/clock/random/hash-order probes, C14 corpus, C07 await templates with orders, %d generated) in groups of 6: "
                "alone, in a second process, interleaved in one thread under %d budget schedules (+ reversed creation order), in concurrent "
                "threads, after/among other interpreter lifetimes; full traces identical" % (len(progs), n_gen, len(scheds)),
        "exhaustive": False, "stats": stats,
    })
    return chk.finish()
