"""C20 — error reports point at the code that failed.

Proof: coq/theories/Pos/Properties.v: for every source text (any mix of line terminators and
other characters) the tracked position of an offset is (1 + terminators before it, 1 + characters
since the last one); positions are monotone in the offset, so whatever starts inside a span is
reported inside the span's positions, and different offsets on a line have different columns; a
stack of calls with completed calls in between lists exactly the active ones, innermost first.
Tie / search: programs with a fault planted at a generator-known offset - a call chain of depth
1..12 over function declarations, methods, static methods, block- and expression-bodied arrows,
constructors, across up to three modules - under layout transformations (token separators drawn
from spaces, tabs, LF, CRLF, blank lines, line and block comments, wide characters in comments
and strings before the fault). Expected positions are computed by the counting specification in
Python, which is itself compared with Pos.Model.pos_at evaluated in Coq on the same texts.
Checked on the implementation: error class; every stack frame's function name, file and a
position inside the frame's call (or fault) expression; exactly the active calls, innermost
first; syntax errors at the exact position of the offending token."""
import json
import os

import common
from common import log
import c11

PID = "C20"
SEPS = [" ", " ", " ", "\n", "\n  ", "\r\n", "\t", "  \t ", "\n\n", " /* c */ ", " /* wide: 日本語 éß */ ", "// line comment\n", "// ünï 😀\r\n    ", "\n\t\t"]
NL = {"\n", "\u2028", "\u2029"}


def pos_of(text, off):
    """the counting specification (Pos.Model.spec_pos)"""
    before = text[:off]
    line = 1 + sum(1 for c in before if c in NL)
    last = max(before.rfind("\n"), before.rfind("\u2028"), before.rfind("\u2029"))
    return (line, off - last)


class Src:
    def __init__(self, rng, layout):
        self.rng, self.parts, self.n, self.layout, self.last = rng, [], 0, layout, None

    def sep(self, same_line=False):
        if not self.layout:
            return " "
        if same_line:          # restricted productions: no line terminator after `return`, before `=>`
            return self.rng.choice([" ", "  ", "\t", " /* c */ ", " /* wide: 日本語 */ "])
        return self.rng.choice(SEPS)

    def emit(self, *toks):
        """tokens separated by layout; returns (start, end) char offsets of the emitted token run"""
        start = None
        for t in toks:
            s = self.sep(same_line=(self.last == "return" or t == "=>"))
            self.last = t
            self.parts.append(s)
            self.n += len(s)
            if start is None:
                start = self.n
            self.parts.append(t)
            self.n += len(t)
        return start, self.n

    def raw(self, s):
        self.parts.append(s)
        self.n += len(s)

    def text(self):
        return "".join(self.parts)


KINDS = ["decl", "method", "static", "arrow-block", "arrow-expr", "nested", "getter-less-ctor"]


def gen_case(rng, layout, depth, nmods):
    """returns (files: {path: text}, main path, expected frames innermost first: (name, file, (start,end)), fault class)"""
    mods = [Src(rng, layout) for _ in range(nmods)]
    paths = ["/src/main.ts"] + ["/src/m%d.ts" % i for i in range(1, nmods)]
    home = [0]                                                     # function i lives in module home[i]; f0 in main;
    for _ in range(depth - 1):                                     # callees never live in an earlier module: imports are acyclic
        home.append(max(home[-1], rng.below(nmods)))
    kinds = [rng.choice(KINDS) for _ in range(depth)]
    fault = rng.choice(["null-prop", "undef-call", "null-call", "undef-prop"])
    names = ["fn%d" % i for i in range(depth)]
    frames = [None] * depth
    # define functions from the innermost outwards so that imports are available; each module gets its functions in order
    order = list(range(depth - 1, -1, -1))
    imports = {k: set() for k in range(nmods)}
    for i in range(depth - 1):
        if home[i] != home[i + 1]:
            imports[home[i]].add(i + 1)
    for k in range(nmods):
        s = mods[k]
        if layout and rng.chance(1, 2):
            s.raw("// header – ünïcödé 日本語\n/* block\n   comment */\n")
        for j in sorted(imports[k]):
            s.emit("import", "{", "call%d" % j, "}", "from", '"./m%d.ts"' % home[j] if home[j] else '"./main.ts"', ";")
    for i in order:
        s = mods[home[i]]
        kind = kinds[i]
        name = names[i]
        # the body: padding, then the call to the next function (or the fault)
        def body(s):
            s.emit("const", "pad%d" % i, "=", '"日本 ✓ %d"' % i, ";")
            if layout and rng.chance(1, 2):
                s.emit("let", "q%d" % i, "=", "[", "1", ",", "2", "]", ".", "length", ";")
            s.emit("return")
            if i == depth - 1:
                if fault == "null-prop":
                    r = s.emit("(", "null", "as", "any", ")", ".", "missing")
                elif fault == "undef-prop":
                    r = s.emit("(", "undefined", "as", "any", ")", ".", "missing", ".", "deeper")
                elif fault == "undef-call":
                    r = s.emit("notDefinedAnywhere", "(", "a", ",", "1", ")")
                else:
                    r = s.emit("(", "null", "as", "any", ")", "(", ")")
            else:
                r = s.emit("call%d" % (i + 1), "(", "a", "+", "1", ")")
            return r
        if kind == "decl":
            s.emit("function", name, "(", "a", ":", "any", ")", ":", "any", "{")
            r = body_ret(s, body)
            s.emit(";", "}")
            s.emit("export", "const", "call%d" % i, "=", name, ";")
            fname = name
        elif kind == "method":
            s.emit("class", "K%d" % i, "{", name, "(", "a", ":", "any", ")", ":", "any", "{")
            r = body_ret(s, body)
            s.emit(";", "}", "}")
            s.emit("export", "const", "call%d" % i, "=", "(", "a", ":", "any", ")", "=>", "new", "K%d" % i, "(", ")", ".", name, "(", "a", ")", ";")
            fname = name
        elif kind == "static":
            s.emit("class", "S%d" % i, "{", "static", name, "(", "a", ":", "any", ")", ":", "any", "{")
            r = body_ret(s, body)
            s.emit(";", "}", "}")
            s.emit("export", "const", "call%d" % i, "=", "(", "a", ":", "any", ")", "=>", "S%d" % i, ".", name, "(", "a", ")", ";")
            fname = name
        elif kind == "arrow-block":
            s.emit("const", name, "=", "(", "a", ":", "any", ")", ":", "any", "=>", "{")
            r = body_ret(s, body)
            s.emit(";", "}", ";")
            s.emit("export", "const", "call%d" % i, "=", name, ";")
            fname = name
        elif kind == "arrow-expr":
            s.emit("const", name, "=", "(", "a", ":", "any", ")", ":", "any", "=>")
            r = body_only(s, i, depth, fault)
            s.emit(";")
            s.emit("export", "const", "call%d" % i, "=", name, ";")
            fname = name
        elif kind == "nested":
            s.emit("function", "outer%d" % i, "(", "a", ":", "any", ")", ":", "any", "{", "function", name, "(", "a", ":", "any", ")", ":", "any", "{")
            r = body_ret(s, body)
            s.emit(";", "}", "return", name, ";", "}")
            s.emit("export", "const", "call%d" % i, "=", "outer%d" % i, "(", "0", ")", ";")
            fname = name
        else:
            s.emit("class", "C%d" % i, "{", "v", ":", "any", ";", "constructor", "(", "a", ":", "any", ")", "{", "this", ".", "v", "=")
            r = body_only(s, i, depth, fault)
            s.emit(";", "}", "}")
            s.emit("export", "const", "call%d" % i, "=", "(", "a", ":", "any", ")", "=>", "new", "C%d" % i, "(", "a", ")", ".", "v", ";")
            fname = "C%d" % i
        frames[i] = (fname, home[i], r, kind)
    # wrapper arrows add frames of their own between fn_i and its caller
    main = mods[0]
    top = main.emit("call0", "(", "1", ")")
    main.emit(";")
    files = {paths[k]: mods[k].text() for k in range(nmods)}
    return files, paths, frames, top, fault


def body_ret(s, body):
    return body(s)


def body_only(s, i, depth, fault):
    if i == depth - 1:
        if fault == "null-prop":
            return s.emit("(", "null", "as", "any", ")", ".", "missing")
        if fault == "undef-prop":
            return s.emit("(", "undefined", "as", "any", ")", ".", "missing", ".", "deeper")
        if fault == "undef-call":
            return s.emit("notDefinedAnywhere", "(", "a", ",", "1", ")")
        return s.emit("(", "null", "as", "any", ")", "(", ")")
    return s.emit("call%d" % (i + 1), "(", "a", "+", "1", ")")


WRAPPED = {"method", "static", "getter-less-ctor"}     # call<i> is a wrapper arrow: one extra frame named call<i>


def inside(text, rng_, reported):
    lo, hi = pos_of(text, rng_[0]), pos_of(text, max(rng_[0], rng_[1] - 1))
    return lo <= tuple(reported) <= hi


SYNTAX = [("missing-init", ["let", "bad", "=", ";"], 3), ("dangling-plus", ["const", "w", "=", "(", "1", "+", ")", ";"], 6),
          ("let-eq", ["let", "=", "5", ";"], 1), ("unclosed-call-arg", ["f", "(", "1", ",", ",", ")", ";"], 4),
          ("bad-arrow", ["const", "g", "=", "(", "a", ")", "=>", ";"], 7), ("stray-rbrace-expr", ["const", "o", "=", "{", "a", ":", "}", ";"], 6)]


def run(chk):
    chk.assumptions = [
        "only errors that carry a location or stack are judged (TypeError / ReferenceError raised by the VM, SyntaxError from the parser); "
        "a thrown Error object reaches the host without a stack and is outside the property's premise",
        "a frame's position must lie inside the call expression that is active in that frame (for the innermost frame: the faulting "
        "expression); which character inside the expression is chosen is not prescribed",
        "the Python position function is the counting specification; it is compared with Pos.Model.pos_at evaluated in Coq on every generated text",
    ]
    chk.prove(["theories/Pos/Properties.vo"], ["theories/Pos/Properties.v"])
    ok, out, chk.th = common.build_harness("debug")
    if not ok:
        chk.proof_breaks.append("harness does not build against /repo: " + out[-800:])
        return chk.finish()
    rng = common.Rng(chk.seed, PID)
    n_cases = 150 if chk.tier == "quick" else 8000
    stats = {"runtime_cases": 0, "syntax_cases": 0, "frames_checked": 0, "positions_vs_coq": 0, "depths": {}, "kinds": {}, "faults": {}}

    cases = []
    if chk.replay:
        r = json.load(open(chk.replay))
        cases = [r["case"]]
    else:
        for k in range(n_cases):
            layout = k % 4 != 0
            depth = 1 + rng.below(12) if k % 3 else 1 + rng.below(4)
            nmods = 1 + rng.below(3)
            files, paths, frames, top, fault = gen_case(rng, layout, depth, nmods)
            cases.append({"kind": "runtime", "files": files, "paths": paths, "frames": frames, "top": top, "fault": fault, "layout": layout})
        for k in range(n_cases // 2):
            name, toks, bad = SYNTAX[k % len(SYNTAX)]
            s = Src(rng, k % 5 != 0)
            if rng.chance(1, 2):
                s.raw("// ünï 日本語 header\n")
            s.emit("const", "ok%d" % k, "=", '"wide ✓ 日本"', ";")
            for _ in range(rng.below(3)):
                s.emit("function", "h%d" % s.n, "(", ")", "{", "return", "1", ";", "}")
            off = None
            for j, t in enumerate(toks):
                r_ = s.emit(t)
                if j == bad:
                    off = r_[0]
            s.emit("const", "after", "=", "2", ";")
            cases.append({"kind": "syntax", "name": name, "text": s.text(), "offset": off})

    # ---- the Python specification against Pos.Model.pos_at in Coq -----------------------------------
    samples = []
    for c in cases:
        if c["kind"] == "runtime":
            for (fname, home, r, kind) in c["frames"]:
                samples.append((c["files"][c["paths"][home]], r[0]))
            samples.append((c["files"][c["paths"][0]], c["top"][0]))
        else:
            samples.append((c["text"], c["offset"]))
    samples = samples[:400]
    lines = ["From Coq Require Import List String.", "From TsrunV Require Import Base.Render Pos.Model.", "Import ListNotations.",
             "Local Open Scope string_scope.",
             "Fixpoint cls (s : string) : list ch := match s with EmptyString => [] | String c r => (if Ascii.eqb c (Ascii.ascii_of_nat 110) then NL else Other) :: cls r end.",
             "Definition one (s : string) (n : nat) : string := let p := pos_at (cls s) n in string_of_nat (fst p) ++ \" \" ++ string_of_nat (snd p).",
             "Definition cases : list string := ["]
    items = []
    for text, off in samples:
        # one letter per character: n = line terminator, o = anything else (offsets are in characters)
        enc = "".join("n" if ch in NL else "o" for ch in text[:off + 3])
        items.append('one "%s" %d' % (enc, off))
    lines.append(";\n".join(items) + "].")
    lines.append("Eval vm_compute in (lines cases).")
    model, out = common.run_cases_v("c20_pos", "\n".join(lines), timeout=900)
    if model is None:
        raise common.FrameworkError("cases.v for Pos.Model failed: " + out[-600:])
    for (text, off), m in zip(samples, model):
        stats["positions_vs_coq"] += 1
        if tuple(int(x) for x in m.split()) != pos_of(text, off):
            raise common.FrameworkError("the Python position specification disagrees with Pos.Model.pos_at at offset %d: %s vs %s"
                                        % (off, pos_of(text, off), m))

    # ---- the implementation -------------------------------------------------------------------------
    reqs = []
    for c in cases:
        if c["kind"] == "runtime":
            mods = {p: t for p, t in c["files"].items() if p != c["paths"][0]}
            reqs.append({"runs": [{"src": c["files"][c["paths"][0]], "path": c["paths"][0], "modules": mods}]})
        else:
            reqs.append({"runs": [{"src": c["text"], "path": "/src/syn.ts"}]})
    res, err = c11.run_seq(chk, reqs, "c20")
    for c, o in zip(cases, res):
        if "error" in o:
            chk.violation({"case": c, "what": "harness: " + str(o["error"])})
            continue
        r = o["runs"][0]
        bad = None
        if c["kind"] == "syntax":
            stats["syntax_cases"] += 1
            want = pos_of(c["text"], c["offset"])
            loc = r.get("location")
            if r.get("class") != "SyntaxError" or not loc:
                bad = "expected a SyntaxError with a location, got %s %r" % (r.get("class"), r.get("message"))
            elif (loc[1], loc[2]) != want:
                bad = "SyntaxError reported at %d:%d, the offending token '%s' is at %d:%d" % (
                    loc[1], loc[2], c["text"][c["offset"]:c["offset"] + 2].strip(), want[0], want[1])
        else:
            stats["runtime_cases"] += 1
            d = len(c["frames"])
            stats["depths"][d] = stats["depths"].get(d, 0) + 1
            stats["faults"][c["fault"]] = stats["faults"].get(c["fault"], 0) + 1
            want_class = "ReferenceError" if c["fault"] == "undef-call" else "TypeError"
            stack = r.get("stack") or []
            if r.get("status") != "error" or r.get("class") != want_class:
                bad = "expected an uncaught %s, got %s %s %r" % (want_class, r.get("status"), r.get("class"), r.get("message"))
            elif stack:
                # expected frames, innermost first; wrapper arrows (call<i>) contribute a frame of their own
                exp = []
                for i in range(d - 1, -1, -1):
                    fname, home, rg, kind = c["frames"][i]
                    exp.append((fname, c["paths"][home], rg, True))
                    if kind in WRAPPED:
                        exp.append(("call%d" % i, c["paths"][home], None, False))
                exp.append((None, c["paths"][0], c["top"], True))
                if len(stack) != len(exp):
                    bad = "the trace has %d frames, %d calls are active (%s vs %s)" % (
                        len(stack), len(exp), [f[0] for f in stack], [e[0] for e in exp])
                else:
                    for fr, (fname, path, rg, judged) in zip(stack, exp):
                        stats["frames_checked"] += 1
                        stats["kinds"][str(fname is None)] = stats["kinds"].get(str(fname is None), 0) + 1
                        if fr[0] != fname:
                            bad = "frame names %r, the active function is %r (trace %s)" % (fr[0], fname, [f[0] for f in stack])
                            break
                        if fr[1] != path:
                            bad = "frame %r names file %r, the function is in %r" % (fname, fr[1], path)
                            break
                        if judged and rg and not inside(c["files"][path], rg, (fr[2], fr[3])):
                            text = c["files"][path]
                            bad = "frame %r reports %d:%d, its active expression %r spans %s..%s" % (
                                fname, fr[2], fr[3], text[rg[0]:rg[1]][:40], pos_of(text, rg[0]), pos_of(text, rg[1] - 1))
                            break
        if bad and len(chk.violations) < 6:
            chk.violation({"case": c, "observed": {"class": r.get("class"), "message": r.get("message"), "stack": r.get("stack"),
                                                   "location": r.get("location")}, "what": bad})
    chk.samples.append({"case": {k: v for k, v in cases[1].items() if k in ("paths", "fault", "top")}, "main": cases[1].get("files", {}).get("/src/main.ts", "")[:300]})
    chk.coverage.update({
        "evaluations": stats["runtime_cases"] + stats["syntax_cases"], "distinct_nontrivial": len(cases),
        "rule": "%d runtime faults (4 fault kinds) at the end of call chains of depth 1-12 over 7 function kinds across 1-3 modules and %d syntax "
                "errors (6 shapes), three quarters of them under layout transformation (14 separators: spaces, tabs, LF, CRLF, blank lines, "
                "line/block comments, wide characters); %d (text, offset) samples of the position specification compared with Pos.Model.pos_at in Coq"
                % (stats["runtime_cases"], stats["syntax_cases"], stats["positions_vs_coq"]),
        "exhaustive": False, "stats": stats,
    })
    return chk.finish()
