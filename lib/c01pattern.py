"""C01, mechanism M4: array patterns over the iterator protocol
(coq/theories/Lang/ArrayPattern*.v).

The theorems are about the model compiler `cpattern` and the model machine.
The tie, on every run:
  * the instructions Compiler::compile_program emits for `const [..] = it` and
    `[..] = it` (identifier positions and holes) must equal `cpattern ks p`
    instruction for instruction - jump targets, and one register each for the
    iterator, the result, the element and the done flag;
  * the interpreter's outcome (values bound, next() calls, return() calls) on an
    instrumented iterator must equal the model machine's, for declarations,
    assignments and parameters, and a generator with a return value;
  * node must agree with the specification side (`spec`), which validates that
    `spec` is the ECMAScript meaning and not merely the model's own."""
import json
import os
import re
import subprocess
from concurrent.futures import ThreadPoolExecutor

import common

PID = "C01"


def names(ks):
    return ["a%d" % i for i, k in enumerate(ks) if k]


def pattern_text(ks, rest=False):
    items = [("a%d" % i) if k else "" for i, k in enumerate(ks)]
    if rest:
        return "[" + ", ".join(items + ["...r"]) + "]"
    return "[" + ", ".join(items) + ("," if ks and not ks[-1] else "") + "]"


# distinct characters of one, two, three and four UTF-8 bytes: element i of a string source
ALPHABET = "".join(chr([0x61, 0xE0, 0x3041, 0x1F600][i % 4] + i) for i in range(64))
SOURCES = ("array", "string", "set", "mapkeys", "generator", "arguments")


def program(kind, ks, m, rest=False):
    """kind: decl / assign / param over the instrumented iterator (values, next() calls, return() calls),
    or one of SOURCES as a declaration (values only)."""
    ns = names(ks)
    pat = pattern_text(ks, rest)
    vals = ", ".join(str(10 + i) for i in range(m))
    if kind in SOURCES:
        conv = "v === undefined ? -1 : v"
        if kind == "array":
            head, src = "", "[%s]" % vals
        elif kind == "string":
            head, src = "const A = %s;\n" % json.dumps(ALPHABET, ensure_ascii=False), json.dumps(ALPHABET[:m], ensure_ascii=False)
            conv = "v === undefined ? -1 : [...A].indexOf(v) + 10"
        elif kind == "set":
            head, src = "", "new Set([%s])" % vals
        elif kind == "mapkeys":
            head, src = "", "new Map([%s]).keys()" % ", ".join("[%d, 0]" % (10 + i) for i in range(m))
        elif kind == "generator":
            head, src = "function* g() { %s return 99; }\n" % " ".join("yield %d;" % (10 + i) for i in range(m)), "g()"
        else:
            head, src = "", "(function () { return arguments; })(%s)" % vals
        show = "[%s].map(v => %s).join()" % (", ".join(ns), conv)
        if rest:
            show += " + 'r' + r.map(v => %s).join()" % conv
        return head + "const %s = %s;\n%s" % (pat, src, show)
    head = ("let n = 0, c = 0; const vals = [%s];\n"
            "const it = {[Symbol.iterator]() { let i = 0; return {next() { n++; return i < vals.length ? {value: vals[i++], done: false} "
            ": {value: 99, done: true}; }, return() { c++; return {}; }}; }};\n" % vals)
    show = "[%s].map(v => v === undefined ? -1 : v).join()" % ", ".join(ns)
    if rest:
        show += " + 'r' + r.join()"
    show += " + '/' + n + '/' + (c === 1 ? 'T' : c === 0 ? 'F' : 'c' + c)"
    if kind == "decl":
        return head + "const %s = it;\n%s" % (pat, show)
    if kind == "assign":
        decl = ns + (["r"] if rest else [])
        return head + ("let %s;\n" % ", ".join(decl) if decl else "") + "%s = it;\n%s" % (pat, show)
    if kind == "param":
        return head + "let out;\n(function (%s) { out = %s; })(it);\nout" % (pat, show)
    raise ValueError(kind)


R = {
    "init": re.compile(r"^LoadBool \{ dst: (\d+), value: false \}$"),
    "jd": re.compile(r"^JumpIfTrue \{ cond: (\d+), target: (\d+) \}$"),
    "next": re.compile(r"^IteratorNext \{ dst: (\d+), iterator: (\d+) \}$"),
    "id": re.compile(r"^IteratorDone \{ result: (\d+), target: (\d+) \}$"),
    "value": re.compile(r"^IteratorValue \{ dst: (\d+), result: (\d+) \}$"),
    "j": re.compile(r"^Jump \{ target: (\d+) \}$"),
    "setdone": re.compile(r"^LoadBool \{ dst: (\d+), value: true \}$"),
    "undef": re.compile(r"^LoadUndefined \{ dst: (\d+) \}$"),
    "bindd": re.compile(r"^DeclareVar \{ name: \d+, init: (\d+), mutable: \w+ \}$"),
    "binds": re.compile(r"^SetVar \{ name: \d+, src: (\d+) \}$"),
    "close": re.compile(r"^IteratorClose \{ iterator: (\d+) \}$"),
    "rest": re.compile(r"^CreateRestArray \{ dst: (\d+), iterator: (\d+), start_index: (\d+) \}$"),
    "emptyrest": re.compile(r"^CreateArray \{ dst: (\d+), start: (\d+), count: 0 \}$"),
}


def render_real(ops, start, count, npos=-1):
    """The real instructions from `start`, in the model's notation; registers must be used consistently."""
    regs = {}

    def reg(role, v):
        if regs.setdefault(role, v) != v:
            raise ValueError("register of %s changes from %s to %s" % (role, regs[role], v))
    out = []
    for o in ops[start:start + count]:
        m = None
        for k, rx in R.items():
            m = rx.match(o)
            if m:
                break
        if not m:
            out.append("?" + o)
            continue
        g = m.groups()
        if k == "init":
            reg("done", g[0]); out.append("init")
        elif k == "jd":
            reg("done", g[0]); out.append("jd" + g[1])
        elif k == "next":
            reg("result", g[0]); reg("iterator", g[1]); out.append("next")
        elif k == "id":
            reg("result", g[0]); out.append("id" + g[1])
        elif k == "value":
            reg("elem", g[0]); reg("result", g[1]); out.append("value")
        elif k == "j":
            out.append("j" + g[0])
        elif k == "setdone":
            reg("done", g[0]); out.append("setdone")
        elif k == "undef":
            reg("elem", g[0]); out.append("undef")
        elif k in ("bindd", "binds"):
            if regs.get("rest") == g[0]:
                out.append("bindrest")
            else:
                reg("elem", g[0]); out.append("bind")
        elif k == "rest":
            reg("rest", g[0]); reg("iterator", g[1]); out.append("rest" if int(g[2]) == npos else "rest@%s" % g[2])
        elif k == "emptyrest":
            reg("rest", g[0]); out.append("emptyrest")
        elif k == "close":
            reg("iterator", g[0]); out.append("close")
    if len(set(regs.values())) != len(regs):
        raise ValueError("roles share a register: %s" % regs)
    return out


def node_values(srcs, tag):
    d = os.path.join(common.OUT, PID)
    os.makedirs(d, exist_ok=True)
    p = os.path.join(d, "pat_%s.json" % tag)
    json.dump(srcs, open(p, "w"))
    js = ("const fs=require('fs'),vm=require('vm');const S=JSON.parse(fs.readFileSync(process.argv[1],'utf8'));"
          "const out=S.map(s=>{try{return String(vm.runInNewContext(s,{}, {timeout:5000}));}catch(e){return 'error '+e.name;}});"
          "process.stdout.write(JSON.stringify(out));")
    try:
        r = subprocess.run(["node", "-e", js, p], capture_output=True, text=True, timeout=600)
        os.remove(p)
        return json.loads(r.stdout)
    except Exception as ex:
        raise common.FrameworkError("node is required for C01: " + str(ex))


def cases(chk):
    rng = common.Rng(chk.seed, "C01pattern")
    maxlen, maxm, extra = (4, 5, 12) if chk.tier == "quick" else (7, 8, 150)
    shapes = [[]]
    for n in range(1, maxlen + 1):
        for bits in range(2 ** n):
            shapes.append([bool(bits >> i & 1) for i in range(n)])
    for _ in range(extra):
        n = maxlen + 1 + rng.below(40 - maxlen)
        shapes.append([not rng.chance(1, 4) for _ in range(n)])
    out = []
    for ks in shapes:
        ms = range(0, min(len(ks), maxm) + 3) if len(ks) <= maxlen else sorted({0, 1, len(ks) - 1, len(ks), len(ks) + 1, rng.below(len(ks) + 1)})
        for m in ms:
            for rest in (False, True):
                for kind in ("decl", "assign", "param"):
                    out.append((kind, ks, m, rest))
                if any(ks) or rest:
                    # the other iterables: each (pattern, length) with two of them, all of them over the small patterns
                    srcs = SOURCES if len(ks) <= 2 else [SOURCES[(len(ks) + m + j) % len(SOURCES)] for j in (0, 3)]
                    for kind in srcs:
                        if m <= len(ALPHABET):
                            out.append((kind, ks, m, rest))
    return out


def run(chk, th, stats):
    cs = cases(chk)
    if chk.replay:
        r = json.load(open(chk.replay))
        cs = [(r["kind"], r["pattern"], r["iterator_values"], r.get("rest", False))]
    srcs = [program(k, ks, m, rest) for k, ks, m, rest in cs]
    progs = [("p%d" % i, "", s) for i, s in enumerate(srcs)]
    cres = common.run_programs(th, [p for p, c in zip(progs, cs) if c[0] in ("decl", "assign")], mode="compile", tag="c01pat-c", timeout=1200)
    rres = common.run_programs(th, [(a, "steps=2000000", s) for a, _, s in progs], tag="c01pat-r", timeout=1200)
    nres = node_values(srcs, "n")
    # position of the pattern's first instruction in the real chunk (behind GetIterator)
    starts = []
    for i, c in enumerate(cs):
        ops = cres.get("p%d" % i, {}).get("ops") or []
        g = [j for j, o in enumerate(ops) if o.startswith("GetIterator")]
        starts.append(g[-1] + 1 if g else 0)
    rows = []
    for (kind, ks, m, rest), p in zip(cs, starts):
        rows.append("%s [%s] %d [%s]%%Z" % ("pattern_rest_case" if rest else "pattern_case", ";".join("true" if k else "false" for k in ks), p,
                                            ";".join(str(10 + i) for i in range(m))))
    model = []
    shard = 300
    jobs = []
    for k in range(0, len(rows), shard):
        body = ("From Coq Require Import String ZArith List.\nFrom TsrunV Require Import Lang.ArrayPattern Lang.ArrayPatternExec Base.Render.\n"
                "Import ListNotations.\nLocal Open Scope string_scope.\nEval vm_compute in (lines [%s])." % ";\n ".join(rows[k:k + shard]))
        jobs.append(("c01pat_%d" % (k // shard), body))
    with ThreadPoolExecutor(8) as ex:
        outs = list(ex.map(lambda j: common.run_cases_v(j[0], j[1], timeout=900), jobs))
    for (name, _), (got, raw) in zip(jobs, outs):
        if got is None:
            chk.proof_breaks.append("Lang.ArrayPatternExec cases do not evaluate (%s): %s" % (name, raw[-600:]))
            return
        model += got
    if len(model) != len(cs):
        chk.proof_breaks.append("Lang.ArrayPatternExec returned %d rows for %d cases" % (len(model), len(cs)))
        return
    for i, ((kind, ks, m, rest), row) in enumerate(zip(cs, model)):
        stats["pattern_cases"] = stats.get("pattern_cases", 0) + 1
        stats["pattern_kind_" + kind] = stats.get("pattern_kind_" + kind, 0) + 1
        code, mach, spec = row.split("|")
        rep = {"kind": kind, "pattern": ks, "iterator_values": m, "rest": rest, "program": srcs[i]}
        if mach != spec:
            chk.proof_breaks.append("model machine and specification disagree (theorems c01_array_pattern_*_has_the_ecmascript_meaning "
                                    "would be false): %s vs %s on %s" % (mach, spec, pattern_text(ks, rest)))
            continue
        want = spec.split("/")[0] if kind in SOURCES else spec
        r = rres.get("p%d" % i, {})
        if r.get("status") == "complete" and str(r.get("value", "")).startswith("str:"):
            iv = r["value"][4:]
        elif r.get("status") == "error":
            iv = "error " + str(r.get("class"))
        else:
            iv = "status " + str(r.get("status"))
        nv = nres[i]
        if nv != want:
            if iv == nv:
                chk.proof_breaks.append("the specification side of Lang/ArrayPattern.v disagrees with the reference engine and the implementation "
                                        "on %s over %d values (%s): spec %s, node %s" % (pattern_text(ks, rest), m, kind, want, nv))
            elif len(chk.violations) < 6:
                rep.update({"tsrun": iv, "specification": want, "node": nv, "what": "array pattern: implementation, specification and node all differ"})
                chk.violation(rep)
            continue
        if iv != want:
            if len(chk.violations) < 6:
                rep.update({"tsrun": iv, "specification": want, "node": nv,
                            "what": "an array pattern binds other values, calls next() another number of times or closes the iterator "
                                    "otherwise than ECMAScript prescribes (format: values [r rest values] / next calls / closed)"})
                chk.violation(rep)
            continue
        if kind in ("decl", "assign"):
            c = cres.get("p%d" % i, {})
            want_code = code.split(";")
            try:
                real = render_real(c.get("ops") or [], starts[i], len(want_code), len(ks)) if c.get("status") == "ok" else ["status:%s" % c.get("status")]
            except ValueError as ex:
                real = ["registers: %s" % ex]
            stats["pattern_instructions"] = stats.get("pattern_instructions", 0) + len(want_code)
            if real != want_code and len(chk.proof_breaks) < 4:
                k = next((j for j in range(min(len(real), len(want_code))) if real[j] != want_code[j]), min(len(real), len(want_code)))
                chk.proof_breaks.append("correspondence Lang.ArrayPattern.cpattern%s vs compile_array_pattern_* at instruction %d (%s vs model %s) on: %s"
                                        % ("_rest" if rest else "", k, real[k] if k < len(real) else "<end>",
                                           want_code[k] if k < len(want_code) else "<end>", srcs[i].split("\n")[-2]))
