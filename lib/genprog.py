"""Typed random program generator for the supported language core.
Every expression carries the runtime type it produces, so operator x operand
type combinations are reached on purpose. Programs are deterministic,
self-contained (no global state beyond their own declarations) and end with a
canonical print of everything they observed. A feature vector is returned for
the evidence files. All choices come from one common.Rng."""

PRELUDE = r"""
const __out⟦: string[]⟧ = [];
function __p(v⟦: any⟧)⟦: string⟧ {
  if (v === undefined) return "undefined";
  if (v === null) return "null";
  const t = typeof v;
  if (t === "number") { if (v !== v) return "NaN"; if (v === 0) return (1 / v < 0) ? "-0" : "0"; return String(v); }
  if (t === "string") return JSON.stringify(v);
  if (t === "boolean") return String(v);
  if (t === "function") return "fn";
  if (Array.isArray(v)) { const parts⟦: string[]⟧ = []; for (let i = 0; i < v.length; i++) parts.push(__p(v[i])); return "[" + parts.join(",") + "]"; }
  if (t === "object") { const ks = Object.keys(v).sort(); const parts⟦: string[]⟧ = []; for (const k of ks) parts.push(k + ":" + __p(v[k])); return "{" + parts.join(",") + "}"; }
  return t;
}
function __o(v⟦: any⟧)⟦: void⟧ { __out.push(__p(v)); }
"""

NUMS = ["0", "1", "(-1)", "2", "3", "7", "10", "255", "0.5", "(-0.25)", "1e3", "2.5", "100", "NaN", "(-0)", "1e21", "4294967296", "0.1", "Infinity"]
STRS = ['""', '"a"', '"b"', '"abc"', '"10"', '"3"', '" 7 "', '"x y"', '"Hello"', '"é"', '"日本"', '"0"', '"true"', '"a,b"']


class Gen:
    def __init__(self, rng, features=None, allow_async=False, ts=True):
        self.r = rng
        self.n = 0
        self.feat = features if features is not None else {}
        self.allow_async = allow_async
        self.ts = ts

    def f(self, name):
        self.feat[name] = self.feat.get(name, 0) + 1

    def fresh(self, p="v"):
        self.n += 1
        return "%s%d" % (p, self.n)

    # ---- expressions ----------------------------------------------------
    def num(self, env, d):
        r = self.r
        vs = [n for n, t in env if t == "num"]
        k = r.below(100)
        if d <= 0 or k < 25:
            if vs and r.chance(1, 2):
                return r.choice(vs)
            return r.choice(NUMS)
        if k < 55:
            op = r.choice(["+", "-", "*", "/", "%", "**", "&", "|", "^", "<<", ">>", ">>>"])
            self.f("num" + op)
            a, b = self.num(env, d - 1), self.num(env, d - 1)
            if op == "**":
                b = r.choice(["2", "3", "0.5", "0", "-1"])
            return "(%s %s %s)" % (a, op, b)
        if k < 62:
            op = r.choice(["-", "+", "~"])
            self.f("unary" + op)
            return "(%s(%s))" % (op, self.num(env, d - 1))
        if k < 72:
            fn = r.choice(["Math.floor", "Math.abs", "Math.max", "Math.min", "Math.round", "Math.trunc", "Math.sign", "Math.sqrt"])
            self.f(fn)
            if fn in ("Math.max", "Math.min"):
                return "%s(%s, %s)" % (fn, self.num(env, d - 1), self.num(env, d - 1))
            return "%s(%s)" % (fn, self.num(env, d - 1))
        if k < 80:
            self.f("str.length")
            return "(%s).length" % self.str(env, d - 1)
        if k < 86:
            self.f("arr.length/index")
            a = self.arr(env, d - 1)
            return r.choice(["(%s).length" % a, "(%s)[%s] ?? -1" % (a, r.choice(["0", "1", "2", "5", "-1"])), "(%s).indexOf(%s)" % (a, self.num(env, 0))])
        if k < 92:
            self.f("cond-num")
            return "(%s ? %s : %s)" % (self.bool(env, d - 1), self.num(env, d - 1), self.num(env, d - 1))
        if k < 96:
            self.f("Number()")
            return r.choice(["Number(%s)", "parseInt(%s)", "parseFloat(%s)", "(+%s)"]) % self.str(env, d - 1)
        self.f("reduce")
        return "(%s).reduce((a⟦: number⟧, b⟦: number⟧) => a + b, 0)" % self.arr(env, d - 1)

    def str(self, env, d):
        r = self.r
        vs = [n for n, t in env if t == "str"]
        k = r.below(100)
        if d <= 0 or k < 28:
            if vs and r.chance(1, 2):
                return r.choice(vs)
            return r.choice(STRS)
        if k < 48:
            self.f("str+")
            a = self.str(env, d - 1)
            b = r.choice([self.str, self.num, self.bool])(env, d - 1)
            return "(%s + %s)" % ((a, b) if r.chance(1, 2) else (b, a)) if r.chance(4, 5) else "(%s + %s)" % (a, self.str(env, d - 1))
        if k < 58:
            self.f("template")
            return "`%s${%s}%s${%s}`" % (r.choice(["", "a", "x="]), self.num(env, d - 1), r.choice(["", "-", " "]), self.str(env, d - 1))
        if k < 78:
            m = r.choice(["toUpperCase()", "toLowerCase()", "trim()", "slice(1)", "slice(-2)", "slice(1, 3)", "substring(0, 2)", "charAt(1)",
                          "repeat(2)", "padStart(5, '*')", "padEnd(4, '-')", "split('').reverse().join('')", "replace('a', 'z')", "at(-1) ?? ''",
                          "concat('!')", "split(',').join(';')", "normalize()"])
            self.f("str." + m.split("(")[0])
            return "(%s).%s" % (self.str(env, d - 1), m)
        if k < 86:
            self.f("String()")
            return r.choice(["String(%s)", "(%s).toString()", "JSON.stringify(%s)", "(%s).toFixed(2)"]) % self.num(env, d - 1)
        if k < 92:
            self.f("typeof")
            return "typeof (%s)" % r.choice([self.num, self.str, self.bool, self.arr])(env, d - 1)
        if k < 96:
            self.f("arr.join")
            return "(%s).join(%s)" % (self.arr(env, d - 1), r.choice(["','", "''", "'-'"]))
        self.f("cond-str")
        return "(%s ? %s : %s)" % (self.bool(env, d - 1), self.str(env, d - 1), self.str(env, d - 1))

    def bool(self, env, d):
        r = self.r
        vs = [n for n, t in env if t == "bool"]
        k = r.below(100)
        if d <= 0 or k < 18:
            if vs and r.chance(1, 2):
                return r.choice(vs)
            return r.choice(["true", "false"])
        if k < 45:
            op = r.choice(["<", "<=", ">", ">=", "===", "!==", "==", "!="])
            self.f("cmp-num" + op)
            return "(%s %s %s)" % (self.num(env, d - 1), op, self.num(env, d - 1))
        if k < 58:
            op = r.choice(["===", "!==", "==", "!=", "<", ">"])
            self.f("cmp-str" + op)
            return "(%s %s %s)" % (self.str(env, d - 1), op, self.str(env, d - 1))
        if k < 66:
            op = r.choice(["==", "!=", "<", ">="])
            self.f("cmp-mixed" + op)
            return "((%s⟦ as any⟧) %s (%s⟦ as any⟧))" % (self.str(env, d - 1), op, self.num(env, d - 1))
        if k < 80:
            op = r.choice(["&&", "||"])
            self.f("logic" + op)
            return "(%s %s %s)" % (self.bool(env, d - 1), op, self.bool(env, d - 1))
        if k < 86:
            self.f("not")
            return "(!%s)" % r.choice([self.bool, self.num, self.str])(env, d - 1)
        if k < 92:
            m = r.choice(["includes('a')", "startsWith('a')", "endsWith('c')"])
            self.f("str." + m.split("(")[0])
            return "(%s).%s" % (self.str(env, d - 1), m)
        if k < 96:
            self.f("arr.includes/some/every")
            return r.choice(["(%s).includes(2)", "(%s).some((x⟦: number⟧) => x > 2)", "(%s).every((x⟦: number⟧) => x >= 0)", "Array.isArray(%s)"]) % self.arr(env, d - 1)
        self.f("Number.is*")
        return r.choice(["Number.isInteger(%s)", "Number.isNaN(%s)", "isFinite(%s)", "Object.is(%s, -0)"]) % self.num(env, d - 1)

    def arr(self, env, d):
        r = self.r
        vs = [n for n, t in env if t == "arr"]
        k = r.below(100)
        if d <= 0 or k < 30:
            if vs and r.chance(1, 2):
                return r.choice(vs)
            return "[%s]" % ", ".join(self.num(env, 0) for _ in range(r.below(5)))
        if k < 70:
            m = r.choice(["map((x⟦: number⟧) => x * 2)", "filter((x⟦: number⟧) => x > 1)", "slice(1)", "slice(-2)", "concat([9])", "reverse()",
                          "map((x⟦: number⟧, i⟦: number⟧) => x + i)", "flatMap((x⟦: number⟧) => [x, x])", "slice().sort((a⟦: number⟧, b⟦: number⟧) => a - b)",
                          "filter((x⟦: number⟧) => x === x)", "slice(0, 2)", "toSorted?.((a⟦: number⟧, b⟦: number⟧) => b - a) ?? []"])
            m = m if "toSorted" not in m else "slice().sort((a⟦: number⟧, b⟦: number⟧) => b - a)"
            self.f("arr." + m.split("(")[0])
            return "(%s).%s" % (self.arr(env, d - 1), m)
        if k < 82:
            self.f("spread")
            return "[...%s, %s]" % (self.arr(env, d - 1), self.num(env, d - 1))
        if k < 92:
            self.f("Array.from/of")
            return r.choice(["Array.from([1, 2, 3], (x⟦: number⟧) => x * %s)" % self.num(env, 0), "Array.of(%s, %s)" % (self.num(env, 0), self.num(env, 0)),
                             "(%s).split('').map((c⟦: string⟧) => c.charCodeAt(0))" % self.str(env, d - 1)])
        self.f("cond-arr")
        return "(%s ? %s : %s)" % (self.bool(env, d - 1), self.arr(env, d - 1), self.arr(env, d - 1))

    def any_expr(self, env, d):
        t = self.r.choice(["num", "num", "str", "bool", "arr"])
        return getattr(self, t)(env, d), t

    # ---- statements -------------------------------------------------------
    def stmts(self, env, d, n, in_func=False, labels=()):
        out = []
        env = list(env)
        for _ in range(n):
            s = self.stmt(env, d, in_func, labels)
            out.append(s)
        return "\n".join(out)

    def stmt(self, env, d, in_func, labels):
        r = self.r
        k = r.below(100)
        if k < 22 or d <= 0:
            e, t = self.any_expr(env, 2)
            v = self.fresh()
            env.append((v, t))
            self.f("decl-" + t)
            return "%s %s = %s; __o(%s);" % (r.choice(["let", "const"]), v, e, v)
        if k < 30:
            mv = [(n, t) for n, t in env if n.startswith("m")]
            if mv:
                n, t = r.choice(mv)
                self.f("assign")
                op = r.choice(["=", "+=", "-=", "*="]) if t == "num" else r.choice(["=", "+="]) if t == "str" else "="
                return "%s %s %s; __o(%s);" % (n, op, getattr(self, t)(env, 2), n)
            v = self.fresh("m")
            init = self.num(env, 1)
            env.append((v, "num"))
            return "let %s = %s;" % (v, init)
        if k < 40:
            self.f("if")
            return "if (%s) {\n%s\n} else {\n%s\n}" % (self.bool(env, 2), self.stmts(env, d - 1, 1 + r.below(2), in_func, labels), self.stmts(env, d - 1, 1, in_func, labels))
        if k < 50:
            self.f("for")
            i = self.fresh("i")
            lab = self.fresh("L") if r.chance(1, 3) else None
            body_env = env + [(i, "num")]
            body = self.stmts(body_env, d - 1, 1 + r.below(2), in_func, labels + ((lab,) if lab else ()))
            brk = ""
            if r.chance(1, 2):
                tgt = r.choice(list(labels + ((lab,) if lab else ())) + [None])
                kw = r.choice(["break", "continue"])
                self.f(kw + ("-label" if tgt else ""))
                brk = "if (%s === %d) { %s%s; }\n" % (i, r.below(3), kw, (" " + tgt) if tgt else "")
            return "%sfor (let %s = 0; %s < %d; %s++) {\n%s%s\n}" % ((lab + ": ") if lab else "", i, i, 2 + r.below(3), i, brk, body)
        if k < 56:
            self.f("for-of")
            x = self.fresh("x")
            return "for (const %s of %s) {\n%s\n}" % (x, self.arr(env, 1), self.stmts(env + [(x, "num")], d - 1, 1, in_func, labels))
        if k < 61:
            self.f("while")
            c = self.fresh("c")
            return "let %s = 0;\nwhile (%s < %d) {\n%s++;\n%s\n}" % (c, c, 1 + r.below(3), c, self.stmts(env + [(c, "num")], d - 1, 1, in_func, labels))
        if k < 70:
            self.f("try")
            thrown = r.choice(["new Error('e1')", "'str'", "42", "new TypeError('t')", "{code: 7}"])
            body = self.stmts(env, d - 1, 1, in_func, labels)
            maybe_throw = "if (%s) { throw %s; }\n" % (self.bool(env, 1), thrown) if r.chance(2, 3) else ""
            ex = ""
            if in_func and r.chance(1, 3):
                self.f("return-in-try")
                ex = "if (%s) { return %s; }\n" % (self.bool(env, 1), self.num(env, 1))
            fin = ""
            if r.chance(1, 2):
                self.f("finally")
                fin = " finally {\n__o('fin');\n%s\n}" % self.stmts(env, d - 1, 1, in_func, ())
            e = self.fresh("e")
            return "try {\n%s%s%s\n} catch (%s) {\n__o((%s⟦ as any⟧) instanceof Error ? (%s⟦ as any⟧).name + ':' + (%s⟦ as any⟧).message : %s);\n%s\n}%s" % (
                maybe_throw, ex, body, e, e, e, e, e, self.stmts(env, d - 1, 1, in_func, labels), fin)
        if k < 78:
            self.f("function")
            fn = self.fresh("f")
            p1, p2 = self.fresh("p"), self.fresh("p")
            fenv = [(p1, "num"), (p2, "str")] + [(n, t) for n, t in env if not n.startswith(("i", "x", "c"))]
            body = self.stmts(fenv, d - 1, 1 + r.below(2), True, ())
            ret = self.num(fenv, 2)
            dflt = " = %s" % self.str([], 0) if r.chance(1, 3) else ""
            call2 = "" if dflt and r.chance(1, 2) else ", %s" % self.str(env, 1)
            return "function %s(%s⟦: number⟧, %s⟦: string⟧%s)⟦: number⟧ {\n%s\nreturn %s;\n}\n__o(%s(%s%s));" % (fn, p1, p2, dflt, body, ret, fn, self.num(env, 1), call2)
        if k < 83:
            self.f("closure")
            mk, cnt = self.fresh("mk"), self.fresh("k")
            return ("function %s(start⟦: number⟧) { let n = start; return { inc: () => { n += 1; return n; }, get: () => n }; }\n"
                    "const %s = %s(%s); %s.inc(); %s.inc(); __o(%s.get());" % (mk, cnt, mk, self.num(env, 1), cnt, cnt, cnt))
        if k < 88:
            self.f("class")
            c = self.fresh("C")
            return ("class %s {\n  ⟦private v: number;⟧\n  static made = 0;\n  constructor(v⟦: number⟧) { this.v = v; %s.made++; }\n  get twice()⟦: number⟧ { return this.v * 2; }\n"
                    "  add(o⟦: number⟧)⟦: %s⟧ { return new %s(this.v + o); }\n  toString()⟦: string⟧ { return 'C(' + this.v + ')'; }\n}\n"
                    "const o%s = new %s(%s).add(%s); __o(o%s.twice); __o(String(o%s)); __o(%s.made);" % (
                        c, c, c, c, c, c, self.num(env, 1), self.num(env, 1), c, c, c))
        if k < 92:
            self.f("destructuring")
            a, b, rest = self.fresh("a"), self.fresh("b"), self.fresh("r")
            return "const [%s, %s = 5, ...%s] = %s; __o(%s); __o(%s); __o(%s);\nconst {x: %sx = 1, ...%so} = {x: %s, y: 2, z: 3}⟦ as any⟧; __o(%sx); __o(%so);" % (
                a, b, rest, self.arr(env, 1), a, b, rest, a, a, r.choice(["undefined", "4", "null"]), a, a)
        if k < 95:
            self.f("switch")
            return "switch (%s) {\n case 0: __o('zero');\n case 1: __o('one'); break;\n case 2: __o('two'); break;\n default: __o('dflt');\n}" % ("(%s) %% 4" % self.num(env, 1))
        if k < 98:
            self.f("generator")
            g = self.fresh("g")
            return "function* %s(n⟦: number⟧) { for (let i = 0; i < n; i++) { const got⟦: any⟧ = yield i * 2; if (got) __o(got); } return 'done'; }\n__o([...%s(3)]); const it%s = %s(2); __o(it%s.next().value); __o(it%s.next('x').value); __o(it%s.next().done);" % (
                g, g, g, g, g, g, g)
        self.f("map/set")
        mp, st = self.fresh("mp"), self.fresh("st")
        return "const %s = new Map⟦<string, number>⟧([['a', 1]]); %s.set('b', %s); __o([...%s.keys()]); __o(%s.get('b')); const %s = new Set([1, 2, 2, %s]); __o(%s.size); __o([...%s]);" % (
            mp, mp, self.num(env, 1), mp, mp, st, self.r.choice(['3', '1', '7']), st, st)

    def program(self, size=6, depth=3):
        body = self.stmts([], depth, size)
        return render(PRELUDE + body + "\n__out.join('|')", self.ts)


def render(src, ts):
    """⟦...⟧ marks purely static TypeScript syntax: kept for the TypeScript variant, dropped for JavaScript"""
    import re as _re
    return _re.sub("⟦(.*?)⟧", (lambda m: m.group(1)) if ts else "", src)
