"""C09 — module graphs load once, dependencies first, whatever the host's order.
Proof: coq/theories/Host/ModulesProperties.v (for every graph, early-supply
set, host action sequence and pending-map iteration order: each body at most
once and after its imports; the entry starts after its imports; request lists
duplicate-free). Tie: generated DAGs of real TypeScript modules (named /
default / namespace imports, re-exports, diamonds, equivalent spellings) under
scripted supply schedules on the real interpreter; NeedImports rounds (as
sets) and the load log are compared with the extracted model, and the
property's statements (topological log, each body once, result independent of
the schedule, live bindings) are evaluated on the implementation's trace."""
import itertools
import json
import os

import common
from common import log

PID = "C09"
MAIN = 9999


def path_of(i):
    return "/src/m%d.ts" % i


def spelling(rng, i, from_main=False):
    base = "./m%d.ts" % i
    return rng.choice([base, base, "./x/../m%d.ts" % i, "./././m%d.ts" % i, "../src/m%d.ts" % i, "/src/m%d.ts" % i, ".//m%d.ts" % i])


def gen_graph(rng, n):
    """deps[i] = list of j > i (acyclic); kinds per edge"""
    deps = {}
    for i in range(n):
        cand = list(range(i + 1, n))
        k = rng.below(min(4, len(cand) + 1))
        ds = rng.shuffle(cand)[:k]
        if ds and rng.chance(1, 5):
            ds.append(ds[0])      # the same module imported twice (two spellings)
        deps[i] = [(j, rng.choice(["named", "default", "namespace", "reexport", "side"])) for j in ds]
    roots = [i for i in range(n) if not any(i == j for d in deps.values() for j, _ in d)]
    main = [(j, rng.choice(["named", "default", "namespace"])) for j in (roots if roots else [0])]
    extra = [i for i in range(n) if i not in [j for j, _ in main] and rng.chance(1, 4)]
    main += [(j, "named") for j in extra]
    return deps, main


def module_source(rng, i, deps):
    lines, uses = [], []
    for k, (j, kind) in enumerate(deps):
        sp = spelling(rng, j)
        if kind == "named":
            lines.append('import { v%d as a%d_%d, bump%d as b%d_%d } from "%s";' % (j, i, k, j, i, k, sp))
            uses.append("a%d_%d" % (i, k))
        elif kind == "default":
            lines.append('import d%d_%d from "%s";' % (i, k, sp))
            uses.append("d%d_%d" % (i, k))
        elif kind == "namespace":
            lines.append('import * as n%d_%d from "%s";' % (i, k, sp))
            uses.append("n%d_%d.v%d" % (i, k, j))
        elif kind == "reexport":
            lines.append('export { v%d as r%d_%d } from "%s";' % (j, i, k, sp))
        else:
            lines.append('import "%s";' % sp)
    lines.append('(globalThis as any).__log = ((globalThis as any).__log || "") + "m%d,";' % i)
    lines.append("export let v%d: number = %d%s;" % (i, 10 + i, "".join(" + " + u for u in uses)))
    lines.append("export function bump%d(): number { v%d += 100; return v%d; }" % (i, i, i))
    lines.append("export default v%d * 2;" % i)
    return "\n".join(lines)


def main_source(rng, main):
    lines, obs = [], []
    for k, (j, kind) in enumerate(main):
        sp = spelling(rng, j)
        if kind == "named":
            lines.append('import { v%d as x%d, bump%d as bx%d } from "%s";' % (j, k, j, k, sp))
            obs.append("x%d" % k)
            # live binding: the imported name follows the exporter's variable
            obs.append("(bx%d(), x%d)" % (k, k))
        elif kind == "default":
            lines.append('import dx%d from "%s";' % (k, sp))
            obs.append("dx%d" % k)
        else:
            lines.append('import * as nx%d from "%s";' % (k, sp))
            obs.append("nx%d.v%d" % (k, j))
            obs.append("Object.keys(nx%d).sort().join('+')" % k)
    lines.append("export const result = [%s].join('|');" % ", ".join(obs))
    lines.append("(globalThis as any).__log + '#' + result")
    return "\n".join(lines)


def expected_values(deps, main):
    """the specification: v_i as computed with dependencies first; bump adds 100"""
    val = {}

    def v(i):
        if i in val:
            return val[i]
        t = 10 + i
        for j, kind in deps[i]:
            if kind in ("named", "namespace"):
                t += v(j)
            elif kind == "default":
                t += v(j) * 2
        val[i] = t
        return t
    for i in deps:
        v(i)
    cur = dict(val)
    obs = []
    for j, kind in main:
        if kind == "named":
            obs.append(str(cur[j]))
            cur[j] += 100
            obs.append(str(cur[j]))
        elif kind == "default":
            obs.append(str(val[j] * 2))
        else:
            obs.append(str(cur[j]))
            keys = ["bump%d" % j, "default", "v%d" % j] + ["r%d_%d" % (j, k) for k, (_, kd) in enumerate(deps[j]) if kd == "reexport"]
            obs.append("+".join(sorted(keys)))
    return "|".join(obs)


def reachable(deps, main):
    seen, stack = set(), [j for j, _ in main]
    while stack:
        x = stack.pop()
        if x in seen:
            continue
        seen.add(x)
        stack.extend(j for j, _ in deps[x])
    return seen


def gen_schedule(rng, kind):
    """how the host reacts to a NeedImports list: returns a function(requests, provided_so_far) -> list of paths to provide now"""
    return kind


def run_case(deps, main, sched, rng, early_ids):
    """build the request for the harness: the host policy is unrolled offline is impossible (requests depend on the
    interpreter), so the harness is driven round by round from python through repeated runs: instead we pre-plan a
    maximal action script: provide-all-in-order variants expressed as static scripts."""
    raise NotImplementedError


def static_script(rng, deps, main, mode):
    """A static host script that is valid whatever the interpreter requests: sequences of provides (by module id)
    and steps. Modes: 'all-at-once', 'one-by-one', 'reverse', 'deps-last', 'with-duplicates', 'early'."""
    need = sorted(reachable(deps, main))
    order = list(need)
    if mode == "reverse":
        order = order[::-1]
    elif mode in ("shuffle", "one-by-one", "with-duplicates", "batched"):
        order = rng.shuffle(order)
    acts = []
    if mode == "all-at-once" or mode == "reverse" or mode == "shuffle":
        acts = [("P", i) for i in order] + ["S"]
    elif mode == "one-by-one":
        for i in order:
            acts += [("P", i), "S"]
    elif mode == "batched":
        k = 0
        while k < len(order):
            b = 1 + rng.below(3)
            acts += [("P", i) for i in order[k:k + b]] + ["S"]
            k += b
    elif mode == "with-duplicates":
        for i in order:
            acts += [("P", i), "S"]
            if rng.chance(1, 2):
                acts += [("P", rng.choice(order)), "S"]      # re-supply something (possibly already executed)
        acts += [("P", order[0]), "S"]
    acts += ["S", "S"]
    return acts


def run(chk):
    chk.assumptions = [
        "module bodies are abstracted in the model to a log entry plus resolved dependency edges; paths are resolved by C18's model/impl",
        "the FxHashMap iteration order over pending sources is a parameter of the theorems (any permutation); the correspondence "
        "compares request rounds as sets and checks the load log for topological validity rather than a fixed order",
        "cyclic graphs are outside the property",
    ]
    chk.prove(["theories/Host/ModulesProperties.vo"], ["theories/Host/ModulesProperties.v"])
    ok, out, chk.th = common.build_harness("debug")
    if not ok:
        chk.proof_breaks.append("harness does not build against /repo: " + out[-800:])
        return chk.finish()
    ok, out, chk.drv = common.build_ocaml("modules")
    if not ok:
        raise common.FrameworkError("ocaml modules model build failed: " + out[-800:])
    rng = common.Rng(chk.seed, PID)
    stats = {"cases": 0, "disagreements": 0, "graphs": 0}
    cases = []
    n_graphs = 60 if chk.tier == "quick" else 8000
    modes = ["all-at-once", "reverse", "shuffle", "one-by-one", "batched", "with-duplicates"]
    graphs = []
    if chk.replay:
        r = json.load(open(chk.replay))
        deps = {int(k): [tuple(x) for x in v] for k, v in r["graph"].items()}
        graphs = [(deps, [tuple(x) for x in r["main"]])]
        modes = [r.get("mode", "one-by-one")]
    else:
        # diamond + re-export chain (corpus)
        graphs.append(({0: [(1, "named"), (2, "named")], 1: [(3, "named")], 2: [(3, "namespace")], 3: []}, [(0, "named"), (3, "named")]))
        graphs.append(({0: [(1, "reexport")], 1: [(2, "reexport")], 2: []}, [(0, "namespace"), (2, "named")]))
        for _ in range(n_graphs):
            graphs.append(gen_graph(rng, 2 + rng.below(7)))
    for deps, main in graphs:
        stats["graphs"] += 1
        srcs = {i: module_source(rng, i, deps[i]) for i in deps}
        msrc = main_source(rng, main)
        for mode in modes:
            early = []
            if mode == "with-duplicates" and rng.chance(1, 2):
                early = rng.shuffle(sorted(reachable(deps, main)))[:2]
            acts = static_script(rng, deps, main, mode)
            cases.append((deps, main, mode, early, acts, srcs, msrc))
    d = os.path.join(common.OUT, PID)
    os.makedirs(d, exist_ok=True)
    rf, of, mf, mo = (os.path.join(d, x) for x in ("req.jsonl", "res.jsonl", "model.in", "model.out"))
    with open(rf, "w") as f, open(mf, "w") as g:
        for k, (deps, main, mode, early, acts, srcs, msrc) in enumerate(cases):
            host = []
            for a in acts:
                host.append({"step": 1} if a == "S" else {"provide": [path_of(a[1]), srcs[a[1]]]})
            host.append({"exports": ["result"]})
            f.write(json.dumps({"program": msrc, "path": "/src/main.ts", "host": host, "gc": [None, 1, 4][k % 3],
                                "early": [[path_of(i), srcs[i]] for i in early]}) + "\n")
            adj = ";".join("%d:%s" % (i, ",".join(str(j) for j in dict.fromkeys(j for j, _ in deps[i]))) for i in deps)
            g.write("%s|%s|%s|%s\n" % (adj, ",".join(str(j) for j in dict.fromkeys(j for j, _ in main)), ",".join(str(i) for i in early),
                                       " ".join("S" if a == "S" else "P%d" % a[1] for a in acts)))
    rc, out = common.sh([chk.th, "orders", rf, of], timeout=3000)
    if rc != 0:
        chk.violation({"what": "module harness died rc=%s" % rc, "tail": out[-300:]})
        return chk.finish()
    rc, out = common.sh([chk.drv, mf, mo], timeout=3000)
    if rc != 0:
        raise common.FrameworkError("modules model driver failed: " + out[-300:])
    impl = [json.loads(l) for l in open(of) if l.strip()]
    model = open(mo).read().split("\n")
    for p in (rf, of, mf, mo):
        os.remove(p)
    results_by_graph = {}
    for k, ((deps, main, mode, early, acts, srcs, msrc), res, m) in enumerate(zip(cases, impl, model)):
        stats["cases"] += 1
        gk = id(deps)
        bad = None
        tie = None
        if "error" in res:
            bad = "harness: %s" % res["error"]
        else:
            rounds_impl, log_impl, value, exports = [], None, None, None
            for t in res["trace"]:
                if t.get("r") == "needimports":
                    paths = [r[1] for r in t["requests"]]
                    if len(paths) != len(set(paths)):
                        bad = "a module is requested twice in one NeedImports list: %r" % paths
                    for spec, resolved, importer in t["requests"]:
                        if not resolved.startswith("/src/m") or "/." in resolved or "//" in resolved:
                            bad = "request not under its canonical resolved path: %r" % resolved
                        if importer is not None and not (importer.startswith("/src/m")):
                            bad = "importer of a request is not a canonical module path: %r" % importer
                    rounds_impl.append(sorted(int(p[len("/src/m"):-3]) for p in paths if p.startswith("/src/m")))
                elif t.get("r") == "complete":
                    value = t.get("json")
                elif t.get("r") == "error":
                    bad = bad or "loading failed: %s %s" % (t.get("class"), t.get("message"))
                elif t.get("r") == "exports":
                    exports = t
            if bad is None:
                if not isinstance(value, str) or "#" not in value:
                    bad = "the entry program did not complete with its result (value %r)" % (value,)
                else:
                    lg, result = value.split("#", 1)
                    order = [int(x[1:]) for x in lg.split(",") if x]
                    need = reachable(deps, main)
                    if len(order) != len(set(order)):
                        bad = "a module body ran more than once: load log %r" % order
                    elif set(order) != need:
                        bad = "load log %r is not exactly the set of imported modules %r" % (order, sorted(need))
                    else:
                        pos = {m_: i for i, m_ in enumerate(order)}
                        for i in order:
                            for j, _ in deps[i]:
                                if pos[j] > pos[i]:
                                    bad = "module m%d ran before its dependency m%d (log %r)" % (i, j, order)
                    exp = expected_values(deps, main)
                    if bad is None and result != exp:
                        bad = "result %r differs from the specified %r (schedule %s)" % (result, exp, mode)
                    if bad is None and exports and exports["values"].get("result") != exp:
                        bad = "api::get_export('result') = %r, specified %r" % (exports["values"].get("result"), exp)
                    # tie with the model: request rounds as sets, and the final log as a set
                    mobs = m.split(";")
                    rounds_model = [sorted(int(x) for x in o[2:-1].split(",") if x) for o in mobs if o.startswith("N[")]
                    run_model = [o for o in mobs if o.startswith("R[")]
                    if rounds_model != rounds_impl:
                        tie = "NeedImports rounds: impl %r model %r" % (rounds_impl, rounds_model)
                    elif not run_model or set(int(x) for x in run_model[0][2:-1].split(",") if x) != set(order):
                        tie = "load log: impl %r model %r" % (order, run_model)
        if bad:
            stats["disagreements"] += 1
            if len(chk.violations) < 4:
                chk.violation({"graph": {str(i): deps[i] for i in deps}, "main": main, "mode": mode, "early": early,
                               "host_actions": ["S" if a == "S" else "P%d" % a[1] for a in acts], "what": bad,
                               "trace": [{kk: vv for kk, vv in t.items() if kk != "steps"} for t in res.get("trace", [])][:12]})
        elif tie:
            stats["disagreements"] += 1
            if len(chk.proof_breaks) < 4:
                chk.proof_breaks.append("correspondence Host.Modules vs Interpreter (mode %s, graph %r, main %r): %s" % (mode, deps, main, tie))
    c = cases[len(cases) // 2]
    chk.samples.append({"graph": {str(i): c[0][i] for i in c[0]}, "main": c[1], "mode": c[2],
                        "host_actions": ["S" if a == "S" else "P%d" % a[1] for a in c[4]]})
    chk.coverage.update({
        "evaluations": stats["cases"], "distinct_nontrivial": stats["cases"],
        "rule": "acyclic graphs of 2..8 TypeScript modules (named/default/namespace imports, re-exports, side-effect imports, duplicated "
                "imports, seven spellings per path) x 6 host supply schedules (all at once, reverse, shuffled, one by one, batched, with "
                "duplicate / early supplies) x 3 GC thresholds; NeedImports rounds and load log vs the extracted model; topological order, "
                "each-body-once, result and exports vs the specification",
        "graphs": stats["graphs"], "cases": stats["cases"], "disagreements": stats["disagreements"],
    })
    return chk.finish()
