"""C01, mechanism M2: the compiled core (coq/theories/Lang/Core*.v).

The theorem (c01_core_compilation_preserves_meaning / c01_core_runs_as_ecmascript)
is about the model compiler `ccompile` and the model machine `vm_run`. This
stream ties both to the code on generated programs of the core:

  * the instruction list of Compiler::compile_program (constant indices
    replaced by the constants they denote) must equal the model compiler's,
    instruction for instruction (registers, jump targets, scopes);
  * the value or error the interpreter produces must equal the outcome of the
    model machine on the model's code and of the source semantics;
  * node (the reference engine) must produce the same value: that validates
    the source semantics itself.

Programs use integers, booleans, null, strings (only string + string
concatenation), + - * / on numbers, comparisons, strict and loose equality,
bitwise operators, unary operators, typeof, && || ??, ?:, simple / compound /
logical assignment, let / const, blocks with shadowing, if / else, bounded
while loops with break / continue (also from inside nested blocks), and deliberately a few reads of undeclared names and assignments
to constants (the two error outcomes of the model)."""
import json
import os
import struct
import subprocess
from concurrent.futures import ThreadPoolExecutor

import common

PID = "C01"
BIN_NUM = [("+", "Add"), ("-", "Sub"), ("*", "Mul"), ("/", "Div")]
BIN_CMP = [("<", "Lt"), ("<=", "LtEq"), (">", "Gt"), (">=", "GtEq"), ("===", "StrictEq"), ("!==", "StrictNotEq"),
           ("==", "Eq"), ("!=", "NotEq")]
BIN_BIT = [("&", "BitAnd"), ("|", "BitOr"), ("^", "BitXor"), ("<<", "LShift"), (">>", "RShift"), (">>>", "URShift")]
UN_NUM = [("-", "Neg"), ("+", "Plus"), ("~", "BitNot")]
LOPS = [("&&", "LAnd"), ("||", "LOr"), ("??", "LNullish")]
NAMES = ["a", "b", "c", "d", "k"]


class Gen:
    """Typed generation: 'n' number, 'b' boolean, 's' string, 'any'. Environment tracking keeps most
    programs free of ReferenceError / TypeError so that the value path dominates."""

    def __init__(self, rng):
        self.rng = rng
        self.scopes = [{}]          # name -> (type, mutable)
        self.used = [set()]         # names referenced inside each open scope (a later declaration there would be a TDZ error)
        self.loops = 0
        self.fresh = 0

    def pick(self, l):
        return l[self.rng.below(len(l))]

    def visible(self, ty=None, mutable=None):
        out = {}
        for sc in self.scopes:
            out.update(sc)
        return [n for n, (t, m) in out.items() if (ty is None or t == ty) and (mutable is None or m == mutable)]

    def ref(self, v):
        for u in self.used:
            u.add(v)
        return v

    def open(self):
        self.scopes.append({})
        self.used.append(set())

    def close(self):
        self.scopes.pop()
        self.used.pop()

    # ---- expressions: return (ts, coq) ----
    def lit_num(self):
        r = self.rng.below(10)
        z = self.rng.below(21) - 10 if r < 6 else self.pick([127, 128, -128, -129, 255, 1000, 65536, 2147483647, -2147483648, 4294967296])
        ts = str(z) if z >= 0 else "(%d)" % z
        # a negative literal is the unary minus of a positive literal in the source
        coq = "ELit _ _ (LInt %d)" % z if z >= 0 else "EUn _ _ Neg (ELit _ _ (LInt %d))" % (-z)
        return ts, coq

    CHAIN_NUM = [("+", "TPlus"), ("-", "TMinus"), ("*", "TStar"), ("/", "TSlash"), ("&", "TAmp"), ("|", "TPipe"), ("^", "TCaret"),
                 ("<<", "TLtLt"), (">>", "TGtGt"), (">>>", "TGtGtGt")]
    CHAIN_ALL = CHAIN_NUM + [("<", "TLt"), ("<=", "TLtEq"), (">", "TGt"), (">=", "TGtEq"), ("==", "TEqEq"), ("!=", "TBangEq"),
                             ("===", "TEqEqEq"), ("!==", "TBangEqEq"), ("&&", "TAmpAmp"), ("||", "TPipePipe")]

    def chain(self, d, ops):
        """operands and operators without parentheses: the source leaves the grouping to the parser, the model to Lang/Pratt.v"""
        n = 2 + self.rng.below(5)
        # `x < y > (z)` is a call with a type argument in TypeScript: a chain keeps to one side of the angle brackets
        side = self.rng.below(2)
        ops = [o for o in ops if not (o[0].startswith("<") if side else o[0].startswith(">"))]
        a = self.num(d - 1) if self.rng.below(3) else self.lit_num()
        ts, rest = a[0], []
        for _ in range(n):
            o, tok = self.pick(ops)
            b = self.num(d - 1) if self.rng.below(3) else self.lit_num()
            ts += " %s %s" % (o, b[0])
            rest.append("(%s, %s)" % (tok, b[1]))
        return "(%s)" % ts, "chain (%s) [%s]" % (a[1], "; ".join(rest))

    def num(self, d):
        if d > 0 and self.rng.below(6) == 0:
            return self.chain(d, self.CHAIN_NUM)
        r = self.rng.below(12)
        vs = self.visible("n")
        if d <= 0 or r < 2:
            if vs and self.rng.below(2):
                v = self.ref(self.pick(vs))
                return v, 'EVar _ _ "%s"' % v
            return self.lit_num()
        if r < 6:
            o, c = self.pick(BIN_NUM if self.rng.below(4) else BIN_BIT)
            a, b = self.num(d - 1), self.num(d - 1)
            return "(%s %s %s)" % (a[0], o, b[0]), "EBin _ _ %s (%s) (%s)" % (c, a[1], b[1])
        if r < 7:
            o, c = self.pick(UN_NUM)
            a = self.num(d - 1)
            return "(%s %s)" % (o, a[0]), "EUn _ _ %s (%s)" % (c, a[1])
        if r < 8:
            c, a, b = self.boolean(d - 1), self.num(d - 1), self.num(d - 1)
            return "(%s ? %s : %s)" % (c[0], a[0], b[0]), "ECond _ _ (%s) (%s) (%s)" % (c[1], a[1], b[1])
        ms = self.visible("n", True)
        if r < 9 and ms:
            v = self.ref(self.pick(ms))
            a = self.num(d - 1)
            return "(%s = %s)" % (v, a[0]), 'EAssign _ _ "%s" (%s)' % (v, a[1])
        if r < 10 and ms:
            v = self.ref(self.pick(ms))
            o, c = self.pick(BIN_NUM[:3] + BIN_BIT)
            a = self.num(d - 1)
            return "(%s %s= %s)" % (v, o, a[0]), 'ECompound _ _ %s "%s" (%s)' % (c, v, a[1])
        if r < 11 and ms:
            v = self.ref(self.pick(ms))
            o, c = self.pick(LOPS)
            a = self.num(d - 1)
            return "(%s %s= %s)" % (v, o, a[0]), 'ELogAssign _ _ %s "%s" (%s)' % (c, v, a[1])
        o, c = self.pick(LOPS)
        a, b = self.num(d - 1), self.num(d - 1)
        return "(%s %s %s)" % (a[0], o, b[0]), "ELog _ _ %s (%s) (%s)" % (c, a[1], b[1])

    def boolean(self, d):
        r = self.rng.below(10)
        vs = self.visible("b")
        if d <= 0 or r < 2:
            if vs and self.rng.below(2):
                v = self.ref(self.pick(vs))
                return v, 'EVar _ _ "%s"' % v
            b = self.rng.below(2) == 1
            return ("true" if b else "false"), "ELit _ _ (LBool %s)" % ("true" if b else "false")
        if r < 6:
            o, c = self.pick(BIN_CMP)
            a, b = self.num(d - 1), self.num(d - 1)
            return "(%s %s %s)" % (a[0], o, b[0]), "EBin _ _ %s (%s) (%s)" % (c, a[1], b[1])
        if r < 7:
            a = self.anyv(d - 1)
            return "(! %s)" % a[0], "EUn _ _ Not (%s)" % a[1]
        if r < 8:
            o, c = self.pick(BIN_CMP[4:6])      # strict only: loose equality across types needs StringToNumber (C15's tables)
            a, b = self.anyv(d - 1), self.anyv(d - 1)
            return "(%s %s %s)" % (a[0], o, b[0]), "EBin _ _ %s (%s) (%s)" % (c, a[1], b[1])
        o, c = self.pick(LOPS[:2])
        a, b = self.boolean(d - 1), self.boolean(d - 1)
        return "(%s %s %s)" % (a[0], o, b[0]), "ELog _ _ %s (%s) (%s)" % (c, a[1], b[1])

    def string(self, d):
        r = self.rng.below(8)
        vs = self.visible("s")
        if d <= 0 or r < 3:
            if vs and self.rng.below(2):
                v = self.ref(self.pick(vs))
                return v, 'EVar _ _ "%s"' % v
            s = self.pick(["", "a", "b", "ab", "x y", "zz"])
            return json.dumps(s), 'ELit _ _ (LStr "%s")' % s
        if r < 6:
            a, b = self.string(d - 1), self.string(d - 1)
            return "(%s + %s)" % (a[0], b[0]), "EBin _ _ Add (%s) (%s)" % (a[1], b[1])
        if r < 7:
            a = self.anyv(d - 1)
            if a[1].startswith("EVar"):
                name = a[0]
                return "(typeof %s)" % name, 'ETypeofVar _ _ "%s"' % name
            return "(typeof %s)" % a[0], "ETypeof _ _ (%s)" % a[1]
        c, a, b = self.boolean(d - 1), self.string(d - 1), self.string(d - 1)
        return "(%s ? %s : %s)" % (c[0], a[0], b[0]), "ECond _ _ (%s) (%s) (%s)" % (c[1], a[1], b[1])

    def anyv(self, d):
        if d > 0 and self.rng.below(8) == 0:
            return self.chain(d, self.CHAIN_ALL)
        r = self.rng.below(12)
        if r < 4:
            return self.num(d)
        if r < 7:
            return self.boolean(d)
        if r < 9:
            return self.string(d)
        if r < 10:
            return "null", "ELit _ _ LNull"
        if r < 11:
            a = self.anyv(d - 1) if d > 0 else self.lit_num()
            return "(void %s)" % a[0], "EUn _ _ Void (%s)" % a[1]
        o, c = self.pick(LOPS)
        a, b = self.anyv(d - 1) if d > 0 else self.lit_num(), self.anyv(d - 1) if d > 0 else self.lit_num()
        return "(%s %s %s)" % (a[0], o, b[0]), "ELog _ _ %s (%s) (%s)" % (c, a[1], b[1])

    def typed(self, ty, d):
        return {"n": self.num, "b": self.boolean, "s": self.string}[ty](d)

    # ---- statements: return (ts lines, coq) ----
    def stmt(self, d, faults):
        if self.loops > 0 and self.rng.below(6) == 0:
            return self.jump_stmt()
        r = self.rng.below(20)
        if r < 6 or d <= 0:
            ty = self.pick(["n", "n", "n", "b", "s"])
            e = self.typed(ty, 2)
            free = [x for x in NAMES if x not in self.scopes[-1] and x not in self.used[-1]]
            if not free:
                return ["%s;" % e[0]], "SExpr _ _ (%s)" % e[1]
            name = self.pick(free)
            mut = self.rng.below(4) != 0
            self.scopes[-1][name] = (ty, mut)
            return ["%s %s = %s;" % ("let" if mut else "const", name, e[0])], 'SDecl _ _ %s "%s" (%s)' % ("true" if mut else "false", name, e[1])
        if r < 10:
            e = self.anyv(3)
            return ["%s;" % e[0]], "SExpr _ _ (%s)" % e[1]
        if r < 12:
            self.open()
            body = [self.stmt(d - 1, faults) for _ in range(1 + self.rng.below(3))]
            self.close()
            return ["{"] + ["  " + l for b in body for l in b[0]] + ["}"], "SBlock _ _ [%s]" % "; ".join(b[1] for b in body)
        if r < 15:
            c = self.boolean(2) if self.rng.below(4) else self.anyv(2)
            t = self.branch(d - 1, faults)
            if self.rng.below(2):
                e = self.branch(d - 1, faults)
                return ["if (%s)" % c[0]] + t[0] + ["else"] + e[0], "SIf _ _ (%s) (%s) (Some (%s))" % (c[1], t[1], e[1])
            return ["if (%s)" % c[0]] + t[0], "SIf _ _ (%s) (%s) None" % (c[1], t[1])
        if r < 17 and self.loops < 2:
            # a bounded loop: a fresh counter in the enclosing scope, incremented first thing in the body
            self.loops += 1
            self.fresh += 1
            ctr = "i%d" % self.fresh
            bound = 1 + self.rng.below(4)
            self.open()                              # the wrapping block that holds the counter
            self.scopes[-1][ctr] = ("n", False)     # generated code must not assign to it (kept out of the mutable pool)
            self.open()
            body = [self.stmt(d - 1, faults) for _ in range(1 + self.rng.below(2))]
            self.close()
            self.close()
            self.loops -= 1
            ts = ["let %s = 0;" % ctr, "while (%s < %d) {" % (ctr, bound), "  %s = %s + 1;" % (ctr, ctr)] + \
                 ["  " + l for b in body for l in b[0]] + ["}"]
            coq = ('SBlock _ _ [SDecl _ _ true "%s" (ELit _ _ (LInt 0)); SWhile _ _ (EBin _ _ Lt (EVar _ _ "%s") (ELit _ _ (LInt %d))) '
                   '(SBlock _ _ [SExpr _ _ (EAssign _ _ "%s" (EBin _ _ Add (EVar _ _ "%s") (ELit _ _ (LInt 1)))); %s])]'
                   % (ctr, ctr, bound, ctr, ctr, "; ".join(b[1] for b in body)))
            # the declaration + loop are wrapped in a block in both renderings
            return ["{"] + ["  " + l for l in ts] + ["}"], coq
        if r < 18:
            return [";"], "SEmpty _ _"
        if faults and r < 19:
            # a read of a name that is declared nowhere, or an assignment to a constant
            cs = self.visible(None, False)
            cs = [c for c in cs if not c.startswith("i")]
            if cs and self.rng.below(2):
                v = self.ref(self.pick(cs))
                return ["%s = 1;" % v], 'SExpr _ _ (EAssign _ _ "%s" (ELit _ _ (LInt 1)))' % v
            return ["zz9;"], 'SExpr _ _ (EVar _ _ "zz9")'
        e = self.anyv(3)
        return ["%s;" % e[0]], "SExpr _ _ (%s)" % e[1]

    def jump_stmt(self):
            # leave / restart the innermost loop, usually under a condition, sometimes from inside a block
            kw, coq = (("break", "SBreak _ _") if self.rng.below(2) else ("continue", "SContinue _ _"))
            shape = self.rng.below(4)
            if shape == 0:
                return ["%s;" % kw], coq
            c = self.boolean(2)
            if shape == 1:
                return ["if (%s) %s;" % (c[0], kw)], "SIf _ _ (%s) (%s) None" % (c[1], coq)
            if shape == 2:
                return ["if (%s) { %s; }" % (c[0], kw)], "SIf _ _ (%s) (SBlock _ _ [%s]) None" % (c[1], coq)
            e = self.anyv(2)
            return ["if (%s) { { %s; %s; } }" % (c[0], e[0], kw)], \
                "SIf _ _ (%s) (SBlock _ _ [SBlock _ _ [SExpr _ _ (%s); %s]]) None" % (c[1], e[1], coq)

    def branch(self, d, faults):
        """the body of an if: a block or a single expression statement"""
        if self.rng.below(3) == 0:
            e = self.anyv(2)
            return ["  %s;" % e[0]], "SExpr _ _ (%s)" % e[1]
        self.open()
        body = [self.stmt(d, faults) for _ in range(1 + self.rng.below(2))]
        self.close()
        return ["{"] + ["  " + l for b in body for l in b[0]] + ["}"], "SBlock _ _ [%s]" % "; ".join(b[1] for b in body)

    def program(self, faults):
        body = [self.stmt(3, faults) for _ in range(2 + self.rng.below(6))]
        final = self.anyv(3)
        ts = "\n".join(l for b in body for l in b[0]) + "\n" + final[0] + ";\n"
        coq = "core_case 4000 [%s] (%s)" % ("; ".join(b[1] for b in body), final[1])
        return ts, coq


CORPUS = [
    # hand-written: every construct once, the shapes of the witness theorem, and both error outcomes
    ("let x = 1;\nlet y = 2;\nwhile (x < 10) {\n  x = x + y;\n  if (x > 5) { y = y + 1; } else { y = y * 2; }\n}\n(x + y);\n",
     'core_case 4000 [SDecl _ _ true "x" (ELit _ _ (LInt 1)); SDecl _ _ true "y" (ELit _ _ (LInt 2)); '
     'SWhile _ _ (EBin _ _ Lt (EVar _ _ "x") (ELit _ _ (LInt 10))) (SBlock _ _ [SExpr _ _ (EAssign _ _ "x" (EBin _ _ Add (EVar _ _ "x") (EVar _ _ "y"))); '
     'SIf _ _ (EBin _ _ Gt (EVar _ _ "x") (ELit _ _ (LInt 5))) (SBlock _ _ [SExpr _ _ (EAssign _ _ "y" (EBin _ _ Add (EVar _ _ "y") (ELit _ _ (LInt 1))))]) '
     '(Some (SBlock _ _ [SExpr _ _ (EAssign _ _ "y" (EBin _ _ Mul (EVar _ _ "y") (ELit _ _ (LInt 2))))]))])] '
     '(EBin _ _ Add (EVar _ _ "x") (EVar _ _ "y"))'),
    ("const c = 0;\n(c &&= 1);\nconst d = 1;\n(d ||= 2);\nconst e = 5;\n(e ??= 3);\n((c + d) + e);\n",
     'core_case 4000 [SDecl _ _ false "c" (ELit _ _ (LInt 0)); SExpr _ _ (ELogAssign _ _ LAnd "c" (ELit _ _ (LInt 1))); '
     'SDecl _ _ false "d" (ELit _ _ (LInt 1)); SExpr _ _ (ELogAssign _ _ LOr "d" (ELit _ _ (LInt 2))); '
     'SDecl _ _ false "e" (ELit _ _ (LInt 5)); SExpr _ _ (ELogAssign _ _ LNullish "e" (ELit _ _ (LInt 3)))] '
     '(EBin _ _ Add (EBin _ _ Add (EVar _ _ "c") (EVar _ _ "d")) (EVar _ _ "e"))'),
    ("const c = 1;\n(c &&= 2);\n3;\n",
     'core_case 4000 [SDecl _ _ false "c" (ELit _ _ (LInt 1)); SExpr _ _ (ELogAssign _ _ LAnd "c" (ELit _ _ (LInt 2)))] (ELit _ _ (LInt 3))'),
    ("let a = 1;\n{\n  let a = 2;\n  a = a + 5;\n  {\n    const a = 40;\n  }\n}\n(typeof zz9);\n",
     'core_case 4000 [SDecl _ _ true "a" (ELit _ _ (LInt 1)); SBlock _ _ [SDecl _ _ true "a" (ELit _ _ (LInt 2)); '
     'SExpr _ _ (EAssign _ _ "a" (EBin _ _ Add (EVar _ _ "a") (ELit _ _ (LInt 5)))); SBlock _ _ [SDecl _ _ false "a" (ELit _ _ (LInt 40))]]] '
     '(ETypeofVar _ _ "zz9")'),
    ("let a = 1;\n(a = zz9);\n", 'core_case 4000 [SDecl _ _ true "a" (ELit _ _ (LInt 1))] (EAssign _ _ "a" (EVar _ _ "zz9"))'),
    ("1000;\n", "core_case 4000 [] (ELit _ _ (LInt 1000))"),
    ("(1 + 2 * 3 - 4 / 2 < 7 & 3 | 8 ^ 1 << 2 >> 1 === 1 && 5 || 9);\n",
     "core_case 4000 [] (chain (ELit _ _ (LInt 1)) [(TPlus, ELit _ _ (LInt 2)); (TStar, ELit _ _ (LInt 3)); (TMinus, ELit _ _ (LInt 4)); (TSlash, ELit _ _ (LInt 2)); (TLt, ELit _ _ (LInt 7)); (TAmp, ELit _ _ (LInt 3)); (TPipe, ELit _ _ (LInt 8)); (TCaret, ELit _ _ (LInt 1)); (TLtLt, ELit _ _ (LInt 2)); (TGtGt, ELit _ _ (LInt 1)); (TEqEqEq, ELit _ _ (LInt 1)); (TAmpAmp, ELit _ _ (LInt 5)); (TPipePipe, ELit _ _ (LInt 9))])"),
    ("let x = 1;\n{\n  let i = 0;\n  while (i < 9) {\n    i = i + 1;\n    if ((i === 3)) { let x = 50; continue; }\n    x = x + i;\n    { if ((x > 20)) break; }\n  }\n}\nx;\n",
     'core_case 4000 [SDecl _ _ true "x" (ELit _ _ (LInt 1)); SBlock _ _ [SDecl _ _ true "i" (ELit _ _ (LInt 0)); '
     'SWhile _ _ (EBin _ _ Lt (EVar _ _ "i") (ELit _ _ (LInt 9))) (SBlock _ _ [SExpr _ _ (EAssign _ _ "i" (EBin _ _ Add (EVar _ _ "i") (ELit _ _ (LInt 1)))); '
     'SIf _ _ (EBin _ _ StrictEq (EVar _ _ "i") (ELit _ _ (LInt 3))) (SBlock _ _ [SDecl _ _ true "x" (ELit _ _ (LInt 50)); SContinue _ _]) None; '
     'SExpr _ _ (EAssign _ _ "x" (EBin _ _ Add (EVar _ _ "x") (EVar _ _ "i"))); '
     'SBlock _ _ [SIf _ _ (EBin _ _ Gt (EVar _ _ "x") (ELit _ _ (LInt 20))) (SBreak _ _) None]])]] (EVar _ _ "x")'),
]


def fbits_py(x):
    if x != x:
        return "nan"
    if x in (float("inf"), float("-inf")):
        return "inf" if x > 0 else "-inf"
    if x == 0:
        return "-0" if str(x).startswith("-") else "0"
    b = struct.unpack("<Q", struct.pack("<d", x))[0]
    e = (b >> 52) & 0x7FF
    m = b & ((1 << 52) - 1)
    mant, ex = (m, -1074) if e == 0 else (m | (1 << 52), e - 1075)
    while mant % 2 == 0:
        mant //= 2
        ex += 1
    return "f%s%de%d" % ("-" if b >> 63 else "+", mant, ex)


def norm_fbits(s):
    """f+<m>e<e> with the mantissa reduced, so that the two renderings of one double compare equal"""
    if not s.startswith("f"):
        return s
    sign, rest = s[1], s[2:]
    m, e = rest.split("e")
    m, e = int(m), int(e)
    while m % 2 == 0 and m:
        m //= 2
        e += 1
    return "f%s%de%d" % (sign, m, e)


def impl_value(v):
    """harness rendering -> the model's `show` rendering"""
    st = v.get("status")
    if st == "complete":
        val = v.get("value", "")
        if val in ("undefined", "null"):
            return "value " + val
        if val.startswith("bool:"):
            return "value " + val[5:]
        if val.startswith("num:"):
            x = struct.unpack("<d", struct.pack("<Q", int(val[4:], 16)))[0]
            return "value n:" + fbits_py(x)
        if val.startswith("str:"):
            return "value s:" + val[4:].encode("utf-8").hex()
        return "value ?" + val
    if st == "error":
        if v.get("class") == "ReferenceError":
            return "error ReferenceError:" + (v.get("message") or "").replace(" is not defined", "")
        if v.get("class") == "TypeError" and "constant" in (v.get("message") or ""):
            name = (v.get("message") or "").split("'")[1] if "'" in (v.get("message") or "") else "?"
            return "error TypeError:const:" + name
        return "error %s:%s" % (v.get("class"), v.get("message"))
    return "status " + str(st)


def model_value(s):
    if s.startswith("value n:"):
        return "value n:" + norm_fbits(s[8:])
    return s


def node_value(src, tag):
    d = os.path.join(common.OUT, PID)
    os.makedirs(d, exist_ok=True)
    p = os.path.join(d, "core_%s.js" % tag)
    open(p, "w").write(src)
    js = ("const fs=require('fs'),vm=require('vm');let o;try{const v=vm.runInNewContext(fs.readFileSync(process.argv[1],'utf8'),{}, {timeout:20000});"
          "if(v===undefined)o='value undefined';else if(v===null)o='value null';else if(typeof v==='boolean')o='value '+v;"
          "else if(typeof v==='number'){const b=Buffer.alloc(8);b.writeDoubleLE(v);o='num '+b.readBigUInt64LE().toString(16);}"
          "else if(typeof v==='string')o='value s:'+Buffer.from(v,'utf8').toString('hex');else o='value ?';}"
          "catch(e){o='error '+e.name+':'+e.message;}process.stdout.write(o);")
    try:
        r = subprocess.run(["node", "-e", js, p], capture_output=True, text=True, timeout=60)
        os.remove(p)
    except Exception as ex:
        return "unavailable " + str(ex)
    o = r.stdout
    if o.startswith("num "):
        x = struct.unpack("<d", struct.pack("<Q", int(o[4:], 16)))[0]
        return "value n:" + fbits_py(x)
    if o.startswith("error ReferenceError:"):
        return "error ReferenceError:" + o.split(":", 1)[1].replace(" is not defined", "")
    if o.startswith("error TypeError:Assignment to constant"):
        return "error TypeError:const"
    return o


def resolve_ops(ops, pool):
    out = []
    for o in ops:
        name = o.split(" ")[0]
        if name in ("GetVar", "TryGetVar", "SetVar", "DeclareVar"):
            pre, rest = o.split("name: ", 1)
            idx, post = rest.split(",", 1) if "," in rest else (rest.split(" ")[0], " }")
            c = pool[int(idx)]
            o = pre + "name: " + (c[2:] if c.startswith("S:") else c) + ("," + post if "," in rest else " }")
        elif name == "LoadConst":
            pre, rest = o.split("idx: ", 1)
            idx = rest.split(" ")[0]
            o = pre + "idx: " + pool[int(idx)] + " }"
        out.append(o)
    return out


def run(chk, th, stats):
    """Returns nothing; reports through chk."""
    rng = common.Rng(chk.seed, "C01core")
    cases = list(CORPUS)
    n = 260 if chk.tier == "quick" else 4000
    if chk.replay:
        r = json.load(open(chk.replay))
        cases = [(r["program"], r["model_term"])]
    else:
        for i in range(n):
            g = Gen(rng)
            cases.append(g.program(faults=(i % 7 == 3)))
    progs = [("k%d" % i, "", ts) for i, (ts, _) in enumerate(cases)]
    cres = common.run_programs(th, progs, mode="compile", tag="c01core-c", timeout=1200)
    rres = common.run_programs(th, [(a, "steps=2000000", c) for a, _, c in progs], tag="c01core-r", timeout=1200)
    with ThreadPoolExecutor(12) as ex:
        nres = list(ex.map(lambda x: node_value(x[1][0], "%d" % x[0]), enumerate(cases)))
    # the model, in shards
    shard = 24
    model = []
    jobs = []
    for k in range(0, len(cases), shard):
        rows = ";\n ".join("(%s)" % c for _, c in cases[k:k + shard])
        body = ("From Coq Require Import String ZArith List.\nFrom TsrunV Require Import Lang.Ops Lang.Core Lang.PrattInst Lang.CoreExec Base.Render.\n"
                "Import ListNotations.\nLocal Open Scope string_scope.\nLocal Open Scope Z_scope.\n"
                "Eval vm_compute in (lines [%s])." % rows)
        jobs.append(("c01core_%d" % (k // shard), body))
    with ThreadPoolExecutor(8) as ex:
        outs = list(ex.map(lambda j: common.run_cases_v(j[0], j[1], timeout=900), jobs))
    for (name, _), (got, raw) in zip(jobs, outs):
        if got is None:
            chk.proof_breaks.append("Lang.CoreExec cases do not evaluate (%s): %s" % (name, raw[-600:]))
            return
        model += got
    if len(model) != len(cases):
        chk.proof_breaks.append("Lang.CoreExec returned %d rows for %d cases" % (len(model), len(cases)))
        return
    for i, ((ts, term), row) in enumerate(zip(cases, model)):
        stats["core_programs"] = stats.get("core_programs", 0) + 1
        code, mach, srcv = row.split("|")
        c = cres.get("k%d" % i, {})
        r = rres.get("k%d" % i, {})
        if c.get("status") != "ok":
            impl_code = "refused" if c.get("status") == "compile_error" else "status:%s" % c.get("status")
        else:
            impl_code = ";".join(resolve_ops(c["ops"], c.get("pool", [])))
        iv = impl_value(r)
        mv, sv = model_value(mach), model_value(srcv)
        stats["core_instructions"] = stats.get("core_instructions", 0) + code.count(";") + 1
        kind = "error" if mv.startswith("error") else "value"
        stats["core_" + kind] = stats.get("core_" + kind, 0) + 1
        rep = {"program": ts, "model_term": term}
        if mv != sv and "nofuel" not in (mv, sv):
            chk.proof_breaks.append("model machine and source semantics disagree (theorem c01_core_compilation_preserves_meaning "
                                    "would be false): %s vs %s on %s" % (mv, sv, ts))
            continue
        nv = nres[i]
        node_ok = nv == sv or (nv == "error TypeError:const" and sv.startswith("error TypeError:const:"))
        if nv.startswith("unavailable"):
            raise common.FrameworkError("node is required for C01: " + nv)
        if iv != mv or not node_ok:
            if iv == nv or (nv == "error TypeError:const" and iv.startswith("error TypeError:const:")):
                # the implementation agrees with the reference engine: the model is what is off
                chk.proof_breaks.append("source semantics of Lang/Core.v disagrees with the reference engine and the implementation "
                                        "on %s: model %s, node %s" % (ts.replace("\n", " "), sv, nv))
            elif len(chk.violations) < 6:
                rep.update({"tsrun": iv, "model_machine": mv, "source_semantics": sv, "node": nv,
                            "what": "a program of the compiled core evaluates to something else than its meaning"})
                chk.violation(rep)
            continue
        if impl_code != code:
            # same outcome, different code: the proof no longer speaks about this compiler
            a, b = impl_code.split(";"), code.split(";")
            k = next((j for j in range(min(len(a), len(b))) if a[j] != b[j]), min(len(a), len(b)))
            if len(chk.proof_breaks) < 4:
                chk.proof_breaks.append("correspondence Lang.Core.ccompile vs Compiler::compile_program at instruction %d (%s vs model %s) on: %s"
                                        % (k, a[k] if k < len(a) else "<end>", b[k] if k < len(b) else "<end>", ts.replace("\n", " ")))
