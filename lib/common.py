"""Shared machinery of the tsrun verification checks (see DESIGN.md §2-§4)."""
import fcntl
import hashlib
import json
import os
import re
import subprocess
import sys
import time

ROOT = os.path.dirname(os.path.dirname(os.path.abspath(__file__)))
REPO = os.environ.get("VERIF_REPO", "/repo")
COQ = os.path.join(ROOT, "coq")
OCAML = os.path.join(ROOT, "ocaml")
HARNESS = os.path.join(ROOT, "harness")
OUT = os.path.join(ROOT, "out")
EVID = os.path.join(ROOT, "evidence")
CORPUS = os.path.join(ROOT, "corpus")
GUARD_FLAGS = "--cfg tsrun_verif"

ENV = dict(os.environ)
ENV.update({"CARGO_NET_OFFLINE": "true", "GOPROXY": "off", "PIP_NO_INDEX": "1"})


def log(*a):
    print(*a, flush=True)


def sh(cmd, timeout=600, cwd=ROOT, env=None, stdin=None):
    """Run a shell command; returns (rc, combined output). rc 124 on timeout."""
    e = dict(ENV)
    if env:
        e.update(env)
    try:
        p = subprocess.run(cmd, shell=isinstance(cmd, str), cwd=cwd, env=e, input=stdin,
                           stdout=subprocess.PIPE, stderr=subprocess.STDOUT, timeout=timeout,
                           text=True, errors="replace")
        out = "\n".join(l for l in p.stdout.splitlines() if "conda.cli.condarc" not in l)
        return p.returncode, out
    except subprocess.TimeoutExpired as ex:
        o = ex.stdout or ""
        if isinstance(o, bytes):
            o = o.decode("utf-8", "replace")
        return 124, o + "\n[timeout after %ss]" % timeout


class Lock:
    """Serialises builds between concurrently started checks."""

    def __init__(self, name="build"):
        os.makedirs(OUT, exist_ok=True)
        self.path = os.path.join(OUT, "." + name + ".lock")

    def __enter__(self):
        self.f = open(self.path, "w")
        fcntl.flock(self.f, fcntl.LOCK_EX)
        return self

    def __exit__(self, *a):
        fcntl.flock(self.f, fcntl.LOCK_UN)
        self.f.close()


class Rng:
    """splitmix64; every random choice of a check derives from VERIF_SEED through it."""

    def __init__(self, seed, stream=""):
        h = hashlib.sha256(("%d/%s" % (seed, stream)).encode()).digest()
        self.s = int.from_bytes(h[:8], "little")

    def next(self):
        self.s = (self.s + 0x9E3779B97F4A7C15) & 0xFFFFFFFFFFFFFFFF
        z = self.s
        z = ((z ^ (z >> 30)) * 0xBF58476D1CE4E5B9) & 0xFFFFFFFFFFFFFFFF
        z = ((z ^ (z >> 27)) * 0x94D049BB133111EB) & 0xFFFFFFFFFFFFFFFF
        return z ^ (z >> 31)

    def below(self, n):
        return self.next() % n if n > 0 else 0

    def choice(self, xs):
        return xs[self.below(len(xs))]

    def chance(self, num, den):
        return self.below(den) < num

    def shuffle(self, xs):
        xs = list(xs)
        for i in range(len(xs) - 1, 0, -1):
            j = self.below(i + 1)
            xs[i], xs[j] = xs[j], xs[i]
        return xs


# ---------------------------------------------------------------------------
# Coq side

FORBIDDEN = re.compile(
    r"\b(Admitted|admit|Axiom|Axioms|Parameter|Parameters|Conjecture|Hypothesis|Variable|"
    r"Admit Obligations|bypass_check|Unset Guard Checking|Unset Positivity Checking|"
    r"Unset Universe Checking|type-in-type|impredicative-set)\b")


def strip_coq_comments(text):
    out, depth, i = [], 0, 0
    while i < len(text):
        if text.startswith("(*", i):
            depth += 1
            i += 2
        elif text.startswith("*)", i) and depth > 0:
            depth -= 1
            i += 2
        else:
            if depth == 0:
                out.append(text[i])
            elif text[i] == "\n":
                out.append("\n")
            i += 1
    return "".join(out)


def audit_coq():
    """No Admitted/admit/Axiom/... anywhere in the development (Variables and
    Hypotheses are only tolerated inside a Section)."""
    problems = []
    for base in (os.path.join(COQ, "theories"), OCAML):
        for d, _, fs in os.walk(base):
            for f in fs:
                if not f.endswith(".v"):
                    continue
                p = os.path.join(d, f)
                src = strip_coq_comments(open(p, errors="replace").read())
                depth = 0
                for n, line in enumerate(src.splitlines(), 1):
                    if re.match(r"\s*Section\b", line):
                        depth += 1
                    if re.match(r"\s*End\b", line) and depth > 0:
                        depth -= 1
                    for m in FORBIDDEN.finditer(line):
                        w = m.group(1)
                        if w in ("Variable", "Hypothesis") and depth > 0:
                            continue
                        problems.append("%s:%d: %s" % (os.path.relpath(p, ROOT), n, w))
    proj = open(os.path.join(COQ, "_CoqProject")).read()
    for bad in ("-type-in-type", "-impredicative-set", "-vos", "-vok"):
        if bad in proj:
            problems.append("_CoqProject: " + bad)
    return problems


def coq_make(targets=None, timeout=1500):
    """Full .vo build of the listed targets (paths relative to coq/)."""
    with Lock("coq"):
        if not os.path.exists(os.path.join(COQ, "Makefile")) or \
                os.path.getmtime(os.path.join(COQ, "Makefile")) < os.path.getmtime(os.path.join(COQ, "_CoqProject")):
            rc, out = sh("coq_makefile -f _CoqProject -o Makefile", cwd=COQ, timeout=120)
            if rc != 0:
                return False, out
        tg = " ".join(targets) if targets else ""
        cmd = "timeout %d make -j16 %s" % (timeout, tg)
        rc, out = sh(cmd, cwd=COQ, timeout=timeout + 30)
        return rc == 0, out


def coq_properties(relpath, allow, timeout=300):
    """Re-checks one Properties.v with coqc and returns
    (ok, theorems, assumptions{thm: [axiom names]}, bad{thm: [names not allowed]}, raw)."""
    full = os.path.join(COQ, relpath)
    src = strip_coq_comments(open(full).read())
    thms = re.findall(r"^\s*Theorem\s+([A-Za-z0-9_']+)", src, re.M)
    printed = re.findall(r"^\s*Print Assumptions\s+([A-Za-z0-9_']+)\s*\.", src, re.M)
    with Lock("coq"):
        rc, out = sh("timeout %d coqc -q -Q theories TsrunV %s" % (timeout, relpath), cwd=COQ, timeout=timeout + 30)
    chunks = re.split(r"(?m)^(?=Closed under the global context|Axioms:)", out)
    chunks = [c for c in chunks if c.startswith("Closed under") or c.startswith("Axioms:")]
    assum, bad = {}, {}
    for name, chunk in zip(printed, chunks):
        if chunk.startswith("Closed"):
            assum[name] = []
            continue
        names = re.findall(r"(?m)^([A-Za-z_][A-Za-z0-9_.']*)\s*:", chunk)
        assum[name] = names
        nb = [n for n in names if n.split(".")[-1] not in allow and n not in allow]
        if nb:
            bad[name] = nb
    ok = rc == 0 and len(chunks) == len(printed) and set(thms) <= set(printed)
    return ok, thms, assum, bad, out


# ---------------------------------------------------------------------------
# implementation side


def repo_state():
    rc, head = sh("git -C %s rev-parse HEAD" % REPO, timeout=30)
    rc2, diff = sh("git -C %s status --porcelain -- src Cargo.toml" % REPO, timeout=30)
    return head.strip(), bool(diff.strip())


def build_harness(profile="debug", timeout=1500):
    """Builds harness/ against /repo's current working tree with the hooks on."""
    flag = "--release" if profile == "release" else ""
    with Lock("cargo"):
        lock_src = os.path.join(REPO, "Cargo.lock")
        lock_dst = os.path.join(HARNESS, "Cargo.lock")
        if os.path.exists(lock_src) and not os.path.exists(lock_dst):
            sh("cp %s %s" % (lock_src, lock_dst))
        rc, out = sh("cargo build --offline %s" % flag, cwd=HARNESS, timeout=timeout,
                     env={"RUSTFLAGS": GUARD_FLAGS})
    binp = os.path.join(HARNESS, "target", profile, "th")
    return rc == 0 and os.path.exists(binp), out, binp


def build_ocaml(engine, timeout=600):
    """Extracts coq model `engine` (ocaml/extract_<engine>.v) and builds ocaml/<engine>_driver."""
    with Lock("ocaml"):
        drv = os.path.join(OCAML, engine + "_driver")
        srcs = [os.path.join(OCAML, "extract_%s.v" % engine), os.path.join(OCAML, "%s_driver.ml" % engine),
                os.path.join(OCAML, "conv.ml")]
        # the model sources the extraction depends on
        dep_dir = os.path.join(COQ, "theories")
        newest = max(os.path.getmtime(p) for p in srcs)
        for d, _, fs in os.walk(dep_dir):
            for f in fs:
                if f.endswith(".vo"):
                    newest = max(newest, os.path.getmtime(os.path.join(d, f)))
        if os.path.exists(drv) and os.path.getmtime(drv) >= newest:
            return True, "up to date", drv
        cmd = ("coqc -q -Q ../coq/theories TsrunV extract_{e}.v && "
               "ocamlfind ocamlopt -O3 -w -a conv.ml {e}_model.mli {e}_model.ml {e}_driver.ml -o {e}_driver").format(e=engine)
        rc, out = sh(cmd, cwd=OCAML, timeout=timeout)
        return rc == 0, out, drv


def run_cases_v(name, body, timeout=600):
    """Evaluates a generated cases file inside Coq. `body` must end with one
    `Eval vm_compute in (<string>).`; returns the lines of that string."""
    d = os.path.join(OUT, "cases")
    os.makedirs(d, exist_ok=True)
    p = os.path.join(d, name + ".v")
    open(p, "w").write(body)
    rc, out = sh("ulimit -s unlimited 2>/dev/null; timeout %d coqc -q -noglob -Q %s TsrunV %s" % (timeout, os.path.join(COQ, "theories"), p),
                 cwd=d, timeout=timeout + 30)
    for ext in (".vo", ".vok", ".vos", ".glob"):
        q = os.path.join(d, name + ext)
        if os.path.exists(q):
            os.remove(q)
    if rc != 0:
        return None, out
    m = re.search(r'=\s*"(.*)"(?:%string)?\s*:\s*string', out, re.S)
    if not m:
        return None, out
    return m.group(1).replace('""', '"').split("\n"), out


def coq_string(s):
    return '"' + s.replace('"', '""') + '"'


# ---------------------------------------------------------------------------
# verdicts and evidence


def known_findings(pid):
    p = os.path.join(ROOT, "KNOWN_FINDINGS.json")
    if not os.path.exists(p):
        return [], []
    data = json.load(open(p))
    return ([e for e in data.get("known", []) if e["property"] == pid],
            [e for e in data.get("fixed", []) if e["property"] == pid])


def write_replay(pid, payload):
    d = os.path.join(OUT, "replay")
    os.makedirs(d, exist_ok=True)
    blob = json.dumps(payload, sort_keys=True, indent=1)
    h = hashlib.sha256(blob.encode()).hexdigest()[:12]
    p = os.path.join(d, "%s-%s.json" % (pid, h))
    open(p, "w").write(blob)
    return p


def write_evidence(pid, tier, seed, t0, coverage, assumptions, violations, extra=None):
    os.makedirs(EVID, exist_ok=True)
    ev = {
        "property_id": pid, "tier": tier, "seed": seed, "level": "proof",
        "coverage": coverage, "assumptions": assumptions,
        "wall_s": round(time.time() - t0, 2), "violations": violations,
    }
    if extra:
        ev.update(extra)
    p = os.path.join(EVID, pid + ".json")
    tmp = p + ".tmp"
    open(tmp, "w").write(json.dumps(ev, indent=1, sort_keys=True))
    os.replace(tmp, p)


class Check:
    """Common flow of one property check (DESIGN.md §4)."""

    def __init__(self, pid, tier, seed, replay=None):
        self.pid, self.tier, self.seed, self.replay = pid, tier, seed, replay
        self.t0 = time.time()
        self.violations = []          # (replay_path, has_input)
        self.proof_breaks = []        # names of theorems / builds / correspondences that no longer check
        self.fact_breaks = []         # (group, lemma) of translator facts that changed
        self.known_printed = []
        self.obligations = 0
        self.discharged = 0
        self.trusted = []
        self.assumptions = []
        self.coverage = {}
        self.samples = []
        self.checker_cmds = []
        self.known, self.fixed = known_findings(pid)
        self.stale_known = []

    # -- proof side ---------------------------------------------------------
    def prove(self, targets, prop_files, allow=(), facts=()):
        """Regenerates the translator facts, builds the .vo targets and re-checks every
        Properties.v; counts obligations. `facts`: groups of tools/translate.py whose
        agreement lemmas (Expected/FactsAgree<g>.v) belong to this property."""
        rc, out = sh([sys.executable, os.path.join(ROOT, "tools", "translate.py")], timeout=300)
        if rc != 0:
            raise FrameworkError("translator failed: " + out[-500:])
        for g in facts:
            ap = "theories/Expected/FactsAgree%s.v" % g
            src = open(os.path.join(COQ, ap)).read()
            lemmas = re.findall(r"^Lemma\s+(\w+)", src, re.M)
            self.obligations += len(lemmas)
            with Lock("coq"):
                # dependencies first (Generated may have changed), then the agreement file itself
                ok_dep, out_dep = True, ""
            okf, outf = coq_make([ap + "o"])
            self.checker_cmds.append("python3 tools/translate.py ; cd coq && make " + ap + "o")
            if okf:
                self.discharged += len(lemmas)
                self.trusted.append("regenerated facts %s agree with Expected/Facts%s.v (reflexivity): %s" % (g, g, ", ".join(lemmas)))
            else:
                m = re.search(r"File \"[^\"]*FactsAgree%s.v\", line (\d+)" % g, outf)
                which = "?"
                if m:
                    ln = int(m.group(1))
                    before = src.split("\n")[:ln]
                    which = [x for x in re.findall(r"Lemma\s+(\w+)", "\n".join(before))][-1:] or ["?"]
                    which = which[0]
                self.fact_breaks.append((g, which))
                self.proof_breaks.append("translator fact changed: %s (Generated/Facts%s.v no longer equals Expected/Facts%s.v)" % (which, g, g))
        probs = audit_coq()
        if probs:
            self.proof_breaks.append("audit: " + "; ".join(probs[:10]))
        ok, out = coq_make(targets)
        self.checker_cmds.append("cd coq && make -j16 " + " ".join(targets))
        if not ok:
            self.proof_breaks.append("coq build failed: " + out[-1500:])
        for pf in prop_files:
            src = strip_coq_comments(open(os.path.join(COQ, pf)).read())
            thms = re.findall(r"^\s*Theorem\s+([A-Za-z0-9_']+)", src, re.M)
            self.obligations += len(thms)
            if not ok:
                continue
            pok, thms2, assum, bad, raw = coq_properties(pf, set(allow))
            self.checker_cmds.append("cd coq && coqc -Q theories TsrunV " + pf)
            if not pok:
                self.proof_breaks.append("%s does not check: %s" % (pf, raw[-1200:]))
                continue
            for t in thms2:
                if t in bad:
                    self.proof_breaks.append("theorem %s depends on non-allow-listed axioms %s" % (t, bad[t]))
                else:
                    self.discharged += 1
                self.trusted.append("Print Assumptions %s: %s" % (
                    t, ", ".join(assum.get(t, [])) or "Closed under the global context"))
        return ok

    # -- verdict --------------------------------------------------------------
    def violation(self, payload, has_input=True):
        payload = dict(payload)
        payload["property"] = self.pid
        payload["replay_cmd"] = "./vcheck check %s --replay <this file>" % self.pid
        p = write_replay(self.pid, payload)
        self.violations.append((p, has_input))
        return p

    def known_finding(self, entry, detail=""):
        key = entry["class"]
        if key not in self.known_printed:
            self.known_printed.append(key)
            log("KNOWN-FINDING: property=%s %s: %s" % (self.pid, key, entry["what_fails"]))

    def finish(self, extra=None):
        # proof or tie broken without a concrete failing input
        if self.proof_breaks and not any(h for _, h in self.violations):
            p = write_replay(self.pid, {"property": self.pid, "no_longer_checks": self.proof_breaks,
                                        "note": "proof obligation or correspondence broken; the search found no failing input"})
            self.violations.append((p, False))
        cov = {
            "obligations": self.obligations, "discharged": self.discharged,
            "checker_cmd": " ; ".join(dict.fromkeys(self.checker_cmds)) or "none",
            "trusted_base": self.trusted + [
                "Coq 8.16.1 kernel, vm_compute (no native_compute)",
                "ExtrOcamlBasic extraction (no Extract Constant) + OCaml drivers where the model runs extracted",
                "tools/translate.py, lib/*.py generators and canonicalisers, harness/ (Rust)",
            ],
            "samples": self.samples[:8] or ["(no samples)"],
        }
        cov.update(self.coverage)
        ex = {"known_findings_reproduced": self.known_printed, "stale_known_findings": self.stale_known,
              "proof_breaks": self.proof_breaks[:5]}
        if extra:
            ex.update(extra)
        write_evidence(self.pid, self.tier, self.seed, self.t0, cov, self.assumptions,
                       len(self.violations), ex)
        for p, has in self.violations:
            log("VIOLATION property=%s replay=%s%s" % (self.pid, p, "" if has else " no-failing-input-found"))
        return 1 if self.violations else 0


class FrameworkError(Exception):
    """The machinery itself failed (model side died, tool missing): exit 2, never a VIOLATION."""


def run_programs(th, programs, mode="run", tag="batch", timeout=600, per_program_timeout=None, mem_limit=None):
    """Runs (name, opts, source) programs through `th run` / `th compile` in a
    worker process. A program that kills the worker (stack overflow, abort,
    timeout) gets status 'died' with the exit status; the worker is restarted
    on the remaining programs. Returns {name: outcome-dict}."""
    d = os.path.join(OUT, "progs")
    os.makedirs(d, exist_ok=True)
    inp = os.path.join(d, "%s-%d.in" % (tag, os.getpid()))
    outp = os.path.join(d, "%s-%d.out" % (tag, os.getpid()))
    with open(inp, "w") as f:
        for name, opts, src in programs:
            f.write("%%%%%%%% %s%s\n%s\n" % (name, (" " + opts) if opts else "", src))
    if os.path.exists(outp):
        os.remove(outp)
    results = {}
    skip = 0
    names = [p[0] for p in programs]
    while skip < len(programs):
        cmd = [th, mode, inp, outp, str(skip)]
        if mem_limit:
            cmd = ["prlimit", "--as=%d" % mem_limit] + cmd
        rc, out = sh(cmd, timeout=per_program_timeout or timeout)
        done = 0
        last_begin = None
        if os.path.exists(outp):
            for line in open(outp, errors="replace"):
                line = line.strip()
                if not line:
                    continue
                try:
                    j = json.loads(line)
                except ValueError:
                    continue
                if j.get("begin"):
                    last_begin = j["name"]
                else:
                    results[j["name"]] = j
                    done += 1
                    last_begin = None
            os.remove(outp)
        if rc == 0 and last_begin is None:
            break
        # the worker died on program skip+done
        k = skip + done
        if k < len(names):
            results[names[k]] = {"name": names[k], "status": "died", "exit": rc, "tail": out[-300:]}
        skip = k + 1
    if os.path.exists(inp):
        os.remove(inp)
    return results
