"""C01, mechanism M6: for-of with a binding per iteration (coq/theories/Lang/ForOf*.v).

The tie, on every run:
  * the instructions compile_for_of emits around the body must be `cforof p`
    (the body collapsed to one instruction): order, jump targets, the handler's
    catch target, and every break / continue of the body must close the
    iterator first (break), aim at the loop's end / head and leave exactly the
    body's own scopes plus the iteration's;
  * closures created in the body, called after the loop, must return the value
    of THEIR iteration (the log of the model machine), next() / return() counts
    must be the model's, and a binding shadowed in the body must be the outer
    one again after the loop;
  * node must agree with the specification side (`spec`)."""
import json
import os
import re
import subprocess
from concurrent.futures import ThreadPoolExecutor

import common

PID = "C01"

HEADS = {"const": "for (const v of it)", "let": "for (let v of it)", "destructure": "for (const [v] of wrap(it))", "for-in": "for (const k in obj)"}


def program_in(m, brks, conts, nested):
    """for-in over an object whose keys k10, k11, .. stand for the values; closures capture the key."""
    src = ("const obj = {%s}; const B = [%s], C = [%s]; const fs = []; let x = 'outer';\n"
           % (", ".join("k%d: 1" % (10 + i) for i in range(m)), ", ".join(map(str, brks)), ", ".join(map(str, conts))))
    body = "const v = Number(k.slice(1)); fs.push(() => k); if (B.includes(v)) break; if (C.includes(v)) continue; const x = v;"
    if nested:
        body = "const v = Number(k.slice(1)); fs.push(() => k); { const y = v; if (B.includes(y)) break; { if (C.includes(y)) continue; } } const x = v;"
    src += "for (const k in obj) { %s }\n" % body
    src += "fs.map(f => Number(f().slice(1))).join() + '/F/' + (x === 'outer' ? 'T' : 'F')"
    return src


def program(head, m, brks, conts, nested):
    if head == "for-in":
        return program_in(m, brks, conts, nested)
    vals = ", ".join(str(10 + i) for i in range(m))
    src = ("let n = 0, c = 0; const vals = [%s];\n"
           "const it = {[Symbol.iterator]() { let i = 0; return {next() { n++; return i < vals.length ? {value: vals[i++], done: false} "
           ": {value: 99, done: true}; }, return() { c++; return {}; }}; }};\n"
           "function wrap(s) { return {[Symbol.iterator]() { const q = s[Symbol.iterator](); return {next() { const r = q.next(); "
           "return r.done ? r : {value: [r.value], done: false}; }, return() { return q.return(); }}; }}; }\n"
           "const B = [%s], C = [%s]; const fs = []; let x = 'outer';\n" % (vals, ", ".join(map(str, brks)), ", ".join(map(str, conts))))
    body = "fs.push(() => v); if (B.includes(v)) break; if (C.includes(v)) continue; const x = v;"
    if nested:
        body = "fs.push(() => v); { const y = v; if (B.includes(y)) break; { if (C.includes(y)) continue; } } const x = v;"
    src += "%s { %s }\n" % (HEADS[head], body)
    src += "fs.map(f => f()).join() + '/' + n + '/' + (c === 1 ? 'T' : c === 0 ? 'F' : 'c' + c) + '/' + (x === 'outer' ? 'T' : 'F')"
    return src


def program_throw(m, conts, throw_on, shape):
    """Reference-only variants (node decides, no model): the body throws on one value, possibly after having
    continued on earlier ones; the loop sits inside try / catch / finally in one of several shapes. Observed: the
    values seen, next() / return() calls, which handlers ran and in which order."""
    vals = ", ".join(str(10 + i) for i in range(m))
    src = ("let n = 0, c = 0; const vals = [%s]; const log = [];\n"
           "const it = {[Symbol.iterator]() { let i = 0; return {next() { n++; return i < vals.length ? {value: vals[i++], done: false} "
           ": {value: 99, done: true}; }, return() { c++; log.push('ret'); return {}; }}; }};\n"
           "const C = [%s];\n" % (vals, ", ".join(map(str, conts))))
    loop = "for (const v of it) { log.push(v); if (C.includes(v)) continue; if (v === %d) throw new RangeError('t' + v); log.push('e' + v); }" % throw_on
    if shape == "plain":
        src += "try { %s log.push('after'); } catch (e) { log.push('catch:' + e.message); }\n" % loop
    elif shape == "finally":
        src += "try { try { %s log.push('after'); } finally { log.push('finally'); } } catch (e) { log.push('outer:' + e.message); }\n" % loop
    elif shape == "later-throw":
        src += ("try { try { %s log.push('after'); null.x; log.push('unreachable'); } catch (e) { log.push('inner:' + e.name); } "
                "finally { log.push('finally'); } } catch (e2) { log.push('outer:' + e2.name); }\n" % loop)
    elif shape == "inner-loop":
        # a loop, a switch and a labeled block are left inside the body before it throws
        loop = ("for (const v of it) { log.push(v); if (C.includes(v)) continue; for (let j = 0; j < 2; j++) { if (j === 1) break; } "
                "switch (v) { case 10: break; default: break; } blk: { break blk; } if (v === %d) throw new RangeError('t' + v); log.push('e' + v); }" % throw_on)
        src += "try { %s log.push('after'); } catch (e) { log.push('catch:' + e.message); }\n" % loop
    elif shape == "inner-try":
        # a try statement in the body whose block leaves an inner loop before throwing
        loop = ("for (const v of it) { log.push(v); try { for (;;) { break; } if (C.includes(v)) continue; if (v === %d) throw new RangeError('t' + v); log.push('e' + v); } "
                "catch (e) { log.push('in:' + e.message); } finally { log.push('f' + v); } }" % throw_on)
        src += "try { %s log.push('after'); } catch (e) { log.push('catch:' + e.message); }\n" % loop
    elif shape == "function":
        src += ("function f() { try { %s return 'done'; } catch (e) { log.push('catch:' + e.message); return 'caught'; } finally { log.push('finally'); } }\n"
                "log.push(f());\n" % loop)
    src += "log.join() + '/' + n + '/' + c"
    return src


def skeleton(ops):
    """(start index, rendering of the loop's own instructions with the body collapsed, list of findings about the body)."""
    g = [j for j, o in enumerate(ops) if o.startswith("GetIterator")]
    if not g:
        return None, ["no GetIterator"], []
    p = g[-1] + 1
    # the loop's handler
    try:
        pit = next(j for j in range(p, len(ops)) if ops[j].startswith("PushIterTry"))
    except StopIteration:
        return p, ["no PushIterTry"], []
    m = re.match(r"PushIterTry \{ iterator: (\d+), catch_target: (\d+) \}", ops[pit])
    catch = int(m.group(2))
    # body = everything between PushIterTry and the PopIterTry; PopScope; Jump that precede the catch target
    body_end = catch - 3
    blen = body_end - (pit + 1)
    issues = []

    def back(t):   # real index -> index with the body collapsed to one instruction
        return t if t <= pit else t - (blen - 1)
    out = []
    for j in list(range(p, pit + 1)) + ["body"] + list(range(body_end, catch + 2)):
        if j == "body":
            out.append("body")
            continue
        o = ops[j] if j < len(ops) else "<end>"
        mm = re.match(r"(\w+)(?: \{ (.*) \})?$", o)
        name, args = mm.group(1), mm.group(2) or ""
        kv = dict(a.split(": ") for a in args.split(", ")) if args else {}
        if name == "IteratorNext":
            out.append("next")
        elif name == "IteratorDone":
            out.append("id%d" % back(int(kv["target"])))
        elif name == "IteratorValue":
            out.append("value")
        elif name == "PushScope":
            out.append("pushscope")
        elif name in ("DeclareVar",):
            out.append("declare")
        elif name == "PushIterTry":
            out.append("pushitertry" if back(int(kv["catch_target"])) == back(catch) else "pushitertry@%s" % kv["catch_target"])
        elif name == "PopIterTry":
            out.append("popitertry")
        elif name == "PopScope":
            out.append("popscope")
        elif name == "Jump":
            out.append("j%d" % back(int(kv["target"])))
        elif name == "IteratorClose":
            out.append("close")
        elif name == "Rethrow":
            out.append("rethrow")
        else:
            out.append("?" + o)
    end = catch + 2
    depth = 0
    for j in range(pit + 1, body_end):
        o = ops[j]
        if o == "PushScope":
            depth += 1
        elif o == "PopScope":
            depth -= 1
        elif o.startswith("Break"):
            kv = dict(a.split(": ") for a in o[o.index("{") + 2:-2].split(", "))
            if int(kv["target"]) != end or int(kv["scopes"]) != depth + 1 or not ops[j - 1].startswith("IteratorClose"):
                issues.append("break at %d: %s (end %d, body depth %d, preceded by %s)" % (j, o, end, depth, ops[j - 1]))
        elif o.startswith("Continue"):
            kv = dict(a.split(": ") for a in o[o.index("{") + 2:-2].split(", "))
            if int(kv["target"]) != p or int(kv["scopes"]) != depth + 1:
                issues.append("continue at %d: %s (head %d, body depth %d)" % (j, o, p, depth))
    return p, out, issues


def skeleton_in(ops):
    g = [j for j, o in enumerate(ops) if o.startswith("GetKeysIterator")]
    if not g:
        return None, ["no GetKeysIterator"], []
    p = g[-1] + 1
    m = re.match(r"IteratorDone \{ result: (\d+), target: (\d+) \}", ops[p + 1]) if p + 1 < len(ops) else None
    if not m:
        return p, ["no IteratorDone behind IteratorNext"], []
    end = int(m.group(2))
    decl = p + 4                       # next, done, value, PushScope, DeclareVar
    body_end = end - 2                 # PopScope; Jump
    blen = body_end - (decl + 1)
    issues = []

    def back(t):
        return t if t <= decl else t - (blen - 1)
    out = []
    names = {"IteratorNext": "next", "IteratorValue": "value", "PushScope": "pushscope", "DeclareVar": "declare", "PopScope": "popscope"}
    for j in list(range(p, decl + 1)) + ["body"] + list(range(body_end, end)):
        if j == "body":
            out.append("body")
            continue
        o = ops[j]
        name = o.split(" ")[0]
        kv = dict(a.split(": ") for a in o[o.index("{") + 2:-2].split(", ")) if "{" in o else {}
        if name == "IteratorDone":
            out.append("id%d" % back(int(kv["target"])))
        elif name == "Jump":
            out.append("j%d" % back(int(kv["target"])))
        elif name in names:
            out.append(names[name])
        else:
            out.append("?" + o)
    depth = 0
    for j in range(decl + 1, body_end):
        o = ops[j]
        if o == "PushScope":
            depth += 1
        elif o == "PopScope":
            depth -= 1
        elif o.startswith("Break") or o.startswith("Continue"):
            kv = dict(a.split(": ") for a in o[o.index("{") + 2:-2].split(", "))
            want = end if o.startswith("Break") else p
            if int(kv["target"]) != want or int(kv["scopes"]) != depth + 1:
                issues.append("%s at %d (target %d, body depth %d)" % (o, j, want, depth))
    return p, out, issues


def node_values(srcs, tag):
    d = os.path.join(common.OUT, PID)
    os.makedirs(d, exist_ok=True)
    p = os.path.join(d, "forof_%s.json" % tag)
    json.dump(srcs, open(p, "w"))
    js = ("const fs=require('fs'),vm=require('vm');const S=JSON.parse(fs.readFileSync(process.argv[1],'utf8'));"
          "const out=S.map(s=>{try{return String(vm.runInNewContext(s,{}, {timeout:5000}));}catch(e){return 'error '+e.name;}});"
          "process.stdout.write(JSON.stringify(out));")
    try:
        r = subprocess.run(["node", "-e", js, p], capture_output=True, text=True, timeout=600)
        os.remove(p)
        return json.loads(r.stdout)
    except Exception as ex:
        raise common.FrameworkError("node is required for C01: " + str(ex))


def cases(chk):
    rng = common.Rng(chk.seed, "C01forof")
    out = []
    maxm = 4 if chk.tier == "quick" else 6
    for m in range(0, maxm + 1):
        vals = [10 + i for i in range(m)]
        subsets = [[]] + [[v] for v in vals] + ([[vals[0], vals[-1]]] if m > 1 else [])
        for brks in subsets:
            for conts in subsets:
                for head in ("const", "let", "destructure", "for-in"):
                    out.append((head, m, brks, conts, (len(out) % 3 == 0)))
    for _ in range(20 if chk.tier == "quick" else 400):
        m = 5 + rng.below(40)
        vals = [10 + i for i in range(m)]
        brks = [rng.choice(vals)] if rng.chance(1, 2) else []
        conts = [v for v in vals if rng.chance(1, 3)]
        out.append((rng.choice(["const", "let", "destructure", "for-in"]), m, brks, conts, rng.chance(1, 2)))
    return out


def run(chk, th, stats):
    cs = cases(chk)
    if chk.replay:
        r = json.load(open(chk.replay))
        cs = [(r["head"], r["values"], r["break_on"], r["continue_on"], r["nested"])]
    srcs = [program(*c) for c in cs]
    progs = [("f%d" % i, "", s) for i, s in enumerate(srcs)]
    cres = common.run_programs(th, progs, mode="compile", tag="c01fo-c", timeout=1200)
    rres = common.run_programs(th, [(a, "steps=5000000", s) for a, _, s in progs], tag="c01fo-r", timeout=1200)
    nres = node_values(srcs, "n")
    skels = []
    for i in range(len(cs)):
        c = cres.get("f%d" % i, {})
        sk = skeleton_in if cs[i][0] == "for-in" else skeleton
        skels.append(sk(c.get("ops") or []) if c.get("status") == "ok" else (0, ["status:%s" % c.get("status")], []))
    rows = []
    for (head, m, brks, conts, nested), (p, _, _) in zip(cs, skels):
        z = lambda l: "[%s]%%Z" % ";".join(str(x) for x in l)
        rows.append("%s %d %s %s %s" % ("forin_case" if head == "for-in" else "forof_case", p or 0, z([10 + i for i in range(m)]), z(brks), z(conts)))
    jobs, model = [], []
    shard = 300
    for k in range(0, len(rows), shard):
        body = ("From Coq Require Import String ZArith List.\nFrom TsrunV Require Import Lang.ForOf Lang.ForOfExec Base.Render.\n"
                "Import ListNotations.\nLocal Open Scope string_scope.\nEval vm_compute in (lines [%s])." % ";\n ".join(rows[k:k + shard]))
        jobs.append(("c01fo_%d" % (k // shard), body))
    with ThreadPoolExecutor(8) as ex:
        outs = list(ex.map(lambda j: common.run_cases_v(j[0], j[1], timeout=900), jobs))
    for (name, _), (got, raw) in zip(jobs, outs):
        if got is None:
            chk.proof_breaks.append("Lang.ForOfExec cases do not evaluate (%s): %s" % (name, raw[-600:]))
            return
        model += got
    if len(model) != len(cs):
        chk.proof_breaks.append("Lang.ForOfExec returned %d rows for %d cases" % (len(model), len(cs)))
        return
    for i, ((head, m, brks, conts, nested), row) in enumerate(zip(cs, model)):
        stats["forof_cases"] = stats.get("forof_cases", 0) + 1
        code, mach, spec = row.split("|")
        rep = {"head": head, "values": m, "break_on": brks, "continue_on": conts, "nested": nested, "program": srcs[i]}
        if mach != spec + "" and mach.rsplit("/", 1)[0] != spec.rsplit("/", 1)[0]:
            chk.proof_breaks.append("model machine and specification disagree (theorem c01_for_of_code_has_the_ecmascript_meaning would be false): "
                                    "%s vs %s" % (mach, spec))
            continue
        want = spec      # values/nexts/closed/environments distinct (= outer binding restored, observed through x)
        r = rres.get("f%d" % i, {})
        if r.get("status") == "complete" and str(r.get("value", "")).startswith("str:"):
            iv = r["value"][4:]
        elif r.get("status") == "error":
            iv = "error " + str(r.get("class"))
        else:
            iv = "status " + str(r.get("status"))
        nv = nres[i]
        if nv != want:
            if iv == nv:
                chk.proof_breaks.append("the specification side of Lang/ForOf.v disagrees with the reference engine and the implementation on %s: "
                                        "spec %s, node %s" % (json.dumps(rep)[:200], want, nv))
            elif len(chk.violations) < 6:
                rep.update({"tsrun": iv, "specification": want, "node": nv, "what": "for-of: implementation, specification and node all differ"})
                chk.violation(rep)
            continue
        if iv != want:
            if len(chk.violations) < 6:
                rep.update({"tsrun": iv, "specification": want, "node": nv,
                            "what": "for-of: the closures of the iterations do not each see their own value, or next() / return() are called "
                                    "otherwise, or the outer binding is not restored (format: closure values/next calls/closed/outer restored)"})
                chk.violation(rep)
            continue
        if head == "destructure":
            continue   # the pattern's own instructions sit between value and handler: mechanism M4's subject
        p, real, issues = skels[i]
        want_code = [("body" if w.startswith("body") else w) for w in code.split(";")]
        stats["forof_instructions"] = stats.get("forof_instructions", 0) + len(want_code)
        if (real != want_code or issues) and len(chk.proof_breaks) < 4:
            chk.proof_breaks.append("correspondence Lang.ForOf.cforof vs compile_for_of on `%s`: real %s vs model %s; body: %s"
                                    % (HEADS[head], ";".join(real), ";".join(want_code), "; ".join(issues) or "ok"))


def run_throw(chk, th, stats):
    """for-of bodies that throw (reference-only: node is the oracle)."""
    cs = []
    for m in (1, 2, 3, 4):
        vals = [10 + i for i in range(m)]
        for t in vals + [99]:
            for conts in ([], [vals[0]], vals[:-1] if m > 1 else []):
                for shape in ("plain", "finally", "later-throw", "function", "inner-loop", "inner-try"):
                    cs.append((m, conts, t, shape))
    if chk.replay:
        r = json.load(open(chk.replay))
        cs = [(r["values"], r["continue_on"], r["throw_on"], r["shape"])]
    srcs = [program_throw(*c) for c in cs]
    rres = common.run_programs(th, [("t%d" % i, "steps=5000000", s) for i, s in enumerate(srcs)], tag="c01fo-t", timeout=1200)
    nres = node_values(srcs, "t")
    for i, (m, conts, t, shape) in enumerate(cs):
        stats["forof_throw_cases"] = stats.get("forof_throw_cases", 0) + 1
        r = rres.get("t%d" % i, {})
        if r.get("status") == "complete" and str(r.get("value", "")).startswith("str:"):
            iv = r["value"][4:]
        elif r.get("status") == "error":
            iv = "error " + str(r.get("class"))
        else:
            iv = "status " + str(r.get("status"))
        if iv != nres[i] and len(chk.violations) < 6:
            chk.violation({"values": m, "continue_on": conts, "throw_on": t, "shape": shape, "program": srcs[i], "tsrun": iv, "node": nres[i],
                           "what": "for-of whose body throws: the iterator is not closed exactly once, or the surrounding try / catch / finally "
                                   "does not see the exception as the reference engine does (format: log/next calls/return calls)"})
