"""C18 — module specifiers resolve to canonical paths.
Proof: coq/theories/Path/Properties.v. Tie: extracted Path.Model.resolve vs
tsrun::ModulePath::resolve on exhaustive + random + corpus streams. Oracle for
the failing-input search: an independent rewriting normaliser (below), i.e.
the property text itself."""
import itertools
import json
import os

import common
from common import log

ALPHABET = ["", ".", "..", "a", "b", "..a", "a.ts"]
PID = "C18"


def hx(s):
    return (s if isinstance(s, bytes) else s.encode("utf-8", "surrogateescape")).hex()


def build(segs, lead, trail):
    return ("/" if lead else "") + "/".join(segs) + ("/" if trail else "")


def strings_upto(k):
    seen = {}
    for n in range(k + 1):
        for segs in itertools.product(ALPHABET, repeat=n):
            for lead in (False, True):
                for trail in (False, True):
                    seen.setdefault(build(segs, lead, trail), None)
    return list(seen)


# ---- oracle: the property text, executed ---------------------------------
def is_bare(spec):
    return not spec.startswith("/") and not (spec.startswith("./") or spec.startswith("../"))


def rewrite_nf(segs):
    """Normal form of the rewrite system of Path/Rewrite.v by naive repeated
    rewriting (deliberately not the stack algorithm)."""
    segs = list(segs)
    changed = True
    while changed:
        changed = False
        for i, s in enumerate(segs):
            if s in ("", "."):
                del segs[i]
                changed = True
                break
            if s == ".." and i == 0:
                del segs[0]
                changed = True
                break
            if s == ".." and segs[i - 1] not in ("", ".", ".."):
                del segs[i - 1:i + 1]
                changed = True
                break
    return segs


def oracle(spec, base):
    """Expected result where the property prescribes one, else None."""
    if is_bare(spec):
        return spec
    if spec.startswith("/"):
        return "/" + "/".join(rewrite_nf(spec.split("/")))
    if base is not None and base.startswith("/"):
        d = base[:base.rfind("/")]
        return "/" + "/".join(rewrite_nf((d + "/" + spec).split("/")))
    return None


# ---- streams ---------------------------------------------------------------
def gen_random(rng, n):
    pool = ALPHABET + ["é", "日本", "x y", "...", "c-d", "☃.ts", "%2e", "\\", "a:b", "..."]
    out = []
    for _ in range(n):
        def path(maxlen):
            k = rng.below(maxlen + 1)
            segs = [rng.choice(pool) for _ in range(k)]
            return build(segs, rng.chance(1, 2), rng.chance(1, 4))
        spec = path(14)
        r = rng.below(10)
        if r < 3 and not spec.startswith((".", "/")):
            spec = rng.choice(["./", "../", "/"]) + spec
        base = None if rng.chance(1, 12) else path(12)
        if base is not None and rng.chance(3, 4) and not base.startswith("/"):
            base = "/" + base
        out.append((spec, base))
    return out


def run_both(chk, cases, tag):
    d = os.path.join(common.OUT, PID)
    os.makedirs(d, exist_ok=True)
    cf = os.path.join(d, tag + ".cases")
    with open(cf, "w") as f:
        for spec, base in cases:
            f.write("%s %s\n" % (hx(spec), "-" if base is None else hx(base)))
    oi, om = os.path.join(d, tag + ".impl"), os.path.join(d, tag + ".model")
    rc, out = common.sh([chk.th, "path", cf, oi], timeout=1800)
    if rc != 0:
        # a crash of the implementation on some input is itself a finding
        return None, None, "implementation run failed rc=%s: %s" % (rc, out[-500:])
    rc, out = common.sh([chk.drv, cf, om], timeout=1800)
    if rc != 0:
        raise common.FrameworkError("model driver failed: " + out[-500:])
    ri = open(oi).read().split("\n")
    rm = open(om).read().split("\n")
    for p in (cf, oi, om):
        os.remove(p)
    return ri, rm, None


def judge(chk, cases, ri, rm, stats, stream):
    n_dis = 0
    for i, (spec, base) in enumerate(cases):
        a = bytes.fromhex(ri[i]).decode("utf-8", "replace") if i < len(ri) else None
        m = bytes.fromhex(rm[i]).decode("utf-8", "replace") if i < len(rm) and rm[i] != "?" else None
        exp = oracle(spec, base)
        if exp is not None:
            stats["in_domain"] += 1
        if a == m and (exp is None or a == exp):
            continue
        n_dis += 1
        if n_dis > 5:
            continue
        if exp is not None and a != exp:
            chk.violation({"stream": stream, "specifier": spec, "importer": base, "implementation": a,
                           "model": m, "specified": exp,
                           "what": "ModulePath::resolve differs from join+normalise"})
        elif a != m:
            chk.proof_breaks.append("correspondence Path.Model.resolve vs ModulePath::resolve on (%r, %r): impl %r model %r"
                                    % (spec, base, a, m))
        else:
            raise common.FrameworkError("model and implementation agree (%r) but the oracle says %r for (%r,%r)"
                                        % (a, exp, spec, base))
    stats["disagreements"] += n_dis


def run(chk):
    chk.assumptions = ["strings are byte strings; '/' is ASCII so byte-level split equals str::split('/')",
                       "correspondence covers the public ModulePath::resolve only"]
    chk.prove(["theories/Path/Properties.vo"], ["theories/Path/Properties.v"])
    ok, out, chk.th = common.build_harness("debug")
    if not ok:
        chk.proof_breaks.append("harness does not build against /repo: " + out[-800:])
        return chk.finish()
    ok, out, chk.drv = common.build_ocaml("path")
    if not ok:
        raise common.FrameworkError("ocaml model build failed: " + out[-800:])

    stats = {"in_domain": 0, "disagreements": 0}
    streams = {}
    rng = common.Rng(chk.seed, PID)

    if chk.replay:
        r = json.load(open(chk.replay))
        cases = [(r["specifier"], r.get("importer"))]
        ri, rm, err = run_both(chk, cases, "replay")
        judge(chk, cases, ri, rm, stats, "replay")
        log("replay: impl=%r model=%r specified=%r" % (bytes.fromhex(ri[0]).decode("utf-8", "replace"),
                                                       bytes.fromhex(rm[0]).decode("utf-8", "replace"),
                                                       oracle(*cases[0])))
        return chk.finish()

    # corpus first
    corpus = []
    cp = os.path.join(common.CORPUS, PID, "cases.json")
    if os.path.exists(cp):
        corpus = [(c["specifier"], c.get("importer")) for c in json.load(open(cp))]
    plan = [("corpus", corpus)]
    if chk.tier == "quick":
        A, B = strings_upto(3), strings_upto(3)
        plan.append(("exhaustive spec<=3 x importer<=3 segments (+ no importer)", [(s, b) for s in A for b in B + [None]]))
        plan.append(("random long / non-ASCII", gen_random(rng, 20000)))
    else:
        A3, A4, A6, A7 = strings_upto(3), strings_upto(4), strings_upto(6), strings_upto(7)
        few = ["/main.ts", "/a/b/a.ts", "/a/../b/./a.ts", "a/b.ts", "/", "/a//"]
        plan.append(("exhaustive spec<=4 x importer<=3 segments (+ no importer)", [(s, b) for s in A4 for b in A3 + [None]]))
        plan.append(("exhaustive spec<=7 x 2 importers", [(s, b) for s in A7 for b in few[:2]]))
        plan.append(("exhaustive spec<=6 x 6 importers", [(s, b) for s in A6 for b in few]))
        plan.append(("exhaustive 12 specs x importer<=7", [(s, b) for s in ["./a", "../a", "./../a.ts", "../../b", "./a/../b", "/a",
                                                                        "a", "./", "../", "./.", "./..a", "./b/"] for b in A7]))
        plan.append(("random long / non-ASCII", gen_random(rng, 300000)))

    total = 0
    distinct = set()
    for name, cases in plan:
        if not cases:
            continue
        ri, rm, err = run_both(chk, cases, "s%d" % len(streams))
        if err:
            chk.violation({"stream": name, "what": err})
            continue
        judge(chk, cases, ri, rm, stats, name)
        streams[name] = len(cases)
        total += len(cases)
        for i in range(0, len(cases), max(1, len(cases) // 5000)):
            if ri[i] != hx(cases[i][0]):
                distinct.add(ri[i])
        chk.samples.append({"stream": name, "specifier": cases[len(cases) // 2][0], "importer": cases[len(cases) // 2][1],
                            "resolved": bytes.fromhex(ri[len(cases) // 2]).decode("utf-8", "replace")})
    chk.coverage.update({
        "evaluations": total, "distinct_nontrivial": len(distinct),
        "rule": "streams enumerate or draw (specifier, importer) pairs; non-trivial = resolution changed the "
                "specifier; distinct = distinct resolved paths among a 5000-point subsample per stream",
        "exhaustive": True, "streams": streams, "in_property_domain": stats["in_domain"],
        "disagreements": stats["disagreements"],
    })
    return chk.finish()
