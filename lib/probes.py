"""Systematic probe matrix for C01: operator x operand-type cross product,
unary operators, library entry points x argument shapes, and control-flow
snippets. Every probe is a single expression (or an IIFE) evaluated inside a
try/catch by a common driver program, in tsrun and in the reference engine.
Probe ids are stable strings (they key the known-deviation list)."""
import json

PRELUDE = r"""
function __p(v) {
  if (v === undefined) return "undefined";
  if (v === null) return "null";
  const t = typeof v;
  if (t === "number") { if (v !== v) return "NaN"; if (v === 0) return (1 / v < 0) ? "-0" : "0"; return String(v); }
  if (t === "string") return JSON.stringify(v);
  if (t === "boolean") return String(v);
  if (t === "function") return "fn";
  if (t === "symbol") return "symbol";
  if (Array.isArray(v)) { const parts = []; for (let i = 0; i < v.length; i++) parts.push(__p(v[i])); return "[" + parts.join(",") + "]"; }
  if (v instanceof Map) return "Map(" + __p([...v.entries()]) + ")";
  if (v instanceof Set) return "Set(" + __p([...v.values()]) + ")";
  if (v instanceof Error) return v.name + "(" + v.message + ")";
  if (t === "object") { const ks = Object.keys(v); const parts = []; for (const k of ks) parts.push(k + ":" + __p(v[k])); return "{" + parts.join(",") + "}"; }
  return t;
}
const __r = [];
function __t(f) { try { __r.push(__p(f())); } catch (e) { __r.push("!" + ((e && e.name) || typeof e)); } }
"""

PRIMS = [("undef", "undefined"), ("null", "null"), ("true", "true"), ("false", "false"), ("0", "0"), ("m0", "(-0)"), ("1", "1"), ("m1.5", "(-1.5)"),
         ("7", "7"), ("big", "4294967301"), ("nan", "NaN"), ("inf", "Infinity"), ("sEmpty", '""'), ("sa", '"a"'), ("sB", '"B"'), ("s10", '"10"'),
         ("s1p", '" 1 "'), ("sx", '"0x10"'), ("suni", '"é日"')]
OBJS = [("arr0", "[]"), ("arr1", "[5]"), ("arr12", "[1,2]"), ("obj", "({})"), ("objv", "({valueOf() { return 42; }})"),
        ("objs", "({toString() { return 'S'; }})"), ("fn", "(function f() {})")]
BINOPS = ["+", "-", "*", "/", "%", "**", "==", "!=", "===", "!==", "<", "<=", ">", ">=", "&", "|", "^", "<<", ">>", ">>>", "&&", "||", "??",
          "in", "instanceof"]
UNOPS = ["-", "+", "!", "~", "typeof ", "void "]


def operator_probes():
    out = []
    for on, o in enumerate(BINOPS):
        for an, a in PRIMS:
            for bn, b in PRIMS:
                if o == "in":
                    continue
                if o == "instanceof":
                    continue
                out.append(("bin:%s:%s:%s" % (o, an, bn), "(%s %s %s)" % (a, o, b)))
        for an, a in OBJS:
            for bn, b in [PRIMS[6], PRIMS[13], PRIMS[0], ("arr1", "[5]"), ("objv", "({valueOf() { return 42; }})")]:
                if o in ("in", "instanceof"):
                    continue
                out.append(("bin:%s:%s:%s" % (o, an, bn), "(%s %s %s)" % (a, o, b)))
                out.append(("bin:%s:%s:%s" % (o, bn, an), "(%s %s %s)" % (b, o, a)))
    for k, e in [("in-own", "('a' in {a: 1})"), ("in-proto", "('toString' in {})"), ("in-arr-index", "(1 in [7, 8])"), ("in-arr-length", "('length' in [])"),
                 ("in-missing", "('b' in {a: 1})"), ("in-num-key", "(0 in {0: 1})"), ("inst-arr", "([] instanceof Array)"), ("inst-obj", "([] instanceof Object)"),
                 ("inst-fn", "((function () {}) instanceof Function)"), ("inst-err", "(new TypeError('x') instanceof Error)"),
                 ("inst-class", "(() => { class A {} class B extends A {} return [new B() instanceof A, new A() instanceof B]; })()"),
                 ("inst-prim", "(5 instanceof Number)")]:
        out.append(("bin:" + k, e))
    for o in UNOPS:
        for an, a in PRIMS + OBJS:
            out.append(("un:%s:%s" % (o.strip(), an), "(%s%s)" % (o, a)))
    for an, a in PRIMS + OBJS:
        out.append(("tostr:%s" % an, "String(%s)" % a))
        out.append(("tonum:%s" % an, "Number(%s)" % a))
        out.append(("tobool:%s" % an, "Boolean(%s)" % a))
        out.append(("tmpl:%s" % an, "`${%s}`" % a))
    for k, e in [("inc-str", "(() => { let s = '5'; s++; return s; })()"), ("dec-str", "(() => { let s = '5'; --s; return s; })()"),
                 ("inc-undef", "(() => { let s; s++; return s; })()"), ("postinc", "(() => { let n = 1; const a = n++; return [a, n]; })()"),
                 ("preinc", "(() => { let n = 1; const a = ++n; return [a, n]; })()"), ("add-assign-str", "(() => { let s = 1; s += '2'; return s; })()"),
                 ("exp-assoc", "(2 ** 3 ** 2)"), ("prec-mul-add", "(1 + 2 * 3)"), ("prec-shift", "(1 + 2 << 3)"), ("prec-cmp", "(1 < 2 === true)"),
                 ("prec-bit", "(1 | 2 & 3 ^ 1)"), ("prec-logic", "(true || false && false)"), ("nullish-or", "((null ?? 0) || 5)"),
                 ("cond-chain", "(false ? 1 : true ? 2 : 3)"), ("comma", "((1, 2, 3))"), ("opt-chain", "(({a: {b: 1}}).a?.b)"), ("opt-chain-undef", "((undefined)?.x)"),
                 ("opt-call", "((undefined)?.())"), ("typeof-undeclared", "(typeof nope_not_declared)"), ("delete-prop", "(() => { const o = {a: 1}; delete o.a; return 'a' in o; })()"),
                 ("void0", "(void 0)"), ("neg-exp", "((-2) ** 2)"), ("mod-neg", "(-9 % 3)"), ("mod-frac", "(-4.5 % 1.5)"), ("mod-neg0", "(-0 % 5)"), ("mod-inf", "(5 % Infinity)"),
                 ("div0", "(1 / 0)"), ("div-neg0", "(1 / -0)"), ("add-arr", "([1] + [2])"), ("add-obj-str", "({} + 'x')"), ("str-index", "('abc'[1])"),
                 ("str-index-oob", "('abc'[5])"), ("eq-null-undef", "(null == undefined)"), ("eq-nan", "(NaN == NaN)"), ("seq-neg0", "(0 === -0)"),
                 ("objis-neg0", "Object.is(0, -0)"), ("surrogate-escape", "('\\ud83d\\ude00'.length)"), ("unicode-brace", "('\\u{1F600}'.length)"),
                 ("str-cmp-case", "('a' < 'B')"), ("str-cmp-prefix", "('ab' < 'abc')"), ("str-cmp-num", "('10' < '9')"), ("str-num-cmp", "('10' < 9)"),
                 ("await-plus", "(async () => 1 + await Promise.resolve(2))() instanceof Promise")]:
        out.append(("expr:" + k, e))
    return out


LIB = {
    "Array": [
        ("from-arraylike-map", "Array.from({length: 3}, (_, i) => i * 2)"), ("from-string", "Array.from('abc')"), ("from-set", "Array.from(new Set([1, 1, 2]))"),
        ("from-map-fn", "Array.from([1, 2], x => x * 3)"), ("of", "Array.of(7, 8)"), ("ctor-len", "new Array(3).length"), ("ctor-holes", "new Array(2)"),
        ("ctor-list", "new Array(1, 2)"), ("isArray", "[Array.isArray([]), Array.isArray({length: 0})]"),
        ("indexOf-neg-from", "[1, 2, 3, 1].indexOf(1, -2)"), ("indexOf-nan", "[NaN].indexOf(NaN)"), ("includes-nan", "[NaN].includes(NaN)"),
        ("lastIndexOf", "[1, 2, 1].lastIndexOf(1)"), ("lastIndexOf-from", "[1, 2, 1].lastIndexOf(1, -2)"), ("slice-neg", "[1, 2, 3, 4].slice(-3, -1)"),
        ("slice-frac", "[1, 2, 3].slice(0.9, 2.1)"), ("slice-oob", "[1, 2].slice(5)"), ("splice-del", "(() => { const a = [1, 2, 3, 4]; const r = a.splice(1, 2); return [a, r]; })()"),
        ("splice-ins", "(() => { const a = [1, 4]; a.splice(1, 0, 2, 3); return a; })()"), ("splice-neg", "(() => { const a = [1, 2, 3]; a.splice(-1); return a; })()"),
        ("push-ret", "(() => { const a = [1]; return [a.push(2, 3), a]; })()"), ("pop-empty", "[].pop()"), ("shift", "(() => { const a = [1, 2]; return [a.shift(), a]; })()"),
        ("unshift", "(() => { const a = [3]; return [a.unshift(1, 2), a]; })()"), ("concat-nested", "[1].concat([2, [3]], 4)"), ("join-null", "[1, null, undefined, 2].join('-')"),
        ("join-default", "[1, 2].join()"), ("reverse", "[1, 2, 3].reverse()"), ("sort-default", "[10, 9, 1, 'b', 'a'].sort()"), ("sort-num", "[10, 9, 1].sort((a, b) => a - b)"),
        ("sort-undef", "[3, undefined, 1].sort()"), ("sort-stable", "[{k: 1, v: 'a'}, {k: 0, v: 'b'}, {k: 1, v: 'c'}].sort((x, y) => x.k - y.k).map(o => o.v)"),
        ("map-index", "[5, 6].map((x, i, arr) => x + i + arr.length)"), ("map-holes", "[1, , 3].map(x => x * 2)"), ("filter-this", "[1, 2, 3].filter(function (x) { return x > this.m; }, {m: 1})"),
        ("forEach-holes", "(() => { let n = 0; [1, , 3].forEach(() => n++); return n; })()"), ("reduce-noinit", "[1, 2, 3].reduce((a, b) => a + b)"),
        ("reduce-empty", "[].reduce((a, b) => a + b)"), ("reduceRight", "[1, 2, 3].reduceRight((a, b) => a + '-' + b)"), ("find", "[1, 2, 3].find(x => x > 1)"),
        ("findIndex-none", "[1].findIndex(x => x > 5)"), ("findLast", "[1, 2, 3].findLast(x => x < 3)"), ("some-empty", "[].some(x => true)"), ("every-empty", "[].every(x => false)"),
        ("flat-depth", "[1, [2, [3, [4]]]].flat(2)"), ("flat-inf", "[1, [2, [3, [4]]]].flat(Infinity)"), ("flatMap", "[1, 2].flatMap(x => [x, [x]])"),
        ("fill-range", "[1, 2, 3, 4].fill(0, 1, -1)"), ("copyWithin", "[1, 2, 3, 4, 5].copyWithin(0, 3)"), ("at-neg", "[1, 2, 3].at(-1)"), ("at-oob", "[1].at(5)"),
        ("entries", "[...['a', 'b'].entries()]"), ("keys-holes", "[...[1, , 3].keys()]"), ("length-set", "(() => { const a = [1, 2, 3]; a.length = 1; return a; })()"),
        ("length-grow", "(() => { const a = [1]; a.length = 3; return [a.length, 1 in a]; })()"), ("index-beyond", "(() => { const a = []; a[3] = 1; return [a.length, a]; })()"),
        ("neg-index-prop", "(() => { const a = [1]; a[-1] = 9; return [a.length, a[-1]]; })()"), ("frac-index", "(() => { const a = [1, 2]; return a[0.5]; })()"),
        ("str-index", "(() => { const a = [1, 2]; return a['1']; })()"), ("toString", "[1, [2, 3]].toString()"), ("with", "[1, 2, 3].with(1, 9)"),
        ("toSorted", "[3, 1, 2].toSorted()"), ("toReversed", "[1, 2].toReversed()"), ("spread-holes", "[...[1, , 3]]"), ("destructure-holes", "(() => { const [a, , b = 5] = [1, 2]; return [a, b]; })()"),
    ],
    "String": [
        ("charAt-oob", "'abc'.charAt(5)"), ("charCodeAt", "'aé'.charCodeAt(1)"), ("charCodeAt-oob", "'a'.charCodeAt(3)"), ("codePointAt-astral", "'😀'.codePointAt(0)"),
        ("length-astral", "'😀'.length"), ("at-neg", "'abc'.at(-1)"), ("index-astral", "'😀x'[2]"), ("slice-neg", "'abcdef'.slice(-3, -1)"), ("slice-swap", "'abc'.slice(2, 1)"),
        ("substring-swap", "'abcdef'.substring(4, 1)"), ("substring-nan", "'abc'.substring(NaN, 2)"), ("substr", "'abcdef'.substr(-3, 2)"), ("indexOf-from", "'abcabc'.indexOf('c', 3)"),
        ("indexOf-empty", "'abc'.indexOf('')"), ("lastIndexOf", "'abcabc'.lastIndexOf('b')"), ("includes-pos", "'abc'.includes('a', 1)"), ("startsWith-pos", "'abc'.startsWith('b', 1)"),
        ("endsWith-len", "'abc'.endsWith('b', 2)"), ("split-empty", "'abc'.split('')"), ("split-limit", "'a,b,c'.split(',', 2)"), ("split-none", "'abc'.split()"),
        ("split-regex", "'a1b2c'.split(/\\d/)"), ("split-astral", "'😀'.split('')"), ("replace-first", "'aaa'.replace('a', 'b')"), ("replace-special", "'abc'.replace('b', '[$&]')"),
        ("replace-fn", "'abc'.replace('b', (m, i) => m.toUpperCase() + i)"), ("replace-regex-g", "'a1b22'.replace(/\\d+/g, 'N')"), ("replace-groups", "'john smith'.replace(/(\\w+) (\\w+)/, '$2 $1')"),
        ("replaceAll", "'a.a.a'.replaceAll('.', '-')"), ("match", "'a1b22'.match(/\\d+/g)"), ("match-none", "'abc'.match(/\\d/)"), ("match-groups", "'2024-05'.match(/(\\d+)-(\\d+)/).slice(0, 3)"),
        ("matchAll", "[...'a1b2'.matchAll(/\\d/g)].map(m => m[0] + m.index)"), ("search", "'abc'.search(/c/)"), ("padStart-long", "'abc'.padStart(2, 'x')"), ("padStart-multi", "'1'.padStart(5, 'ab')"),
        ("padEnd-empty", "'a'.padEnd(3, '')"), ("repeat0", "'ab'.repeat(0)"), ("repeat-neg", "'a'.repeat(-1)"), ("trim-unicode", "'\\u00a0\\ufeff a \\u2003'.trim().length"),
        ("trimStart", "'  a '.trimStart()"), ("trimEnd", "' a  '.trimEnd()"), ("upper-sharp", "'ß'.toUpperCase()"), ("lower", "'ÀB'.toLowerCase()"), ("localeCompare", "'a'.localeCompare('b')"),
        ("normalize", "'\\u0041\\u030a'.normalize('NFC').length"), ("concat-nonstr", "'a'.concat(1, null)"), ("fromCharCode", "String.fromCharCode(97, 0x1F600)"), ("fromCodePoint", "String.fromCodePoint(0x1F600).length"),
        ("raw", "String.raw`a\\n${1}`"), ("iter-astral", "[...'a😀'].length"), ("cmp-astral", "('\\uffff' < '😀')"), ("tagged", "((s, ...v) => s.raw.join('|') + v.join(','))`x${1}y${2}`"),
        ("str-number-method", "'5'.toFixed"), ("wrapper", "typeof new String('a')"), ("valueOf", "new String('ab').valueOf()"), ("wellformed-skip", "1"),
    ],
    "Object": [
        ("keys-order-int", "Object.keys({b: 1, 2: 0, a: 2, 1: 0})"), ("keys-order-many", "Object.keys({c: 1, a: 2, b: 3, d: 4})"), ("values", "Object.values({x: 1, y: [2]})"),
        ("entries", "Object.entries({a: 1, b: 2})"), ("assign", "Object.assign({a: 1}, {b: 2}, null, {a: 3})"), ("assign-order", "Object.keys(Object.assign({}, {z: 1, y: 2, x: 3, w: 4}))"),
        ("fromEntries", "Object.fromEntries([['a', 1], ['b', 2]])"), ("freeze", "(() => { 'use strict'; const o = Object.freeze({a: 1}); try { o.a = 2; } catch (e) { return e.name; } return o.a; })()"),
        ("isFrozen", "Object.isFrozen(Object.freeze({}))"), ("seal", "(() => { const o = Object.seal({a: 1}); o.b = 2; delete o.a; return Object.keys(o); })()"),
        ("defineProperty-enum", "(() => { const o = {}; Object.defineProperty(o, 'h', {value: 1}); return [o.h, Object.keys(o), JSON.stringify(o)]; })()"),
        ("defineProperty-getter", "(() => { const o = {}; Object.defineProperty(o, 'g', {get() { return 7; }, enumerable: true}); return [o.g, JSON.stringify(o)]; })()"),
        ("getOwnPropertyNames", "Object.getOwnPropertyNames([1, 2])"), ("getOwnPropertyDescriptor", "Object.getOwnPropertyDescriptor({a: 1}, 'a')"),
        ("getPrototypeOf", "Object.getPrototypeOf([]) === Array.prototype"), ("setPrototypeOf", "(() => { const p = {hi() { return 'hi'; }}; const o = Object.setPrototypeOf({}, p); return o.hi(); })()"),
        ("create", "(() => { const o = Object.create({a: 1}); return [o.a, Object.keys(o), 'a' in o, o.hasOwnProperty('a')]; })()"), ("create-null", "Object.getPrototypeOf(Object.create(null))"),
        ("hasOwn", "Object.hasOwn({a: 1}, 'a')"), ("spread", "({...{a: 1, b: 2}, b: 3})"), ("spread-order", "Object.keys({...{z: 1, y: 2, x: 3}})"), ("computed-key", "({['a' + 1]: 1})"),
        ("numeric-key-order", "Object.keys({10: 'a', 9: 'b', x: 'c'})"), ("getter-literal", "({get a() { return 5; }}).a"), ("setter-literal", "(() => { let v; const o = {set a(x) { v = x; }}; o.a = 3; return v; })()"),
        ("shorthand-method-this", "({v: 1, m() { return this.v; }}).m()"), ("toString-tag", "Object.prototype.toString.call([])"), ("toString-null", "Object.prototype.toString.call(null)"),
        ("valueOf-add", "({valueOf() { return 40; }}) + 2"), ("toPrimitive-template", "`${({toString() { return 'T'; }})}`"), ("for-in-order", "(() => { const r = []; for (const k in {b: 1, a: 2, 1: 3}) r.push(k); return r; })()"),
        ("for-in-proto", "(() => { const r = []; for (const k in Object.create({p: 1})) r.push(k); return r; })()"), ("in-operator-delete", "(() => { const o = {a: 1}; delete o.a; return [o.a, Object.keys(o)]; })()"),
        ("json-order", "JSON.stringify({b: 1, a: 2, c: 3, 1: 0})"), ("entries-order-many", "Object.entries({d: 1, c: 2, b: 3, a: 4}).map(e => e[0]).join('')"),
    ],
    "Number": [
        ("parseInt-radix", "parseInt('ff', 16)"), ("parseInt-prefix", "parseInt('0x1f')"), ("parseInt-trail", "parseInt('12px')"), ("parseInt-empty", "parseInt('')"), ("parseInt-neg", "parseInt('-0')"),
        ("parseInt-radix2", "parseInt('102', 2)"), ("parseInt-float", "parseInt(0.0000005)"), ("parseFloat-exp", "parseFloat('1e3x')"), ("parseFloat-dot", "parseFloat('.5.5')"), ("parseFloat-inf", "parseFloat('-Infinity1')"),
        ("Number-ws", "Number(' \\n12\\t')"), ("Number-hex", "Number('0x10')"), ("Number-bin", "Number('0b11')"), ("Number-sep", "Number('1_000')"), ("Number-null", "Number(null)"), ("Number-arr", "Number([5])"),
        ("Number-plus", "Number('+5')"), ("Number-inf-case", "Number('infinity')"), ("literal-sep", "1_000"), ("literal-oct", "0o17"), ("literal-exp", "1e-7"), ("literal-dot", ".5 + 5."),
        ("isInteger", "[Number.isInteger(5.0), Number.isInteger('5')]"), ("isSafeInteger", "Number.isSafeInteger(2 ** 53)"), ("isNaN-global", "isNaN('a')"), ("Number.isNaN", "Number.isNaN('a')"),
        ("EPSILON", "Number.EPSILON > 0"), ("MAX_SAFE", "Number.MAX_SAFE_INTEGER"), ("MIN_VALUE", "Number.MIN_VALUE"), ("toString-radix", "(255).toString(16)"), ("toString-neg-radix", "(-255).toString(2)"),
        ("toFixed", "(1.005).toFixed(2)"), ("toFixed-range", "(1).toFixed(101)"), ("toPrecision", "(123.456).toPrecision(4)"), ("toExponential", "(12345).toExponential(2)"), ("wrapper", "typeof new Number(1)"),
        ("Math.round-half", "[Math.round(0.5), Math.round(-0.5), Math.round(2.5), Math.round(-2.5)]"), ("Math.max-empty", "Math.max()"), ("Math.min-nan", "Math.min(1, NaN)"), ("Math.sign-neg0", "Math.sign(-0)"),
        ("Math.trunc", "Math.trunc(-0.9)"), ("Math.hypot", "Math.hypot(3, 4)"), ("Math.cbrt", "Math.cbrt(27)"), ("Math.fround", "Math.fround(5.5)"), ("Math.clz32", "Math.clz32(1)"), ("Math.imul", "Math.imul(0xffffffff, 5)"),
        ("Math.pow-nan", "Math.pow(NaN, 0)"), ("Math.atan2", "Math.atan2(-0, -1) < 0"), ("Math.log2", "Math.log2(8)"), ("Math.expm1", "Math.expm1(0)"), ("Math.floor-neg0", "Math.floor(-0)"), ("Math.abs-str", "Math.abs('-3')"),
        ("BigInt", "typeof BigInt"), ("bigint-lit", "typeof 10n"),
    ],
    "JSON": [
        ("stringify-undefined", "JSON.stringify(undefined)"), ("stringify-fn", "JSON.stringify(() => 1)"), ("stringify-nested-undef", "JSON.stringify([undefined, () => 1])"), ("stringify-toJSON", "JSON.stringify({toJSON() { return 5; }})"),
        ("stringify-date", "JSON.stringify(new Date(0))"), ("stringify-replacer-fn", "JSON.stringify({a: 1, b: 2}, (k, v) => k === 'a' ? undefined : v)"), ("stringify-replacer-arr", "JSON.stringify({a: 1, b: 2}, ['b'])"),
        ("stringify-indent", "JSON.stringify({a: [1]}, null, 2)"), ("stringify-indent-str", "JSON.stringify({a: 1}, null, '--')"), ("stringify-nan", "JSON.stringify([NaN, Infinity, -0])"), ("stringify-order", "JSON.stringify({b: 1, a: 2})"),
        ("stringify-escape", "JSON.stringify('\\u2028\\n\"')"), ("stringify-lone", "JSON.stringify('\\ud800')"), ("stringify-map", "JSON.stringify(new Map([[1, 2]]))"), ("stringify-wrapper", "JSON.stringify([new Number(1), new String('s'), new Boolean(false)])"),
        ("stringify-symbol-key", "JSON.stringify({[Symbol('s')]: 1, a: 2})"), ("parse-reviver", "JSON.parse('{\"a\":1,\"b\":[2]}', (k, v) => typeof v === 'number' ? v * 2 : v)"), ("parse-dup", "JSON.parse('{\"a\":1,\"a\":2}').a"),
        ("parse-big", "JSON.parse('1e400')"), ("parse-ws", "JSON.parse(' [1 , 2 ] ')"), ("parse-trailing", "JSON.parse('[1,]')"), ("parse-single", "JSON.parse(\"'a'\")"), ("parse-proto", "Object.keys(JSON.parse('{\"__proto__\": 1}'))"),
        ("parse-unicode", "JSON.parse('\"\\\\ud83d\\\\ude00\"').length"), ("parse-num-key-order", "Object.keys(JSON.parse('{\"b\":1,\"1\":2,\"a\":3}'))"), ("parse-neg0", "JSON.parse('-0')"), ("parse-leading0", "JSON.parse('01')"),
    ],
    "MapSet": [
        ("map-order", "[...new Map([['b', 1], ['a', 2]]).keys()]"), ("map-nan-key", "new Map([[NaN, 1]]).get(NaN)"), ("map-neg0", "new Map([[-0, 1]]).get(0)"), ("map-obj-key", "(() => { const k = {}; const m = new Map([[k, 1]]); return [m.get(k), m.get({})]; })()"),
        ("map-delete-iter", "(() => { const m = new Map([[1, 1], [2, 2], [3, 3]]); const r = []; for (const [k] of m) { r.push(k); if (k === 1) m.delete(2); } return r; })()"), ("map-set-chain", "new Map().set(1, 2).set(1, 3).size"),
        ("map-forEach", "(() => { const r = []; new Map([[1, 'a']]).forEach((v, k, m) => r.push(v + k + m.size)); return r; })()"), ("map-entries-spread", "[...new Map([[1, 2]])]"), 
        ("set-order", "[...new Set([3, 1, 3, 2])]"), ("set-neg0", "[...new Set([-0])]"), ("map-neg0-key", "[...new Map([[-0, 1]]).keys()]"), ("set-nan", "new Set([NaN, NaN]).size"), ("set-add-ret", "new Set().add(1).add(1).size"), ("set-delete", "(() => { const s = new Set([1]); return [s.delete(1), s.delete(1)]; })()"),
        ("set-from-string", "[...new Set('aab')]"), ("set-union", "typeof new Set().union"), ("weakmap", "(() => { const k = {}; const w = new WeakMap([[k, 1]]); return [w.get(k), w.has({})]; })()"), ("map-iter-proto", "typeof new Map()[Symbol.iterator]"),
        ("map-size-prop", "Object.keys(new Map([[1, 1]]))"), ("map-clear", "(() => { const m = new Map([[1, 1]]); m.clear(); return m.size; })()"), ("set-has-obj", "new Set([{}]).has({})"),
    ],
    "RegExp": [
        ("test", "/a+/.test('caab')"), ("exec-index", "(() => { const m = /b(c)/.exec('abcd'); return [m[0], m[1], m.index]; })()"), ("lastIndex", "(() => { const r = /a/g; r.test('aa'); return r.lastIndex; })()"), ("flags", "/a/gi.flags"),
        ("named-groups", "'2024-05'.match(/(?<y>\\d+)-(?<m>\\d+)/).groups.y"), ("sticky", "/a/y.test('ba')"), ("unicode", "/\\u{1F600}/u.test('😀')"), ("dotall", "/a.b/s.test('a\\nb')"), ("lookbehind", "'$5'.match(/(?<=\\$)\\d/)[0]"),
        ("source", "new RegExp('a/b').source"), ("ctor-flags", "new RegExp('A', 'i').test('a')"), ("replace-fn-groups", "'ab'.replace(/(a)(b)/, (m, a, b) => b + a)"), ("split-capture", "'a-b'.split(/(-)/)"), ("toString", "String(/a/g)"),
        ("case-insens-unicode", "/é/i.test('É')"), ("backref", "/(a)\\1/.test('aa')"), ("quant-lazy", "'aaa'.match(/a+?/)[0]"), ("escape-class", "/[\\]]/.test(']')"),
    ],
    "Date": [
        ("epoch-iso", "new Date(0).toISOString()"), ("utc", "Date.UTC(2020, 1, 29)"), ("parse-iso", "Date.parse('2020-02-29T12:00:00Z')"), ("parse-date-only", "Date.parse('2020-02-29')"), ("invalid", "String(new Date(NaN).getTime())"),
        ("getters-utc", "(() => { const d = new Date(Date.UTC(2021, 11, 31, 23, 59, 58, 7)); return [d.getUTCFullYear(), d.getUTCMonth(), d.getUTCDate(), d.getUTCDay(), d.getUTCHours(), d.getUTCMilliseconds()]; })()"),
        ("month-overflow", "new Date(Date.UTC(2021, 12, 1)).toISOString()"), ("neg-epoch", "new Date(-1).toISOString()"), ("toJSON", "new Date(0).toJSON()"), ("valueOf-arith", "new Date(5) - new Date(2)"),
        ("setUTCMonth", "(() => { const d = new Date(0); d.setUTCMonth(13); return d.toISOString(); })()"), ("year-2digit", "new Date(Date.UTC(99, 0)).getUTCFullYear()"), ("iso-expanded", "new Date(Date.UTC(-1, 0)).toISOString()"),
        ("typeof-now", "typeof Date.now()"), ("ctor-string", "new Date('2000-01-01T00:00:00.000Z').getTime()"), ("ctor-components-utc", "typeof new Date(2020, 0, 1).getTime()"),
    ],
    "Function": [
        ("length", "((a, b = 1, ...c) => 0).length"), ("name-infer", "(() => { const f = () => 0; return f.name; })()"), ("name-method", "({m() {}}).m.name"), ("call-this", "(function () { return this.v; }).call({v: 3})"),
        ("apply-args", "Math.max.apply(null, [1, 5, 2])"), ("bind-partial", "((a, b) => a + b).bind(null, 1)(2)"), ("bind-this", "(function () { return this.x; }).bind({x: 1}).call({x: 2})"), ("arguments-obj", "(function () { return arguments.length; })(1, 2, 3)"),
        ("arguments-mapped", "(function (a) { arguments[0] = 9; return a; })(1)"), ("default-scope", "((a, b = a + 1) => b)(1)"), ("default-undefined", "((a = 5) => a)(undefined)"), ("default-null", "((a = 5) => a)(null)"),
        ("rest-empty", "((...r) => r.length)()"), ("spread-call", "((a, b, c) => a + b + c)(...[1, 2], 3)"), ("hoist-fn", "(() => { return h(); function h() { return 7; } })()"), ("hoist-var", "(() => { const r = typeof v; var v = 1; return r; })()"),
        ("tdz", "(() => { try { x; } catch (e) { return e.name; } let x = 1; })()"), ("closure-loop-let", "(() => { const fs = []; for (let i = 0; i < 3; i++) fs.push(() => i); return fs.map(f => f()); })()"),
        ("closure-loop-var", "(() => { const fs = []; for (var i = 0; i < 3; i++) fs.push(() => i); return fs.map(f => f()); })()"), ("iife-this", "(function () { return typeof this; })()"), ("arrow-this", "({f() { return (() => this.v)(); }, v: 4}).f()"),
        ("new-target", "(function F() { return new.target === F; }).call({}) "), ("ctor-return-obj", "new (function () { return {a: 1}; })().a"), ("ctor-return-prim", "typeof new (function () { return 5; })()"), ("toString", "typeof (function f() {}).toString()"),
        ("recursion-named-expr", "(function fact(n) { return n <= 1 ? 1 : n * fact(n - 1); })(5)"), ("getter-on-proto", "(() => { class A { get x() { return 1; } } return Object.keys(new A()).length; })()"), ("generator-return", "(() => { function* g() { try { yield 1; yield 2; } finally { yield 3; } } const it = g(); it.next(); return [it.return(9), it.next()]; })()"),
        ("generator-throw", "(() => { function* g() { try { yield 1; } catch (e) { yield 'c' + e; } } const it = g(); it.next(); return it.throw('x').value; })()"), ("generator-delegate", "(() => { function* a() { yield 1; return 'r'; } function* b() { const r = yield* a(); yield r; } return [...b()]; })()"),
        ("spread-generator", "(() => { function* g() { yield* [1, 2]; } return [...g(), ...g()]; })()"), ("async-returns-promise", "(async () => 1)() instanceof Promise"), ("label-block", "(() => { a: { break a; } return 1; })()"),
    ],
    "Iteration": [
        ("destructure-generator-return", "(() => { function* g() { yield 0; yield 1; return 2; } const [a, b, c, d] = g(); return [a, b, c, d]; })()"),
        ("assign-generator-return", "(() => { function* g() { yield 0; return 2; } let a, b; [a, b] = g(); return [a, b]; })()"),
        ("param-generator-return", "(() => { function* g() { yield 0; return 2; } return (([a, b = 7]) => [a, b])(g()); })()"),
        ("destructure-done-stops-next", "(() => { let n = 0; const it = {[Symbol.iterator]() { return {next() { n++; return {done: true, value: 9}; }, return() { n += 100; return {}; }}; }}; const [a, b, c] = it; return [n, a]; })()"),
        ("destructure-not-done-closes", "(() => { let n = 0; const it = {[Symbol.iterator]() { return {next() { n++; return {done: false, value: 9}; }, return() { n += 100; return {}; }}; }}; const [a, , c] = it; return [n, a, c]; })()"),
        ("destructure-mixed", "(() => { const [a, , b = 5, [c, d] = [7, 8], {e} = {e: 9}, ...r] = [1, 2]; return [a, b, c, d, e, r.length]; })()"),
        ("rest-generator", "(() => { const [a, ...r] = (function* () { yield 1; yield 2; yield 3; })(); return r; })()"), ("rest-set", "(() => { const [a, ...r] = new Set([1, 2, 3]); return r; })()"),
        ("rest-string", "(() => { const [a, ...r] = 'abc'; return r; })()"), ("rest-map", "(() => { const [a, ...r] = new Map([[1, 2], [3, 4]]); return r; })()"), ("rest-array-iterator", "(() => { const [a, ...r] = [1, 2, 3].values(); return r; })()"),
        ("rest-user-iterable", "(() => { const [a, ...r] = {[Symbol.iterator]() { let n = 0; return {next() { return {value: n, done: n++ > 2}; }}; }}; return r; })()"),
        ("rest-assignment", "(() => { let a, r; [a, ...r] = new Set([1, 2, 3]); return r; })()"), ("rest-param", "(([a, ...r]) => r)(new Set([1, 2, 3]))"), ("rest-nested", "(() => { const [a, ...[b, ...c]] = 'wxyz'; return [a, b, c]; })()"), ("rest-empty", "(() => { const [...r] = new Set(); return r; })()"),
        ("set-from-set", "new Set(new Set([1, 2])).size"), ("set-from-map-keys", "new Set(new Map([[1, 2]]).keys()).size"), ("set-from-generator", "new Set((function* () { yield 1; yield 1; yield 2; })()).size"), ("set-from-values", "new Set([1, 2].values()).size"),
        ("map-from-map", "(() => { const m = new Map(new Map([[1, {a: 5}]])); return [m.size, m.get(1).a]; })()"), ("map-from-entries", "new Map(Object.entries({a: 1})).get('a')"), ("map-from-generator", "new Map((function* () { yield [1, 2]; })()).get(1)"),
        ("set-null", "[new Set().size, new Set(null).size, new Map(undefined).size]"), ("set-number", "(() => { try { new Set(5); return 'no'; } catch (e) { return e.name; } })()"), ("map-bad-entry", "(() => { try { new Map([1]); return 'no'; } catch (e) { return e.name; } })()"), ("map-object", "(() => { try { new Map({}); return 'no'; } catch (e) { return e.name; } })()"),
        ("done-truthy", "(() => { const x = {[Symbol.iterator]() { return {n: 0, next() { return {value: this.n, done: this.n++ < 2 ? 0 : 1}; }}; }}; let r = 0; for (const v of x) r += 10; return [r, [...x].length, Array.from(x).length, new Set(x).size]; })()"),
        ("done-accessor-for-of", "(() => { const x = {[Symbol.iterator]() { return {n: 0, next() { const k = this.n++; return {value: k, get done() { return k > 1; }}; }}; }}; let r = 0; for (const v of x) r++; return r; })()"),
        ("done-accessor-spread", "(() => { const x = {[Symbol.iterator]() { return {n: 0, next() { const k = this.n++; return {get value() { return k * 2; }, get done() { return k > 1; }}; }}; }}; return [...x]; })()"),
        ("done-accessor-throws", "(() => { const x = {[Symbol.iterator]() { return {next() { return {value: 1, get done() { throw new RangeError('d'); }}; }}; }}; try { for (const v of x) {} return 'none'; } catch (e) { return e.name; } })()"),
        ("value-accessor-throws", "(() => { const x = {[Symbol.iterator]() { return {next() { return {get value() { throw new RangeError('v'); }, done: false}; }}; }}; try { return [...x].length; } catch (e) { return e.name; } })()"),
        ("result-proxy", "(() => { const x = {[Symbol.iterator]() { return {n: 0, next() { return new Proxy({value: 1, done: this.n++ > 1}, {}); }}; }}; let r = 0; for (const v of x) r++; return [r, [...x].length]; })()"),
        ("yield-star-done-truthy", "(() => { function* g() { const r = yield* {[Symbol.iterator]() { return {n: 0, next() { return {value: this.n, done: this.n++ < 2 ? '' : 'yes'}; }}; }}; return r; } return [...g()]; })()"),
        ("for-of-closure", "(() => { const fs = []; for (const v of [1, 2, 3]) fs.push(() => v); return fs.map(f => f()); })()"),
        ("for-of-closure-destructured", "(() => { const fs = []; for (const [a, b] of [[1, 2], [3, 4]]) { fs.push(() => a + b); } return fs.map(f => f()); })()"),
        ("for-in-closure", "(() => { const fs = []; for (const k in {x: 1, y: 2}) { fs.push(() => k); } return fs.map(f => f()); })()"),
        ("for-of-let-closure", "(() => { const fs = []; for (let v of [1, 2, 3]) { fs.push(() => v++); } return [fs.map(f => f()), fs.map(f => f())]; })()"),
        ("for-of-closure-break-continue", "(() => { const fs = []; let x = 'o'; for (const v of [1, 2, 3, 4]) { if (v === 2) continue; if (v === 4) break; const x = v; fs.push(() => x + v); } return [fs.map(f => f()), x]; })()"),
        ("for-of-closure-label", "(() => { const fs = []; outer: for (const a of [1, 2]) { for (const b of [10, 20]) { if (b === 20) continue outer; fs.push(() => a + b); } } return fs.map(f => f()); })()"),
        ("for-await-closure", "typeof (async () => { const fs = []; for await (const v of [1, 2]) fs.push(() => v); return fs.map(f => f()); })"),
        ("for-of-throw-closes", "(() => { let c = 0; const it = {[Symbol.iterator]() { return {next() { return {value: 1, done: false}; }, return() { c++; return {}; }}; }}; let x = 'o'; try { for (const v of it) { const x = v; throw new RangeError('t'); } } catch (e) { return [c, x, e.name]; } })()"),
        ("keys-insertion-order", "[Object.keys({z: 1, y: 2, x: 3, w: 4, v: 5}), Object.keys(Object.assign({}, {q: 1, a: 2, m: 3})), Object.entries({c: 1, b: 2, a: 3}).map(e => e[0]), JSON.stringify({zz: 1, b: 2, aa: 3, c: 4})]"),
        ("keys-after-delete", "(() => { const o = {a: 1, b: 2, c: 3, d: 4}; delete o.b; o.b = 5; o.e = 6; delete o.a; return Object.keys(o); })()"),
        ("for-in-order", "(() => { const r = []; for (const k in {one: 1, two: 2, three: 3, four: 4}) r.push(k); return r; })()"),
        ("class-member-order", "(() => { class A { z() {} y() {} x() {} static s3() {} static s1() {} } return [Object.getOwnPropertyNames(A.prototype), Object.keys(new (class { c = 1; b = 2; a = 3; d = 4; })())]; })()"),
        ("pad-non-ascii", "['x'.padStart(2, 'é'), 'x'.padEnd(4, 'éa'), 'é'.padStart(3, 'ßy')]"),
    ],
    "Scopes": [
        ("scope-a", "(() => { let x='o'; let r=''; for (let i=0;i<3;i++){ let x='i'+i; try { if (i==1) break; r+=x; } finally { r+='f'+x; } } return r+x; })()"),
        ("scope-b", "(() => { let x='o'; let r=''; for (let i=0;i<3;i++){ let x='i'+i; try { if (i==1) continue; r+=x; } finally { r+='f'+x; } } return r+x; })()"),
        ("scope-c", "(() => { let r=''; const fs=[]; for (let i=0;i<3;i++){ fs.push(()=>i); if (i==1) continue; { let q=i; if (q==2) break; } } return r+fs.map(f=>f()).join(); })()"),
        ("scope-d", "(() => { let r=''; o: for (let i=0;i<3;i++){ for (const j of [1,2,3]) { let t=i*10+j; if (j==2) continue o; if (i==2) break o; r+=t+','; } } return r; })()"),
        ("scope-e", "(() => { function f(){ let x='o'; for (const k of [1,2]) { let x='i'; { let y=1; return x+y; } } return x; } return f()+f(); })()"),
        ("scope-f", "(() => { function* g(){ for (let i=0;i<5;i++){ let v=i*2; if (i==3) break; yield v; } yield 'end'; } return [...g()].join(); })()"),
        ("scope-g", "(() => { let x='o'; let r=''; a: { let x='a'; b: { let x='b'; try { break a; } finally { r+=x; } } r+='no'; } return r+x; })()"),
        ("scope-h", "(() => { let r=''; for (let i=0;i<2;i++){ switch(i){ case 0: { let z='z0'; r+=z; break; } case 1: { let z='z1'; r+=z; continue; } } r+='|'; } return r; })()"),
        ("scope-i", "(() => { let x='o'; let r=''; let n=0; while (true) { let x='w'; n++; try { try { if (n>1) break; } finally { r+='a'+x; } } finally { r+='b'+x; } } return r+x+n; })()"),
        ("scope-j", "(() => { let x='o'; do { let x='d'; if (x) continue; } while (false); return x; })()"),
        ("scope-k", "(() => { let r=''; for (const a of [1,2]) { for (let i=0;i<2;i++) { let x=a*10+i; if (i==0) continue; r+=x+','; } } return r; })()"),
        ("scope-l", "(() => { function f(n){ let acc=''; for (let i=0;i<n;i++){ let c='c'+i; try { if (i==1) return acc+'R'; acc+=c; } finally { acc+='F'; } } return acc; } return f(3); })()"),
        ("scope-m", "(() => { let x='o'; let r=''; try { for (const v of [1,2]) { let x='in'; throw new Error('e'); } } catch (e) { r+=x; } return r; })()"),
        ("scope-n", "(() => { let s=0; outer: for (let i=0;i<3;i++){ let a=i; inner: for (let j=0;j<3;j++){ let b=j; if (b==1) continue inner; if (a==1) continue outer; if (a==2 && b==2) break outer; s+=a*10+b; } } return s; })()"),
        ("scope-o", "(() => { let r=''; for (let i=0;i<3;i++){ a: { if (i==1) break; r+=i; } r+='|'; } return r; })()"),
        ("scope-p", "(() => { let r=''; for (let i=0;i<3;i++){ a: { if (i==1) continue; r+=i; } r+='|'; } return r; })()"),
        ("scope-q", "(() => { let r=''; for (const i of [0,1,2]){ switch (i) { case 1: continue; default: r+=i; } r+='|'; } return r; })()"),
        ("scope-r", "(() => { let r=''; l: for (const i of [0,1,2]){ switch (i) { case 1: continue l; case 2: break l; default: r+=i; } r+='|'; } return r; })()"),
        ("scope-s", "(() => { let r=''; for (let k=0;k<2;k++){ try { try { try { if (k==1) continue; r+='x'; } finally { r+='1'; } } finally { r+='2'; } } finally { r+='3'; } } return r; })()"),
        ("scope-t", "(() => { let r=''; function f(){ for (;;) { try { try { return 'R'; } finally { r+='1'; } } finally { r+='2'; } } } return f()+r; })()"),
        ("scope-u", "(() => { let x = 'outer'; while (true) { let x = 'inner'; break; } return x; })()"),
        ("scope-v", "(() => { let x = 'outer'; switch (1) { case 1: { let x = 'inner'; break; } } return x; })()"),
    ],
    "Control": [
        ("finally-return-override", "(() => { try { return 1; } finally { return 2; } })()"), ("finally-after-catch-return", "(() => { let log = ''; function f() { try { throw 1; } catch (e) { log += 'c'; } finally { log += 'f'; } return 'r'; } f(); return log; })()"),
        ("finally-nested-try-in-finally", "(() => { let l = ''; function f() { try { return 'r'; } finally { try { l += 'a'; } finally { l += 'b'; } l += 'c'; } } const v = f(); return l + v; })()"),
        ("continue-in-catch-through-finally", "(() => { let l = ''; try { throw 1; } catch (e) { for (let i = 0; i < 3; i++) { try { if (i < 2) continue; l += 'x'; } finally { l += i; } } l += 'e'; } return l; })()"),
        ("break-in-finally-body-loop", "(() => { let l = ''; try { l += 't'; } finally { for (let i = 0; i < 3; i++) { try { if (i === 1) break; l += 'b'; } finally { l += i; } } l += 'e'; } return l; })()"),
        ("labeled-continue-in-catch", "(() => { let l = ''; try { throw 1; } catch (e) { outer: for (let i = 0; i < 2; i++) { for (let j = 0; j < 2; j++) { try { continue outer; } finally { l += '' + i + j; } } } } return l; })()"),
        ("finally-throw-replaces-pending", "(() => { let l = ''; try { try { try { throw 1; } finally { throw 2; } } catch (e) { l += 'c' + e; } finally { l += 'f'; } } catch (e2) { l += 'X' + e2; } return l; })()"),
        ("finally-break-replaces-pending", "(() => { let l = ''; try { for (;;) { try { throw 1; } finally { break; } } try { l += 'a'; } finally { l += 'b'; } l += 'c'; } catch (e2) { l += 'X' + e2; } return l; })()"),
        ("finally-nested-throw-pending", "(() => { let l = ''; try { try { throw 1; } finally { try { l += 'a'; } finally { l += 'b'; } l += 'c'; } } catch (e) { l += e; } return l; })()"),
        ("finally-inner-break-keeps-pending", "(() => { let l = ''; try { try { throw 1; } finally { for (;;) { try { break; } finally { l += 'b'; } } l += 'c'; } } catch (e) { l += e; } return l; })()"),
        ("finally-break", "(() => { let n = 0; for (;;) { try { break; } finally { n++; } } return n; })()"), ("finally-continue", "(() => { let n = 0; for (let i = 0; i < 2; i++) { try { continue; } finally { n++; } } return n; })()"),
        ("nested-finally-order", "(() => { let l = ''; try { try { throw 1; } finally { l += 'a'; } } catch (e) { l += 'b'; } finally { l += 'c'; } return l; })()"), ("throw-in-finally", "(() => { try { try { throw 'a'; } finally { throw 'b'; } } catch (e) { return e; } })()"),
        ("catch-rethrow-finally", "(() => { let l = ''; try { try { throw 1; } catch (e) { l += 'c'; throw 2; } finally { l += 'f'; } } catch (e) { l += e; } return l; })()"), ("label-break-block-scope", "(() => { let x = 1; L: for (;;) { { let x = 2; break L; } } return x; })()"),
        ("label-continue-scope", "(() => { let x = 1; let n = 0; L: for (let i = 0; i < 2; i++) { { let x = 2; n++; continue L; } } return [x, n]; })()"), ("switch-fallthrough", "(() => { let r = ''; switch (1) { case 0: r += 'a'; case 1: r += 'b'; case 2: r += 'c'; break; default: r += 'd'; } return r; })()"),
        ("switch-default-middle", "(() => { let r = ''; switch (9) { case 0: r += 'a'; default: r += 'd'; case 2: r += 'c'; } return r; })()"), ("switch-strict", "(() => { switch ('1') { case 1: return 'num'; default: return 'none'; } })()"), ("switch-scope", "(() => { switch (1) { case 1: { let y = 2; return y; } } })()"),
        ("generator-return-runs-finally", "(() => { const l = []; function* g() { try { yield 1; yield 2; } finally { l.push('fin'); } } const it = g(); it.next(); const r = it.return(7); return [l, r.value, r.done]; })()"),
        ("for-of-break-closes-generator", "(() => { const l = []; function* g() { try { yield 1; yield 2; yield 3; } finally { l.push('fin'); } } for (const x of g()) { if (x === 2) break; } l.push('after'); return l; })()"),
        ("for-of-return-closes-generator", "(() => { const l = []; function* g() { try { yield 1; yield 2; } finally { l.push('fin'); } } function f() { for (const x of g()) { return x; } } const r = f(); return [l, r]; })()"),
        ("labeled-continue-closes-inner-iterator", "(() => { const l = []; const mk = n => ({[Symbol.iterator]() { let i = 0; return {next() { return i < 2 ? {value: i++, done: false} : {value: undefined, done: true}; }, return() { l.push('ret' + n); return {}; }}; }}); outer: for (const a of mk('O')) { for (const b of mk('I')) { continue outer; } } return l; })()"),
        ("break-in-catch-finally-then-close", "(() => { const l = []; const it = {[Symbol.iterator]() { let i = 0; return {next() { return {value: i++, done: false}; }, return() { l.push('ret'); return {}; }}; }}; for (const a of it) { try { throw 1; } catch (e) { break; } finally { l.push('fin'); } } return l; })()"),
        ("try-in-for-of-inner-break", "(() => { const l = []; for (const a of [1, 2]) { try { for (;;) { break; } throw a; } catch (e) { l.push('c' + e); } finally { l.push('f'); } } return l; })()"),
        ("for-in-array", "(() => { const r = []; for (const k in [7, 8]) r.push(typeof k + k); return r; })()"), ("for-of-break-closes", "(() => { let closed = false; const it = {[Symbol.iterator]() { return {next() { return {done: false, value: 1}; }, return() { closed = true; return {}; }}; }}; for (const x of it) break; return closed; })()"),
        ("for-of-destructure", "(() => { const r = []; for (const [a, {b}] of [[1, {b: 2}]]) r.push(a + b); return r; })()"), ("do-while", "(() => { let n = 0; do { n++; } while (n < 3); return n; })()"), ("while-continue-label", "(() => { let n = 0, i = 0; outer: while (i < 3) { i++; let j = 0; while (j < 3) { j++; if (j === 2) continue outer; n++; } } return n; })()"),
        ("comma-for", "(() => { let r = []; for (let i = 0, j = 5; i < j; i += 2, j--) r.push(i + j); return r; })()"), ("var-function-scope", "(() => { if (true) { var v = 1; } return v; })()"), ("let-block-scope", "(() => { let x = 1; { let x = 2; } return x; })()"),
        ("const-assign", "(() => { const c = 1; try { c = 2; } catch (e) { return e.name; } return c; })()"), ("closure-counter", "(() => { const mk = () => { let n = 0; return () => ++n; }; const a = mk(), b = mk(); a(); a(); return [a(), b()]; })()"),
        ("class-fields-order", "(() => { const l = []; class A { a = l.push('a'); constructor() { l.push('c'); } b = l.push('b'); } new A(); return l; })()"), ("class-static-block", "(() => { class A { static v; static { A.v = 5; } } return A.v; })()"),
        ("class-super-method", "(() => { class A { m() { return 'a'; } } class B extends A { m() { return super.m() + 'b'; } } return new B().m(); })()"), ("class-private", "(() => { class A { #p = 3; get p() { return this.#p; } static has(o) { return #p in o; } } return [new A().p, A.has({})]; })()"),
        ("class-getter-setter", "(() => { class A { #v = 1; get v() { return this.#v; } set v(x) { this.#v = x * 2; } } const a = new A(); a.v = 4; return a.v; })()"), ("class-extends-array", "(() => { class L extends Array {} const l = new L(); l.push(1); return [l.length, l instanceof Array, Array.isArray(l)]; })()"),
        ("class-tostringtag", "(() => { class A { get [Symbol.toStringTag]() { return 'T'; } } return String(new A()); })()"), ("class-call-without-new", "(() => { class A {} try { A(); } catch (e) { return e.name; } })()"), ("symbol-iterator", "(() => { const o = {*[Symbol.iterator]() { yield 1; yield 2; }}; return [...o]; })()"),
        ("destructure-defaults-order", "(() => { const l = []; const {a = l.push('a'), b = l.push('b')} = {b: 1}; return [l, a, b]; })()"), ("destructure-nested-default", "(() => { const {a: {b = 2} = {}} = {}; return b; })()"), ("destructure-swap", "(() => { let a = 1, b = 2; [a, b] = [b, a]; return [a, b]; })()"),
        ("destructure-computed", "(() => { const k = 'x'; const {[k]: v} = {x: 9}; return v; })()"), ("destructure-null", "(() => { try { const {a} = null; } catch (e) { return e.name; } })()"), ("param-destructure", "(({a, b: [c]}) => a + c)({a: 1, b: [2]})"),
        ("exception-types", "(() => { const r = []; for (const f of [() => null.x, () => undefinedVar, () => (1).toFixed(200), () => new Array(-1), () => JSON.parse('{'), () => { throw 5; }]) { try { f(); } catch (e) { r.push(e && e.name || typeof e); } } return r; })()"),
        ("error-props", "(() => { const e = new RangeError('m'); return [e.name, e.message, e instanceof Error, String(e), Object.keys(e)]; })()"), ("error-cause", "new Error('a', {cause: 1}).cause"), ("error-subclass", "(() => { class E extends Error { constructor(m) { super(m); this.name = 'E'; } } const e = new E('x'); return [e instanceof E, e instanceof Error, String(e)]; })()"),
        ("promise-order", "typeof Promise.resolve(1).then"), ("getter-throw", "(() => { const o = {get g() { throw new TypeError('t'); }}; try { o.g; } catch (e) { return e.name; } })()"), ("string-immutable", "(() => { 'use strict'; const s = 'abc'; try { s[0] = 'x'; } catch (e) { return e.name; } return s; })()"),
        ("sparse-length", "[, ,].length"), ("typeof-null", "typeof null"), ("nan-index", "[1, 2][NaN]"), ("in-string-index", "(() => { try { return 0 in 'a'; } catch (e) { return e.name; } })()"),
    ],
}


def library_probes():
    out = []
    for group, items in LIB.items():
        for k, e in items:
            out.append(("%s:%s" % (group, k), e))
    return out


def all_probes():
    return operator_probes() + library_probes()


def chunk_program(probes):
    """a program evaluating one chunk of probes (so that a syntax error only loses its chunk)"""
    return PRELUDE + "\n".join("__t(() => %s);" % e for _, e in probes) + "\n__r.join('\\u0001')"


def driver(probes, chunk=40):
    """one program evaluating all probes; each chunk lives in its own function body (register space)"""
    parts = [PRELUDE]
    names = []
    for c in range(0, len(probes), chunk):
        fn = "__c%d" % (c // chunk)
        names.append(fn)
        body = "\n".join("__t(() => %s);" % e for _, e in probes[c:c + chunk])
        parts.append("function %s() {\n%s\n}" % (fn, body))
    parts.append("for (const f of [%s]) f();" % ", ".join(names) if len(names) <= 200 else "\n".join("%s();" % n for n in names))
    parts.append("__r.join('\\u0001')")
    return "\n".join(parts)
