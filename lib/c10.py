"""C10 — meaning does not depend on size.
Proof: coq/theories/Regs/Properties.v (allocator never aliases on any
disciplined sequence; a sized window of ANY size is refused or consists of n
fresh consecutive registers; witnesses for the pre-fix narrowing and for the
cumulative limits). Tie: (1) real RegisterAllocator vs extracted model on op
sequences, (2) real compiler's bytecode windows vs the model's window
function, (3) self-checking sized programs run in a worker process."""
import json
import os
import re

import common
from common import log

PID = "C10"


# ---------------------------------------------------------------------------
def gen_alloc_seq(rng, n, undisciplined):
    ops = []
    live = []
    saved = []  # (next at save, live at save)
    nxt = 0
    for _ in range(n):
        r = rng.below(100)
        if r < 40:
            ops.append("A")
            live.append(None)  # unknown register: resolved by replaying the model later
        elif r < 65 and live:
            ops.append("F?")   # free a register in use, chosen when results are known
        elif r < 80:
            ops.append("R %d" % rng.choice([0, 1, 2, 3, 5, 8, 16, 40, 100, 200, 254, 255]))
        elif r < 88:
            ops.append("S")
        elif r < 94:
            ops.append("X")
        elif undisciplined:
            ops.append("F %d" % rng.below(256))
        else:
            ops.append("A")
    return ops


def concretise(rng, ops):
    """Replays a python copy of the allocator to choose registers to free
    (python copy is only a generator aid; the compared sides are Rust and Coq)."""
    nxt, fl, saved, live, out = 0, [], [], [], []
    for o in ops:
        if o == "A":
            if fl:
                r = fl.pop()
                live.append(r)
            elif nxt != 255:
                live.append(nxt)
                nxt += 1
            out.append(o)
        elif o == "F?":
            if not live:
                continue
            r = live.pop(rng.below(len(live)))
            if r == max(nxt - 1, 0):
                nxt = r
            else:
                fl.append(r)
            out.append("F %d" % r)
        elif o.startswith("R "):
            c = int(o[2:])
            if nxt + c <= 255:
                live.extend(range(nxt, nxt + c))
                nxt += c
            out.append(o)
        elif o == "S":
            saved.append(nxt)
            out.append(o)
        elif o == "X":
            if saved:
                pos = saved.pop()
                # discipline: everything at or above pos must be dead
                for r in [x for x in live if x >= pos]:
                    live.remove(r)
                    if r == max(nxt - 1, 0):
                        nxt = r
                    else:
                        fl.append(r)
                    out.append("F %d" % r)
                nxt = pos
                fl = [x for x in fl if x < pos]
            out.append(o)
        else:
            t = o.split(" ")
            r = int(t[1])
            if r in live:
                live.remove(r)
            if r == max(nxt - 1, 0):
                nxt = r
            else:
                fl.append(r)
            out.append(o)
    return out


def run_alloc(chk, seqs, tag, model=True):
    d = os.path.join(common.OUT, PID)
    os.makedirs(d, exist_ok=True)
    cf, oi, om = (os.path.join(d, tag + x) for x in (".ops", ".impl", ".model"))
    with open(cf, "w") as f:
        for s in seqs:
            f.write("NEW\n" + "\n".join(s) + ("\n" if s else ""))
    rc, out = common.sh([chk.th, "regs", cf, oi], timeout=900)
    if rc != 0:
        return None, None, "allocator harness died rc=%s %s" % (rc, out[-300:])
    rm = None
    if model:
        rc, out = common.sh([chk.drv, cf, om], timeout=900)
        if rc != 0:
            raise common.FrameworkError("regs model driver failed: " + out[-300:])
        rm = open(om).read().split("\n")
        os.remove(om)
    ri = open(oi).read().split("\n")
    os.remove(cf)
    os.remove(oi)
    return ri, rm, None


def alias_in(seq, lines):
    """The allocator-level statement of the property evaluated on the implementation's own
    answers: returns the index of the first operation that hands out a register in use
    (or outside 0..254), following the caller's bookkeeping; None if there is none or the
    sequence is not disciplined with respect to these answers."""
    live = set()
    saved = []
    nxt = 0
    for k, (o, line) in enumerate(zip(seq, lines)):
        res, st = line.split(" | ")
        nxt_after = int(st.split(" ")[0])
        if o == "A":
            if res.startswith("ok "):
                r = int(res[3:])
                if r in live or r > 254:
                    return k
                live.add(r)
        elif o.startswith("R "):
            c = int(o[2:])
            if res.startswith("ok "):
                st0 = int(res[3:])
                w = set(range(st0, st0 + c))
                if w & live or (c and st0 + c - 1 > 254):
                    return k
                live |= w
        elif o.startswith("F "):
            r = int(o[2:])
            if r not in live:
                return None      # undisciplined: nothing is promised
            live.discard(r)
        elif o == "S":
            saved.append(nxt)
        elif o == "X":
            if saved:
                pos = saved.pop()
                if any(x >= pos for x in live):
                    return None
        nxt = nxt_after
    return None


def search_alias(chk, prefix):
    """failing-input search after an allocator disagreement: continue the history with
    allocations and look for a register handed out twice; then shrink."""
    tails = [["A"] * 10, ["R 1"] * 4 + ["A"] * 6, ["A", "R 2", "A", "A", "R 1", "A"]]
    cands = [prefix + t for t in tails]
    ri, _, err = run_alloc(chk, cands, "search", model=False)
    if err:
        return None
    pos = 0
    found = None
    for c in cands:
        lines = ri[pos + 1:pos + 1 + len(c)]
        pos += 1 + len(c)
        k = alias_in(c, lines)
        if k is not None:
            found = c[:k + 1]
            break
    if not found:
        return None
    # greedy shrink: drop single operations while an alias remains at the end
    for _ in range(40):
        cands = [found[:i] + found[i + 1:] for i in range(len(found) - 1)]
        if not cands:
            break
        ri, _, err = run_alloc(chk, cands, "shrink", model=False)
        if err:
            break
        pos = 0
        better = None
        for c in cands:
            lines = ri[pos + 1:pos + 1 + len(c)]
            pos += 1 + len(c)
            k = alias_in(c, lines)
            if k is not None and k == len(c) - 1:
                better = c
                break
            if k is not None:
                better = c[:k + 1]
                break
        if better is None:
            break
        found = better
    return found


def alloc_stream(chk, rng, n_seq, stats):
    seqs = []
    for i in range(n_seq):
        raw = gen_alloc_seq(rng, 40 + rng.below(400), undisciplined=(i % 5 == 4))
        seqs.append(concretise(rng, raw))
    ri, rm, err = run_alloc(chk, seqs, "alloc")
    if err:
        chk.violation({"what": err})
        return
    pos = 0
    dis = []
    for s in seqs:
        start = pos + 1
        pos += 1 + len(s)
        disciplined = True
        for k, o in enumerate(s):
            a, m = ri[start + k], rm[start + k]
            stats["alloc_ops"] += 1
            if not m.endswith(" d"):
                stats["alloc_undisciplined"] += 1
                disciplined = False
            if a != m[:-2]:
                stats["disagreements"] += 1
                dis.append((0 if disciplined else 1, len(dis), s[:k + 1], k, a, m))
                break
        # the allocator-level statement directly on the implementation's answers
        k = alias_in(s, ri[start:start + len(s)])
        if k is not None and len(chk.violations) < 2:
            chk.violation({"operations": s[:k + 1], "what": "RegisterAllocator hands out a register that is still in use"})
    found = False
    for _, _, pre, k, a, m in sorted(dis)[:6]:
        w = search_alias(chk, pre)
        if w:
            chk.violation({"operations": w, "what": "RegisterAllocator hands out a register that is still in use "
                           "(last operation), on a sequence that frees only registers in use",
                           "first_disagreement_with_model": {"op_index": k, "impl": a, "model": m}})
            found = True
            break
    if dis and not found:
        _, _, pre, k, a, m = sorted(dis)[0]
        chk.proof_breaks.append("correspondence Regs.Alloc vs RegisterAllocator on %r: op #%d impl %r model %r"
                                % (pre[max(0, k - 30):], k, a, m))
    chk.samples.append({"stream": "allocator ops", "sequence": seqs[0][:30]})


# ---------------------------------------------------------------------------
# sized constructs: program text, the op that consumes the window, and the
# closed-form result of the self-checking program
def ctx(k):
    return "".join("let v%d = %d;\n" % (i, 7 * i + 1) for i in range(k))


def ctx_check(k):
    return "+".join(["0"] + ["v%d" % i for i in range(k)])


def ctx_sum(k):
    return sum(7 * i + 1 for i in range(k))


def fam_array(n, k):
    src = ctx(k) + "let a = [" + ",".join(str(1000 + i) for i in range(n)) + "];\n" \
        "let s = 0; for (const x of a) s += x; '' + a.length + ':' + s + ':' + (%s)" % ctx_check(k)
    return src, "%d:%d:%d" % (n, sum(1000 + i for i in range(n)), ctx_sum(k))


def fam_args(n, k):
    src = ctx(k) + "function f(...r) { let s = 0; for (const x of r) s += x; return r.length + ':' + s; }\n" \
        "const out = f(" + ",".join(str(1000 + i) for i in range(n)) + "); out + ':' + (%s)" % ctx_check(k)
    return src, "%d:%d:%d" % (n, sum(1000 + i for i in range(n)), ctx_sum(k))


def fam_new(n, k):
    src = ctx(k) + "function C(...r) { this.n = r.length; let s = 0; for (const x of r) s += x; this.s = s; }\n" \
        "const c = new C(" + ",".join(str(1000 + i) for i in range(n)) + "); c.n + ':' + c.s + ':' + (%s)" % ctx_check(k)
    return src, "%d:%d:%d" % (n, sum(1000 + i for i in range(n)), ctx_sum(k))


def fam_template(n, k):
    src = ctx(k) + "let w = 3; const t = `" + "".join("a${w}" for _ in range(n)) + "`; t.length + ':' + (%s)" % ctx_check(k)
    return src, "%d:%d" % (2 * n, ctx_sum(k))


def fam_tagged(n, k):
    src = ctx(k) + "function tg(s, ...r) { let t = 0; for (const x of r) t += x; return s.length + ':' + r.length + ':' + t; }\n" \
        "let w = 3; const t = tg`" + "".join("a${w}" for _ in range(n)) + "`; t + ':' + (%s)" % ctx_check(k)
    return src, "%d:%d:%d:%d" % (n + 1, n, 3 * n, ctx_sum(k))


def fam_params(n, k):
    n1 = max(n, 1)
    src = ctx(k) + "function f(" + ",".join("p%d" % i for i in range(n1)) + ") { return p0 + p%d + p%d; }\n" % (n1 - 1, n1 // 2) + \
        "const out = f(" + ",".join(str(1000 + i) for i in range(min(n1, 250))) + "); out + ':' + (%s)" % ctx_check(k)
    vals = [1000 + i if i < min(n1, 250) else None for i in range(n1)]
    pick = [vals[0], vals[n1 - 1], vals[n1 // 2]]
    res = "NaN" if any(v is None for v in pick) else str(sum(pick))
    return src, "%s:%d" % (res, ctx_sum(k))


def fam_object(n, k):
    src = ctx(k) + "const o = {" + ",".join("k%d: %d" % (i, 1000 + i) for i in range(n)) + "};\n" \
        "let s = 0; for (const key of Object.keys(o)) s += o[key]; Object.keys(o).length + ':' + s + ':' + (%s)" % ctx_check(k)
    return src, "%d:%d:%d" % (n, sum(1000 + i for i in range(n)), ctx_sum(k))


def fam_switch(n, k):
    n1 = max(n, 1)
    src = ctx(k) + "function f(x) { switch (x) { " + "".join("case %d: return %d; " % (i, 3 * i + 1) for i in range(n1)) + \
        "default: return -1; } }\n'' + f(0) + ':' + f(%d) + ':' + f(%d) + ':' + (%s)" % (n1 - 1, n1, ctx_check(k))
    return src, "1:%d:-1:%d" % (3 * (n1 - 1) + 1, ctx_sum(k))


def fam_stmts(n, k):
    src = ctx(k) + "let t = 0; function f(a, b) { return a + b; }\n" + "t = f(t, 1);\n" * n + "'' + t + ':' + (%s)" % ctx_check(k)
    return src, "%d:%d" % (n, ctx_sum(k))


def fam_decls(n, k):
    src = ctx(k) + "".join("let d%d = [%d, %d];\n" % (i, i, i + 1) for i in range(n)) + \
        "'' + (%s) + ':' + (%s)" % ("+".join(["0"] + ["d%d[1]" % i for i in (0, n // 2, n - 1) if n > 0]), ctx_check(k))
    vals = sum(i + 1 for i in (0, n // 2, n - 1)) if n > 0 else 0
    return src, "%d:%d" % (vals, ctx_sum(k))


def fam_consts(n, k):
    src = ctx(k) + "let t = 0;\n" + "".join("t += %d.5;\n" % i for i in range(n)) + "'' + t + ':' + (%s)" % ctx_check(k)
    total = sum(i + 0.5 for i in range(n))
    s = str(int(total)) if total == int(total) else repr(total)
    return src, "%s:%d" % (s, ctx_sum(k))


def fam_fconsts(n, k):
    # n distinct number constants in a function chunk, and nothing but numbers after them in that chunk:
    # the last constants added are numeric, so the pool limit is met by add_number itself
    body = "".join("t += %d.5;\n" % i for i in range(n))
    src = ctx(k) + "function f() { let t = 0;\n" + body + "return t; }\n'' + f() + ':' + (%s)" % ctx_check(k)
    total = sum(i + 0.5 for i in range(n))
    s = str(int(total)) if total == int(total) else repr(total)
    return src, "%s:%d" % (s, ctx_sum(k))


def fam_sconsts(n, k):
    # n distinct string constants in a function chunk, then numbers
    body = "".join("t = 's%d';\n" % i for i in range(n))
    src = ctx(k) + "function f() { let t = '';\n" + body + "return t + 1000.5 + 2000.5; }\n'' + f() + ':' + (%s)" % ctx_check(k)
    return src, "%s1000.52000.5:%d" % ("s%d" % (n - 1) if n else "", ctx_sum(k))


def fam_jumps(n, k):
    # a loop body of n statements: jump distances grow with n
    src = ctx(k) + "let t = 0; for (let i = 0; i < 2; i++) { if (i === 5) { continue; }\n" + "t += 1;\n" * n + "}\n'' + t + ':' + (%s)" % ctx_check(k)
    return src, "%d:%d" % (2 * n, ctx_sum(k))


def bare(fam, n, k):
    """the construct alone after k live variables (nothing after it needs registers)"""
    pre = ctx(k)
    if fam == "array":
        return pre + "[" + ",".join(str(1000 + i) for i in range(n)) + "];"
    if fam == "args":
        return pre + "function f() {}\nf(" + ",".join(str(1000 + i) for i in range(n)) + ");"
    if fam == "new":
        return pre + "function C() {}\nnew C(" + ",".join(str(1000 + i) for i in range(n)) + ");"
    if fam == "template":
        return pre + "let w = 3;\n`" + "".join("a${w}" for _ in range(n)) + "`;"
    return pre + "function tg() {}\nlet w = 3;\ntg`" + "".join("a${w}" for _ in range(n)) + "`;"


EXTRA = {"array": 0, "args": 0, "new": 0, "template": 0, "tagged": 1}

WINDOW_FAMILIES = {
    "array": (fam_array, r"CreateArray \{ dst: \d+, start: (\d+), count: (\d+) \}"),
    "args": (fam_args, r"Call \{ dst: \d+, callee: \d+, this: \d+, args_start: (\d+), argc: (\d+) \}"),
    "new": (fam_new, r"Construct \{ dst: \d+, callee: \d+, args_start: (\d+), argc: (\d+) \}"),
    "template": (fam_template, r"TemplateConcat \{ dst: \d+, start: (\d+), count: (\d+) \}"),
    "tagged": (fam_tagged, r"TaggedTemplate \{ .*exprs_start: (\d+), exprs_count: (\d+) \}"),
}
OTHER_FAMILIES = {
    "params": fam_params, "object": fam_object, "switch": fam_switch, "stmts": fam_stmts,
    "decls": fam_decls, "consts": fam_consts, "fconsts": fam_fconsts, "sconsts": fam_sconsts, "jumps": fam_jumps,
}
LIMIT = re.compile(r"Too many")


def sizes(tier, fam):
    dense = list(range(0, 40)) + list(range(100, 140, 3)) + list(range(236, 262)) + [300, 511, 512, 513, 600]
    if tier == "thorough":
        dense = list(range(0, 601))
    if fam in ("consts", "fconsts", "sconsts"):
        return [0, 1, 2, 100, 255, 256, 257, 1000] + ([65530, 65531, 65532, 65533, 65534, 65535, 65536, 65537, 70000] if tier == "thorough"
                                                    else [65532, 65534, 65535, 65536])
    if fam in ("jumps", "decls"):
        return [0, 1, 2, 50, 120, 127, 128, 129, 255, 256, 257, 600] + ([20000, 70000] if (tier == "thorough" and fam == "jumps") else [])
    if fam in ("stmts",):
        return [0, 1, 2, 50, 100, 120] + list(range(124, 132)) + [200, 300, 600]
    if fam in ("object", "switch"):
        return [0, 1, 2, 100, 254, 255, 256, 257, 600, 1000] + ([70000] if tier == "thorough" else [])
    return dense


def known_class(fam, n, status, msg):
    """Classes of KNOWN_FINDINGS.json this (family, size, refusal) falls into."""
    if status == "limit" and "registers" in msg and fam in ("stmts", "decls", "jumps", "consts", "fconsts", "sconsts", "object", "switch"):
        return "F2-registers-never-released"
    if status == "limit" and "constants" in msg:
        return "F3-constant-pool-cumulative"
    return None


def run(chk):
    chk.assumptions = [
        "the window model covers the pattern `reserve(count); start + i` shared by array literals, call/new arguments, "
        "template parts and tagged-template expressions; parameters, object literals, switch, statements, constants and "
        "jumps are covered by the execution stream only",
        "release-profile behaviour (wrapping instead of panicking) is modelled (profile Release) but only the debug "
        "harness is run in the quick tier",
    ]
    chk.prove(["theories/Regs/Properties.vo", "theories/Lang/CoreLimitsProperties.vo", "theories/Lang/CoreExec.vo"],
              ["theories/Regs/Properties.v", "theories/Lang/CoreLimitsProperties.v"])
    ok, out, chk.th = common.build_harness("debug")
    if not ok:
        chk.proof_breaks.append("harness does not build against /repo: " + out[-800:])
        return chk.finish()
    ok, out, chk.drv = common.build_ocaml("regs")
    if not ok:
        raise common.FrameworkError("ocaml regs model build failed: " + out[-800:])
    rng = common.Rng(chk.seed, PID)
    stats = {"alloc_ops": 0, "alloc_undisciplined": 0, "disagreements": 0, "programs": 0, "limit_refusals": 0,
             "window_compiles": 0}

    if chk.replay:
        r = json.load(open(chk.replay))
        if "operations" in r:
            ri, rm, err = run_alloc(chk, [r["operations"]], "replay")
            for o, a, m in zip(r["operations"], ri[1:], rm[1:]):
                log("%-8s impl: %-20s model: %s" % (o, a, m))
            if alias_in(r["operations"], ri[1:1 + len(r["operations"])]) is not None:
                chk.violation(r)
            return chk.finish()
        res = common.run_programs(chk.th, [("replay", "", r["program"])], tag="c10r")
        log(json.dumps(res.get("replay"), indent=1)[:1500])
        v = res.get("replay", {})
        if not (v.get("status") == "complete" and v.get("value") == "str:" + r.get("expected", "")) and \
                not (v.get("status") == "error" and LIMIT.search(v.get("message", ""))):
            chk.violation(r)
        return chk.finish()

    # (1) allocator
    alloc_stream(chk, rng, 300 if chk.tier == "quick" else 3000, stats)

    # (2) windows: real bytecode vs model
    progs = []
    meta = {}
    for fam, (gen, rx) in WINDOW_FAMILIES.items():
        for k in (0, 3, 40):
            for n in sizes(chk.tier, fam):
                if chk.tier == "quick" and k == 40 and n % 3:
                    continue
                name = "%s-%d-%d" % (fam, k, n)
                src, exp = gen(n, k)
                progs.append((name, "", bare(fam, n, k)))
                meta[name] = (fam, k, n, exp, src)
    comp = common.run_programs(chk.th, progs, mode="compile", tag="c10c", timeout=1800)
    # model predictions need the allocator position in front of the window: taken from the n=1 compile
    base = {}
    for fam, (gen, rx) in WINDOW_FAMILIES.items():
        for k in (0, 3, 40):
            c = comp.get("%s-%d-1" % (fam, k), {})
            m = None
            for o in c.get("ops", []):
                mm = re.search(rx, o)
                if mm and int(mm.group(2)) in (1, 2):
                    m = mm
            if m:
                base[(fam, k)] = int(m.group(1))
    qf = os.path.join(common.OUT, PID, "win.q")
    names = []
    with open(qf, "w") as f:
        for name, (fam, k, n, exp, src) in meta.items():
            if (fam, k) in base and n >= 1:
                # n substitutions: n+1 quasis (the last one empty and skipped) + n expressions are reserved
                parts = 2 * n + 1 if fam == "template" else n
                f.write("WX %d %d %d\n" % (base[(fam, k)], parts, EXTRA[fam]))
                names.append(name)
    rc, out = common.sh([chk.drv, qf, qf + ".out"], timeout=600)
    if rc != 0:
        raise common.FrameworkError("regs model driver failed: " + out[-300:])
    pred = dict(zip(names, open(qf + ".out").read().split("\n")))
    os.remove(qf)
    os.remove(qf + ".out")
    for name in names:
        fam, k, n, exp, src = meta[name]
        c = comp.get(name, {})
        p = pred[name]
        stats["window_compiles"] += 1
        rx = WINDOW_FAMILIES[fam][1]
        got = None
        if c.get("status") == "ok":
            want_count = 2 * n if fam == "template" else n
            for o in c["ops"]:
                mm = re.search(rx, o)
                if mm and int(mm.group(2)) == want_count:
                    got = "ok %s" % ",".join(str(int(mm.group(1)) + i) for i in range(want_count + (1 if fam == "template" else 0)))
            if got is None:
                got = "ok ?"
        elif c.get("status") in ("compile_error", "parse_error") and LIMIT.search(c.get("message", "")):
            got = "limit"
        else:
            got = c.get("status", "missing")
        # 'Too many arguments' is checked before the window for calls: also a limit
        if got != p:
            stats["disagreements"] += 1
            bad_impl = got not in ("limit",) and not got.startswith("ok")
            if stats["disagreements"] <= 3:
                if bad_impl or got == "ok ?":
                    chk.violation({"family": fam, "size": n, "context_vars": k, "program": src, "expected": exp,
                                   "what": "compiler outcome %r (model: %r): a sized construct must compile to its window or be refused" % (got, p)})
                else:
                    chk.proof_breaks.append("correspondence Regs.window_checked vs compiler on %s: impl %r model %r" % (name, got[:60], p[:60]))

    # (3) execution: self-checking programs
    run_progs = []
    for name, (fam, k, n, exp, src) in meta.items():
        if k != 40 or chk.tier == "thorough":
            run_progs.append((name, "", src))
    for fam, gen in OTHER_FAMILIES.items():
        for k in (0, 3):
            for n in sizes(chk.tier, fam):
                name = "%s-%d-%d" % (fam, k, n)
                src, exp = gen(n, k)
                meta[name] = (fam, k, n, exp, src)
                run_progs.append((name, "", src))
    res = common.run_programs(chk.th, run_progs, tag="c10x", timeout=3000)
    known_hit = {}
    accepted = {}
    for name, _, _ in run_progs:
        fam, k, n, exp, src = meta[name]
        v = res.get(name, {})
        stats["programs"] += 1
        st = v.get("status")
        if st == "complete" and v.get("value") == "str:" + exp:
            accepted.setdefault((fam, k), []).append(n)
            continue
        if st == "error" and LIMIT.search(v.get("message", "")):
            stats["limit_refusals"] += 1
            kc = known_class(fam, n, "limit", v.get("message", ""))
            if kc:
                known_hit.setdefault(kc, (name, v.get("message")))
            continue
        chk.violation({"family": fam, "size": n, "context_vars": k, "program": src if len(src) < 4000 else src[:4000] + "...",
                       "expected": exp, "observed": {x: v.get(x) for x in ("status", "value", "class", "message", "exit")},
                       "what": "sized construct neither behaves like its small counterpart nor is refused with a limit error"})
        if len(chk.violations) > 4:
            break
    # (4) nesting depths only an optimised build reaches (the unoptimised parser's stack budget stops near 50 blocks):
    # block scopes left by break / continue, counted in 8 bits by the Break / Continue instructions
    ok, out, th_rel = common.build_harness("release")
    if not ok:
        chk.proof_breaks.append("release harness does not build against /repo: " + out[-600:])
    else:
        def scopes_label(n):
            body = ['let v: string = "outer"; let depth = 0;', "outer: {", '  let v = "scope 1"; depth = 1;']
            body += ['{ let v = "scope %d"; depth = %d;' % (i, i) for i in range(2, n + 1)]
            body += ["break outer;", "}" * (n - 1), "}", "'' + v + '/' + depth"]
            return "\n".join(body), "outer/%d" % n

        def scopes_loop(n):
            body = ["function run(): string {", '  let v = "outer"; let rounds = 0; let depth = 0;', "  while (true) {",
                    '    let v = "scope 1"; depth = 1; rounds++;']
            body += ['{ let v = "scope %d"; depth = %d;' % (i, i) for i in range(2, n + 1)]
            body += ["if (rounds < 3) continue; else break;", "}" * (n - 1), "  }", '  return v + "/" + rounds + "/" + depth;', "}", "run()"]
            return "\n".join(body), "outer/3/%d" % n

        def scopes_partial(n):
            # a break that leaves all but the 3 outermost of n scopes
            body = ['let v: string = "outer"; let seen = "";', '{ let v = "a"; { let v = "b"; inner: { let v = "c";']
            body += ['{ let v = "s%d";' % i for i in range(4, n + 1)]
            body += ["break inner;", "}" * (n - 3), "}", " seen = v; } }", "'' + v + '/' + seen"]
            return "\n".join(body), "outer/b"
        deep = []
        for fam, gen in (("scopes-label", scopes_label), ("scopes-loop", scopes_loop), ("scopes-partial", scopes_partial)):
            for n in ([4, 100, 200, 254, 255, 256, 257, 258, 300] + ([260, 400, 511, 512, 513] if chk.tier == "thorough" else [])):
                src, exp = gen(n)
                deep.append(("%s-%d" % (fam, n), fam, n, exp, src))
        dres = common.run_programs(th_rel, [(nm, "", src) for nm, _, _, _, src in deep], tag="c10deep", timeout=900)
        for nm, fam, n, exp, src in deep:
            v = dres.get(nm, {})
            stats["programs"] += 1
            if v.get("status") == "complete" and v.get("value") == "str:" + exp:
                continue
            if v.get("status") == "error" and re.search(r"Too (many|much)", v.get("message", "")):
                stats["limit_refusals"] += 1
                continue
            chk.violation({"family": fam, "size": n, "profile": "release", "program": src if len(src) < 6000 else src[:6000] + "...",
                           "expected": exp, "observed": {x: v.get(x) for x in ("status", "value", "class", "message", "exit")},
                           "what": "nested block scopes left by break / continue: neither the value of the small case nor a limit error"})
    # (5) the compiled core (Lang/CoreLimits.v): an expression is refused exactly when it needs more registers than the frame
    # has left, and statements are accepted separately. Release harness: only there does the parser reach these depths.
    if ok:
        import c01core
        def nest_un(n):
            return "let a = 1;\n" + "!" * n + "a;\n", 'core_case 10 [SDecl _ _ true "a" (ELit _ _ (LInt 1))] (%s)' % ("(EUn _ _ Not " * n + '(EVar _ _ "a")' + ")" * n)

        def nest_compound(n):
            return "let a = 1;\n" + "a += " * n + "1;\n", 'core_case 10 [SDecl _ _ true "a" (ELit _ _ (LInt 1))] (%s)' % (
                '(ECompound _ _ Add "a" ' * n + "(ELit _ _ (LInt 1))" + ")" * n)

        def nest_exp(n):
            return "let a = 1;\n" + " ** ".join(["a"] * (n + 1)) + ";\n", 'core_case 10 [SDecl _ _ true "a" (ELit _ _ (LInt 1))] (chain (EVar _ _ "a") [%s])' % (
                "; ".join('(TStarStar, EVar _ _ "a")' for _ in range(n)))

        def many(k, n):
            st = "!" * n + "a;\n"
            return "let a = 1;\n" + st * k + "a;\n", 'core_case 10 (SDecl _ _ true "a" (ELit _ _ (LInt 1)) :: repeat (SExpr _ _ (%s)) %d) (EVar _ _ "a")' % (
                "(EUn _ _ Not " * n + '(EVar _ _ "a")' + ")" * n, k)
        ccases = []
        for n in (1, 100, 200, 252, 253, 254, 255, 256, 300):
            ccases.append(("un-%d" % n,) + nest_un(n))
            ccases.append(("compound-%d" % n,) + nest_compound(n))
        for n in (1, 60, 120, 125, 126, 127, 128, 129, 200):
            ccases.append(("exp-%d" % n,) + nest_exp(n))
        for k, n in ((300, 250), (50, 253), (50, 254)):
            ccases.append(("many-%d-%d" % (k, n),) + many(k, n))
        cres = common.run_programs(th_rel, [(nm, "", ts) for nm, ts, _ in ccases], mode="compile", tag="c10core", timeout=900)
        rows = ";\n ".join("(%s)" % t for _, _, t in ccases)
        body = ("From Coq Require Import String ZArith List.\nFrom TsrunV Require Import Lang.Ops Lang.Core Lang.PrattInst Lang.CoreExec Base.Render.\n"
                "Import ListNotations.\nLocal Open Scope string_scope.\nLocal Open Scope Z_scope.\n"
                "Definition verdict (s : string) : string := s.\n"
                "Eval vm_compute in (lines (map (fun s => if String.eqb (substring 0 7 s) \"refused\" then \"refused\" else \"accepted\") [%s]))." % rows)
        got, raw = common.run_cases_v("c10_core", body, timeout=900)
        if got is None or len(got) != len(ccases):
            chk.proof_breaks.append("Lang.CoreLimits cases do not evaluate: " + (raw or "")[-400:])
        else:
            for (nm, ts, term), m in zip(ccases, got):
                v = cres.get(nm, {})
                stats["programs"] += 1
                if v.get("status") == "ok":
                    impl = "accepted"
                elif v.get("status") == "compile_error" and "registers" in (v.get("message") or ""):
                    impl = "refused"
                else:
                    impl = "other:%s %s" % (v.get("status"), (v.get("message") or "")[:80])
                if impl != m:
                    chk.violation({"family": "core-registers", "case": nm, "program": ts if len(ts) < 3000 else ts[:3000] + "...",
                                   "compiler": impl, "model": m,
                                   "what": "the compiler accepts / refuses a construct of the core differently from the register need the model "
                                           "proves exact (limits per construct, never cumulative)"})
    for e in chk.known:
        if e["class"] in known_hit:
            chk.known_finding(e)
        else:
            chk.stale_known.append("%s did not reproduce in this run" % e["class"])
    for kc, (name, msg) in known_hit.items():
        if not any(e["class"] == kc for e in chk.known):
            fam, k, n, exp, src = meta[name]
            chk.violation({"family": fam, "size": n, "program": src[:4000], "observed": msg,
                           "what": "limit is cumulative: every statement is accepted on its own, the sequence is refused"})
    chk.samples.append({"stream": "sized programs", "example": meta["array-3-5"][4]})
    chk.coverage.update({
        "evaluations": stats["alloc_ops"] + stats["window_compiles"] + stats["programs"],
        "distinct_nontrivial": stats["window_compiles"] + stats["programs"],
        "rule": "allocator: random op sequences (every 5th undisciplined); windows: each family x context x size compiled by the real "
                "compiler and compared with Regs.window_checked; execution: self-checking programs vs closed form",
        "streams": {"allocator_ops": stats["alloc_ops"], "allocator_ops_undisciplined": stats["alloc_undisciplined"],
                    "window_compiles": stats["window_compiles"], "programs_run": stats["programs"],
                    "limit_refusals": stats["limit_refusals"]},
        "disagreements": stats["disagreements"],
    })
    return chk.finish()
