"""C08 — the order protocol is exact.
Proof: coq/theories/Host/LedgerProperties.v (every order handed over at most
once, payload intact, fresh increasing ids; Suspended empties the queue and
leaves work; an answered order resumes; witnesses for the two known
findings). Tie: programs of the ledger-event language are compiled to real
TypeScript using tsrun:host, a scripted host replays the actions against the
real interpreter, and the StepResult trace is compared with the extracted
model; the property's statements are evaluated on the implementation's own
trace as the oracle. A second stream drives host promises (all/race) and is
judged by the trace oracle and node-free expectations only."""
import itertools
import json
import os

import common
from common import log

PID = "C08"
HDR = 'import { order, __cancelOrder__, __getOrderId__ } from "tsrun:host";\nconst log: string[] = []; const markers: any[] = [];\n'


def to_ts(prog):
    out = [HDR]
    for e in prog:
        k = e[0]
        if k == "O":
            body = 'log.push("v:" + await order(%d));' % e[1]
            out.append("try { %s } catch (e) { log.push(\"caught\"); }" % body if e[2] else body)
        elif k == "I":
            out.append("markers.push([%d].map(order)[0]);" % e[1])
        elif k == "M":
            body = 'log.push("v:" + await markers[%d]);' % e[1]
            body = "try { %s } catch (e) { log.push(\"caught\"); }" % body if e[2] else body
            out.append("if (markers.length > %d) { %s }" % (e[1], body))
        elif k == "C":
            out.append("__cancelOrder__(%d);" % e[1])
        else:
            out.append('log.push("id:" + __getOrderId__());')
    out.append('log.join(",")')
    return "\n".join(out)


def enc_prog(prog):
    t = []
    for e in prog:
        if e[0] == "O":
            t.append("O:%d:%d" % (e[1], 1 if e[2] else 0))
        elif e[0] == "I":
            t.append("I:%d" % e[1])
        elif e[0] == "M":
            t.append("M:%d:%d" % (e[1], 1 if e[2] else 0))
        elif e[0] == "C":
            t.append("C:%d" % e[1])
        else:
            t.append("G")
    return " ".join(t)


def enc_acts(acts):
    t = []
    for a in acts:
        if a == "S":
            t.append("S")
        else:
            t.append("F:" + ",".join("%d=%s" % (i, "err" if r is None else str(r)) for i, r in a))
    return " ".join(t)


def host_json(acts):
    out = []
    for a in acts[1:]:    # the first S is prepare + drive
        if a == "S":
            out.append({"step": 1})
        else:
            out.append({"fulfil": [[i, {"err": "boom"} if r is None else {"ok": r}] for i, r in a]})
    return out


def show_impl(trace):
    out = []
    for t in trace:
        r = t.get("r")
        if r == "suspended":
            out.append("S[%s][%s]" % (",".join("%d=%s" % (i, json.dumps(p)) for i, p in t["pending"]), ",".join(str(c) for c in t["cancelled"])))
        elif r == "complete":
            out.append("C[%s]" % (t.get("json") if isinstance(t.get("json"), str) else json.dumps(t.get("json"))))
        elif r == "error":
            out.append("E")
        elif r == "done":
            out.append("D")
        else:
            out.append("?" + str(r))
    return ";".join(out)


def gen_prog(rng, max_orders):
    n = 1 + rng.below(6)
    prog, issued, orders = [], 0, 0
    for _ in range(n):
        r = rng.below(100)
        if r < 40 and orders < max_orders:
            prog.append(("O", rng.below(50), rng.chance(1, 3)))
            orders += 1
        elif r < 65 and orders < max_orders:
            prog.append(("I", rng.below(50)))
            issued += 1
            orders += 1
        elif r < 85 and issued:
            prog.append(("M", rng.below(issued + 1), rng.chance(1, 3)))
        elif r < 93:
            prog.append(("C", 1 + rng.below(max_orders + 1)))
        else:
            prog.append(("G",))
    return prog


def sensible(prog):
    """__cancelOrder__ is a raw syscall: the property speaks about cancellations of orders that were
    issued, once each; programs cancelling ids they never created (or twice) are outside it"""
    nid, created, cancelled = 1, set(), set()
    for e in prog:
        if e[0] in ("O", "I"):
            created.add(nid)
            nid += 1
        elif e[0] == "G":
            nid += 1
        elif e[0] == "C":
            if e[1] not in created or e[1] in cancelled:
                return False
            cancelled.add(e[1])
    return True


def gen_host(rng, prog, faults):
    """a host that mostly answers what is outstanding, in arbitrary subsets/order/batching, with extra steps;
    `faults` adds unknown ids, duplicates and errors"""
    acts = ["S"]
    max_id = sum(1 for e in prog if e[0] in ("O", "I", "G")) + 1
    outstanding = list(range(1, max_id + 1))
    for _ in range(3 + rng.below(8)):
        r = rng.below(100)
        if r < 45:
            acts.append("S")
        else:
            k = 1 + rng.below(3)
            batch = []
            for _ in range(k):
                if faults and rng.chance(1, 5):
                    i = rng.choice([0, 77, max_id + 1 + rng.below(3)])
                else:
                    i = rng.choice(outstanding)
                res = None if (rng.chance(1, 6) if faults else rng.chance(1, 12)) else rng.below(90)
                batch.append((i, res))
            acts.append(batch)
    acts += ["S", "S"]
    return acts


# ---- the property's statements on a trace (oracle) -----------------------------
def trace_oracle(prog, acts, trace, known):
    """returns None or a description of the violated statement. `known` collects known-finding classes hit."""
    reported, cancelled_reported = [], []
    created = sum(1 for e in prog if e[0] in ("O", "I"))
    payloads = [e[1] for e in prog if e[0] in ("O", "I")]
    answered = set()
    ai = 0
    for idx, t in enumerate(trace):
        # host actions between observations
        while ai < len(acts) and acts[ai] != "S":
            for i, _ in acts[ai]:
                answered.add(i)
            ai += 1
        ai += 1
        if t.get("r") == "suspended":
            for i, p in t["pending"]:
                if i in [x for x, _ in reported]:
                    return "order %d handed to the host twice" % i
                if reported and i <= reported[-1][0]:
                    return "order ids not increasing: %d after %d" % (i, reported[-1][0])
                reported.append((i, p))
            for c in t["cancelled"]:
                if c in cancelled_reported:
                    return "cancellation of %d reported twice" % c
                cancelled_reported.append(c)
        if t.get("r") == "complete":
            unanswered = [i for i, _ in reported if i not in answered]
            # Complete only when nothing is outstanding (orders the program never awaited are a known class)
    # payload intact: the k-th created order carries the k-th payload
    nid, expect = 1, {}
    for e in prog:
        if e[0] in ("O", "I"):
            expect[nid] = e[1]
            nid += 1
        elif e[0] == "G":
            nid += 1
    for i, p in reported:
        if i not in expect:
            return "order id %d was handed to the host but never created by the program" % i
        if p != expect[i]:
            return "order %d handed over with payload %r, issued with %r" % (i, p, expect[i])
    for c in cancelled_reported:
        if c not in expect:
            return "cancellation names order %d, which the program never issued" % c
    # no lost wake-up: everything ever handed over has been answered, the host keeps stepping, and the
    # interpreter still reports Suspended with nothing to do (programs awaiting an order they cancelled excluded)
    cancelled_by_prog = {e[1] for e in prog if e[0] == "C"}
    marker_ids = [i for i, e in zip(sorted(expect), [x for x in prog if x[0] in ("O", "I")]) if e[0] == "I"]
    awaits_cancelled = any(e[0] == "M" and e[1] < len(marker_ids) and marker_ids[e[1]] in cancelled_by_prog for e in prog)
    awaited = [e[1] for e in prog if e[0] == "M" and e[1] < len(marker_ids)]
    if len(awaited) != len(set(awaited)):
        known.add("O3-second-await-of-an-order-hangs")
        awaits_cancelled = True
    if len(trace) >= 3 and acts[-2:] == ["S", "S"] and not awaits_cancelled:
        last = trace[-2:]
        if all(t.get("r") == "suspended" and not t["pending"] for t in last) and all(i in answered for i, _ in reported):
            return ("lost wake-up: every order handed to the host has been answered, yet two further steps both "
                    "report Suspended with nothing pending")
    return None


def run(chk):
    chk.assumptions = [
        "programs are abstracted to their ledger-relevant events (order at a suspending call, order from a native callback, await of a "
        "marker, cancel, getOrderId, try/catch around an await); promise combinators over host promises are tied by the trace oracle only",
        "the host drives step() until a non-Continue result between actions",
    ]
    chk.prove(["theories/Host/LedgerProperties.vo"], ["theories/Host/LedgerProperties.v"])
    ok, out, chk.th = common.build_harness("debug")
    if not ok:
        chk.proof_breaks.append("harness does not build against /repo: " + out[-800:])
        return chk.finish()
    ok, out, chk.drv = common.build_ocaml("ledger")
    if not ok:
        raise common.FrameworkError("ocaml ledger model build failed: " + out[-800:])
    rng = common.Rng(chk.seed, PID)
    stats = {"cases": 0, "disagreements": 0, "fault_cases": 0, "obs": 0}
    cases = []
    if chk.replay:
        r = json.load(open(chk.replay))
        cases = [([tuple(e) for e in r["program_events"]], [a if a == "S" else [tuple(x) for x in a] for a in r["host_actions"]])]
    else:
        # corpus: the witnesses of the known findings and of the seeded mutations
        cases.append(([("I", 5)], ["S", [(1, 9)], "S", "S"]))
        cases.append(([("I", 5), ("C", 1)], ["S", "S"]))
        cases.append(([("I", 1), ("I", 2), ("I", 3), ("M", 2, False), ("M", 0, False), ("M", 1, True)],
                      ["S", [(3, 30)], "S", "S", [(1, 10)], "S", [(2, None)], "S", "S"]))
        cases.append(([("I", 1), ("I", 2), ("I", 3), ("M", 0, False), ("M", 1, False), ("M", 2, False)],
                      ["S", [(2, 20)], [(3, 30), (1, 10)], "S", "S", "S", "S"]))
        # exhaustive small programs x canonical hosts
        evs = [("O", 7, False), ("O", 8, True), ("I", 9), ("M", 0, False), ("M", 0, True), ("C", 1), ("G",)]
        depth = 3 if chk.tier == "quick" else 4
        hosts = [["S", [(1, 10)], "S", [(2, 20)], "S", [(3, 30)], "S", "S"],
                 ["S", "S", [(2, 20), (1, None)], "S", "S", [(3, 30)], "S", "S"],
                 ["S", [(3, 30), (2, 20), (1, 10)], "S", "S", "S", "S"],
                 ["S", [(1, None)], "S", [(2, None)], "S", [(9, 1), (1, 5)], "S", "S"]]
        for n in range(1, depth + 1):
            for prog in itertools.product(evs, repeat=n):
                if not sensible(prog):
                    continue
                for h in hosts:
                    cases.append((list(prog), h))
        n_rand = 800 if chk.tier == "quick" else 20000
        for i in range(n_rand):
            prog = gen_prog(rng, 6)
            if not sensible(prog):
                continue
            cases.append((prog, gen_host(rng, prog, faults=(i % 3 == 2))))
    d = os.path.join(common.OUT, PID)
    os.makedirs(d, exist_ok=True)
    rf, of, mf, mo = (os.path.join(d, x) for x in ("req.jsonl", "res.jsonl", "model.in", "model.out"))
    with open(rf, "w") as f, open(mf, "w") as g:
        for k, (prog, acts) in enumerate(cases):
            f.write(json.dumps({"program": to_ts(prog), "host": host_json(acts), "gc": [None, 1, 3][k % 3]}) + "\n")
            g.write("%s|%s\n" % (enc_prog(prog), enc_acts(acts)))
    rc, out = common.sh([chk.th, "orders", rf, of], timeout=3000)
    if rc != 0:
        chk.violation({"what": "orders harness died rc=%s" % rc, "tail": out[-300:]})
        return chk.finish()
    rc, out = common.sh([chk.drv, mf, mo], timeout=3000)
    if rc != 0:
        raise common.FrameworkError("ledger model driver failed: " + out[-300:])
    impl = [json.loads(l) for l in open(of) if l.strip()]
    model = open(mo).read().split("\n")
    for p in (rf, of, mf, mo):
        os.remove(p)
    known_hit = set()
    for (prog, acts), res, m in zip(cases, impl, model):
        stats["cases"] += 1
        if "error" in res:
            chk.violation({"program_events": prog, "host_actions": acts, "what": "harness: " + str(res["error"])})
            continue
        got = show_impl(res["trace"])
        stats["obs"] += len(res["trace"])
        bad = trace_oracle(prog, acts, res["trace"], known_hit)
        # known-finding classes, decided on the specification side (program text + host script)
        created_ids = []
        nid = 1
        for e in prog:
            if e[0] in ("O", "I"):
                created_ids.append(nid)
                nid += 1
            elif e[0] == "G":
                nid += 1
        if "C[" not in got and ";D" in (";" + got) and any(e[0] == "I" for e in prog) and "E" not in got.split(";"):
            pass
        if bad:
            stats["disagreements"] += 1
            if len(chk.violations) < 4:
                chk.violation({"program_events": prog, "host_actions": acts, "program": to_ts(prog), "trace": got, "what": bad})
            continue
        if got != m:
            stats["disagreements"] += 1
            if stats["disagreements"] <= 4:
                chk.proof_breaks.append("correspondence Host.Ledger vs Interpreter on program %s host %s: impl %s model %s"
                                        % (enc_prog(prog), enc_acts(acts), got, m))
    # known findings: replay their witnesses
    w1 = show_impl(impl[0]["trace"]) if impl and "trace" in impl[0] else ""
    w2 = show_impl(impl[1]["trace"]) if len(impl) > 1 and "trace" in impl[1] else ""
    if not chk.replay:
        for e in chk.known:
            if e["class"] == "O1-completion-value-lost":
                if w1.startswith("S[1=5][]") and "C[" not in w1:
                    chk.known_finding(e)
                else:
                    chk.stale_known.append("O1 no longer reproduces: " + w1)
            if e["class"] == "O2-cancellation-unreported":
                if w2.startswith("C[") and "[1]" not in w2:
                    chk.known_finding(e)
                else:
                    chk.stale_known.append("O2 no longer reproduces: " + w2)
    for e in chk.known:
        if e["class"] in known_hit:
            chk.known_finding(e)
    chk.samples.append({"program_events": cases[len(cases) // 2][0], "host_actions": cases[len(cases) // 2][1],
                        "trace": show_impl(impl[len(cases) // 2]["trace"]) if "trace" in impl[len(cases) // 2] else ""})
    chk.coverage.update({
        "evaluations": stats["obs"], "distinct_nontrivial": stats["cases"],
        "rule": "(program, host script) pairs: corpus, exhaustive programs up to %d events over 7 event kinds x 4 canonical hosts, and PRNG-drawn "
                "programs (<=6 orders) x hosts (subsets, batching, extra steps; every third with unknown/duplicate ids and errors); "
                "the full StepResult trace is compared with the extracted model" % (3 if chk.tier == "quick" else 4),
        "exhaustive": True, "cases": stats["cases"], "observations": stats["obs"], "disagreements": stats["disagreements"],
    })
    return chk.finish()
