"""C08 — the order protocol is exact.
Proof: coq/theories/Host/LedgerProperties.v (every order handed over at most
once, payload intact, fresh increasing ids; Suspended empties the queue and
leaves work; an answered order resumes; witnesses for the two known
findings). Tie: programs of the ledger-event language are compiled to real
TypeScript using tsrun:host, a scripted host replays the actions against the
real interpreter, and the StepResult trace is compared with the extracted
model; the property's statements are evaluated on the implementation's own
trace as the oracle. A second stream drives host promises (all/race) and is
judged by the trace oracle and node-free expectations only."""
import itertools
import json
import os

import common
from common import log

PID = "C08"
HDR = 'import { order, __cancelOrder__, __getOrderId__ } from "tsrun:host";\nconst log: string[] = []; const markers: any[] = [];\n'


def to_ts(prog):
    out = [HDR]
    for e in prog:
        k = e[0]
        if k == "O":
            body = 'log.push("v:" + await order(%d));' % e[1]
            out.append("try { %s } catch (e) { log.push(\"caught\"); }" % body if e[2] else body)
        elif k == "I":
            out.append("markers.push([%d].map(order)[0]);" % e[1])
        elif k == "M":
            body = 'log.push("v:" + await markers[%d]);' % e[1]
            body = "try { %s } catch (e) { log.push(\"caught\"); }" % body if e[2] else body
            out.append("if (markers.length > %d) { %s }" % (e[1], body))
        elif k == "C":
            out.append("__cancelOrder__(%d);" % e[1])
        else:
            out.append('log.push("id:" + __getOrderId__());')
    out.append('log.join(",")')
    return "\n".join(out)


def enc_prog(prog):
    t = []
    for e in prog:
        if e[0] == "O":
            t.append("O:%d:%d" % (e[1], 1 if e[2] else 0))
        elif e[0] == "I":
            t.append("I:%d" % e[1])
        elif e[0] == "M":
            t.append("M:%d:%d" % (e[1], 1 if e[2] else 0))
        elif e[0] == "C":
            t.append("C:%d" % e[1])
        else:
            t.append("G")
    return " ".join(t)


def enc_acts(acts):
    t = []
    for a in acts:
        if a == "S":
            t.append("S")
        else:
            t.append("F:" + ",".join("%d=%s" % (i, "err" if r is None else str(r)) for i, r in a))
    return " ".join(t)


def host_json(acts):
    out = []
    for a in acts[1:]:    # the first S is prepare + drive
        if a == "S":
            out.append({"step": 1})
        else:
            out.append({"fulfil": [[i, {"err": "boom"} if r is None else {"ok": r}] for i, r in a]})
    return out


def show_impl(trace):
    out = []
    for t in trace:
        r = t.get("r")
        if r == "suspended":
            out.append("S[%s][%s]" % (",".join("%d=%s" % (i, json.dumps(p)) for i, p in t["pending"]), ",".join(str(c) for c in t["cancelled"])))
        elif r == "complete":
            out.append("C[%s]" % (t.get("json") if isinstance(t.get("json"), str) else json.dumps(t.get("json"))))
        elif r == "error":
            out.append("E")
        elif r == "done":
            out.append("D")
        else:
            out.append("?" + str(r))
    return ";".join(out)


def gen_prog(rng, max_orders):
    n = 1 + rng.below(6)
    prog, issued, orders = [], 0, 0
    for _ in range(n):
        r = rng.below(100)
        if r < 40 and orders < max_orders:
            prog.append(("O", rng.below(50), rng.chance(1, 3)))
            orders += 1
        elif r < 65 and orders < max_orders:
            prog.append(("I", rng.below(50)))
            issued += 1
            orders += 1
        elif r < 85 and issued:
            prog.append(("M", rng.below(issued + 1), rng.chance(1, 3)))
        elif r < 93:
            prog.append(("C", 1 + rng.below(max_orders + 1)))
        else:
            prog.append(("G",))
    return prog


def sensible(prog):
    """__cancelOrder__ is a raw syscall: the property speaks about cancellations of orders that were
    issued, once each; programs cancelling ids they never created (or twice) are outside it"""
    nid, created, cancelled = 1, set(), set()
    for e in prog:
        if e[0] in ("O", "I"):
            created.add(nid)
            nid += 1
        elif e[0] == "G":
            nid += 1
        elif e[0] == "C":
            if e[1] not in created or e[1] in cancelled:
                return False
            cancelled.add(e[1])
    return True


def gen_host(rng, prog, faults):
    """a host that mostly answers what is outstanding, in arbitrary subsets/order/batching, with extra steps;
    `faults` adds unknown ids, duplicates and errors"""
    acts = ["S"]
    max_id = sum(1 for e in prog if e[0] in ("O", "I", "G")) + 1
    outstanding = list(range(1, max_id + 1))
    for _ in range(3 + rng.below(8)):
        r = rng.below(100)
        if r < 45:
            acts.append("S")
        else:
            k = 1 + rng.below(3)
            batch = []
            for _ in range(k):
                if faults and rng.chance(1, 5):
                    i = rng.choice([0, 77, max_id + 1 + rng.below(3)])
                else:
                    i = rng.choice(outstanding)
                res = None if (rng.chance(1, 6) if faults else rng.chance(1, 12)) else rng.below(90)
                batch.append((i, res))
            acts.append(batch)
    # one internal wake-up is delivered per step: after the last answer every await still ahead may take a step of its own
    acts += ["S"] * (2 + sum(1 for e in prog if e[0] in ("O", "M")))
    return acts



# ---- stream R: Promise.race over host promises (Host/Race.v) ---------------------
def race_prog(entries):
    """entries: 'L' order answered with an order-linked host promise, 'U' order answered with a plain
    host promise, 'N' a script promise that never settles, ('D', j) the promise of entry j again"""
    lines = ['import { order } from "tsrun:host";', "const never = () => new Promise(() => {});"]
    oid, ids, linked = 0, [], []
    for i, e in enumerate(entries):
        if e in ("L", "U"):
            oid += 1
            ids.append(oid)
            linked.append(oid if e == "L" else None)
            lines.append("const e%d = order(%d);" % (i, oid))
        elif e == "N":
            ids.append(None)
            linked.append(None)
            lines.append("const e%d = never();" % i)
        else:
            ids.append(ids[e[1]])
            linked.append(linked[e[1]])
            lines.append("const e%d = e%d;" % (i, e[1]))
    lines.append('let w; try { w = "ok:" + await Promise.race([%s]); } catch (x) { w = "rej:" + x; }'
                 % ", ".join("e%d" % i for i in range(len(entries))))
    lines.append("const t = await order(99);")
    lines.append('w + "/" + t')
    return "\n".join(lines), ids, linked, oid


def race_host(entries, n, winner_order, reject):
    acts, k = [], 0
    for e in entries:
        if e in ("L", "U"):
            k += 1
            acts.append({"fulfil": [[k, {"promise": k, "linked": e == "L"}]]})
            acts.append({"step": 1})
    acts.append({"reject" if reject else "resolve": [winner_order, "a%d" % winner_order]})
    acts.append({"step": 1})
    acts.append({"fulfil": [[n + 1, {"ok": "tail"}]]})
    acts.append({"step": 1})
    acts.append({"step": 1})
    return acts


def gen_race(rng):
    n = 1 + rng.below(5)
    entries = []
    for i in range(n):
        r = rng.below(10)
        if r < 4:
            entries.append("L")
        elif r < 6:
            entries.append("U")
        elif r < 8 or not entries:
            entries.append("N")
        else:
            entries.append(("D", rng.below(len(entries))))
    if not any(e in ("L", "U") for e in entries):
        entries[rng.below(n)] = "L"
    orders = sum(1 for e in entries if e in ("L", "U"))
    return entries, 1 + rng.below(orders), rng.below(4) == 0


def race_stream(chk, rng, stats):
    corpus = [(["L", "L"], 1, False), (["N", "L", "L"], 1, False), (["N", "L", "L"], 2, False), (["L", ("D", 0)], 1, False),
              (["L", ("D", 0), ("D", 0)], 1, False), (["L", "L", ("D", 1), ("D", 1)], 1, False), (["L", "U", "L"], 2, False),
              (["L", "U", "L"], 3, True), (["U", "N", "L", "L"], 1, True), (["N", "N", "L"], 1, False)]
    cases = list(corpus)
    if chk.replay:
        r = json.load(open(chk.replay))
        cases = [([tuple(e) if isinstance(e, list) else e for e in r["race_entries"]], r["winner_order"], r["rejected"])]
    else:
        for _ in range(150 if chk.tier == "quick" else 15000):
            cases.append(gen_race(rng))
    d = os.path.join(common.OUT, PID)
    os.makedirs(d, exist_ok=True)
    rf, of = os.path.join(d, "race_req.jsonl"), os.path.join(d, "race_res.jsonl")
    meta = []
    with open(rf, "w") as f:
        for ent, w, rej in cases:
            src, ids, linked, n = race_prog(ent)
            meta.append((src, ids, linked, n))
            f.write(json.dumps({"program": src, "host": race_host(ent, n, w, rej)}) + "\n")
    rc, out = common.sh([chk.th, "orders", rf, of], timeout=1800)
    if rc != 0:
        chk.violation({"what": "orders harness died on the race stream rc=%s" % rc, "tail": out[-300:]})
        return
    impl = [json.loads(l) for l in open(of) if l.strip()]
    os.remove(rf)
    os.remove(of)
    # the model, evaluated inside Coq
    def coq_ids(linked):
        return "[" + "; ".join("None" if x is None else "Some %d" % x for x in linked) + "]%N"
    rows = []
    for (ent, w, rej), (src, ids, linked, n) in zip(cases, meta):
        widx = ids.index(w)
        rows.append("render_ids (race_cancelled %s %d %s)" % (coq_ids(linked), widx, "true" if rej else "false"))
    body = ["From Coq Require Import String NArith List.", "From TsrunV Require Import Host.Race Base.Render.", "Import ListNotations.",
            "Local Open Scope string_scope.",
            "Definition render_ids (l : list N) : string := String.concat \",\" (map string_of_N l).",
            "Eval vm_compute in (lines [%s])." % ";\n ".join(rows)]
    got, raw = common.run_cases_v("c08_race", "\n".join(body), timeout=600)
    if got is None:
        chk.proof_breaks.append("Host.Race cases do not evaluate: " + raw[-400:])
        return
    for (ent, w, rej), (src, ids, linked, n), res, m in zip(cases, meta, impl, got):
        stats["race_cases"] = stats.get("race_cases", 0) + 1
        tr = res.get("trace", [])
        cancelled = [c for t in tr for c in t.get("cancelled", [])]
        final = [t for t in tr if t.get("r") == "complete"]
        expect_val = "%s:a%d/tail" % ("rej" if rej else "ok", w)
        want = [int(x) for x in m.split(",") if x]
        issued = set(x for x in ids if x is not None)
        bad = None
        if len(set(cancelled)) != len(cancelled):
            bad = "a cancellation reached the host more than once: %s" % cancelled
        elif any(c not in issued for c in cancelled):
            bad = "a cancellation names an order the race does not contain: %s" % cancelled
        elif not final or final[0].get("json") != expect_val:
            bad = "the race did not produce %s: %s" % (expect_val, [t.get("r") for t in tr])
        elif sorted(cancelled) != sorted(want):
            bad = "cancellations %s, the losers of the race are %s" % (cancelled, want)
        if bad:
            stats["disagreements"] += 1
            if len(chk.violations) < 6:
                chk.violation({"race_entries": ent, "winner_order": w, "rejected": rej, "program": src,
                               "linked_order_ids_by_position": linked, "cancelled_reported": cancelled,
                               "model_race_cancelled": want, "what": bad})
        elif cancelled != want:
            stats["disagreements"] += 1
            chk.proof_breaks.append("correspondence Host.Race vs handle_promise_race_settle (order of the list) on %s winner %d: impl %s model %s"
                                    % (ent, w, cancelled, want))


# ---- stream E: error / value delivery through async wrappers; combinators over host promises ----
E_WRAP = {
    "direct": ("", "order(1)"),
    "async-fn": ("async function f() { return await order(1); }\n", "f()"),
    "async-fn-noawait": ("async function f() { return order(1); }\n", "f()"),
    "async-arrow": ("const f = async () => { const v = await order(1); return v; };\n", "f()"),
    "two-levels": ("async function g() { return await order(1); }\nasync function f() { const v = await g(); return v; }\n", "f()"),
    "method": ("class K { async m() { return await order(1); } }\n", "new K().m()"),
    "after-work": ("async function f() { let t = 0; for (let i = 0; i < 3; i++) { t += i; } const v = await order(1); return v; }\n", "f()"),
    "in-finally-fn": ("async function f() { try { return await order(1); } finally { log.push('fin'); } }\n", "f()"),
}
E_CATCH = {
    "try-await": "let r; try { r = 'ok:' + await %s; } catch (e) { r = 'caught:' + e; }\nr",
    "then-two": "await %s.then((v: any) => 'ok:' + v, (e: any) => 'caught:' + e)",
    "catch-method": "await %s.then((v: any) => 'ok:' + v).catch((e: any) => 'caught:' + e)",
    "all": "let r; try { r = 'ok:' + (await Promise.all([%s]))[0]; } catch (e) { r = 'caught:' + e; }\nr",
    "race": "let r; try { r = 'ok:' + await Promise.race([%s]); } catch (e) { r = 'caught:' + e; }\nr",
    "try-in-async": "async function outer() { try { return 'ok:' + await %s; } catch (e) { return 'caught:' + e; } }\nawait outer()",
}
E_HDR = 'import { order } from "tsrun:host";\nconst log: string[] = [];\n'


def settle_expect(comb, outcomes, order_of_settling):
    """ECMAScript's combinators over promises that settle in the given order; outcomes[i] = (ok, value)"""
    n = len(outcomes)
    done = []
    for k in order_of_settling:
        done.append(k)
        okv = [outcomes[i] for i in done]
        if comb == "all":
            if not outcomes[k][0]:
                return "caught:" + outcomes[k][1]
            if len(done) == n:
                return "ok:" + ",".join(outcomes[i][1] for i in range(n))
        elif comb == "race":
            return ("ok:" if outcomes[k][0] else "caught:") + outcomes[k][1]
        elif comb == "any":
            if outcomes[k][0]:
                return "ok:" + outcomes[k][1]
            if len(done) == n:
                return "caught:AggregateError"
        elif comb == "allSettled":
            if len(done) == n:
                return "ok:" + ",".join(("fulfilled:" if outcomes[i][0] else "rejected:") + outcomes[i][1] for i in range(n))
    return None


def comb_prog(comb, n):
    lines = [E_HDR] + ["const p%d = order(%d);" % (i, i + 1) for i in range(n)]
    arr = ", ".join("p%d" % i for i in range(n))
    if comb == "allSettled":
        lines.append("const rs = await Promise.allSettled([%s]);" % arr)
        lines.append("'ok:' + rs.map((x: any) => x.status + ':' + (x.status === 'fulfilled' ? x.value : x.reason)).join()")
    elif comb == "any":
        lines.append("let r; try { r = 'ok:' + await Promise.any([%s]); } catch (e: any) { r = 'caught:' + (e && e.name === 'AggregateError' ? 'AggregateError' : e); }" % arr)
        lines.append("r")
    elif comb == "all":
        lines.append("let r; try { r = 'ok:' + (await Promise.all([%s])).join(); } catch (e) { r = 'caught:' + e; }" % arr)
        lines.append("r")
    else:
        lines.append("let r; try { r = 'ok:' + await Promise.race([%s]); } catch (e) { r = 'caught:' + e; }" % arr)
        lines.append("r")
    return "\n".join(lines)


def delivery_stream(chk, rng, stats, known_hit):
    cases = []      # (kind, descr, program, host, expectation predicate text)
    for wn, (pre, call) in E_WRAP.items():
        for cn, tmpl in E_CATCH.items():
            if wn == "direct" and cn in ("then-two", "catch-method"):
                continue        # order() evaluates to the response itself, not to a promise
            for fault in (False, True):
                src = E_HDR + pre + (tmpl % call)
                host = [{"fulfil": [[1, {"err": "boom"} if fault else {"ok": 7}]]}, {"step": 1}, {"step": 1}]
                cases.append(("delivery", {"wrapper": wn, "catcher": cn, "error_response": fault}, src, host,
                              ("caught:", "boom") if fault else ("ok:7",)))
    combos = []
    for comb in ("all", "race", "any", "allSettled"):
        for n in (1, 2, 3):
            for _ in range(4 if chk.tier == "quick" else 150):
                outcomes = [(rng.below(3) != 0, "v%d" % (i + 1)) for i in range(n)]
                perm = list(range(n))
                for i in range(n - 1, 0, -1):
                    j = rng.below(i + 1)
                    perm[i], perm[j] = perm[j], perm[i]
                combos.append((comb, outcomes, perm))
    for comb, outcomes, perm in combos:
        n = len(outcomes)
        host = []
        for i in range(n):
            host += [{"fulfil": [[i + 1, {"promise": i + 1, "linked": True}]]}, {"step": 1}]
        for k in perm:
            host += [{"resolve" if outcomes[k][0] else "reject": [k + 1, outcomes[k][1]]}, {"step": 1}]
        host += [{"step": 1}]
        cases.append(("combinator", {"combinator": comb, "outcomes": outcomes, "settling_order": perm}, comb_prog(comb, n), host,
                      (settle_expect(comb, outcomes, perm),)))
    if chk.replay:
        r = json.load(open(chk.replay))
        cases = [(r["stream_e"], r["case"], r["program"], r["host"], tuple(r["expect"]))]
    d = os.path.join(common.OUT, PID)
    os.makedirs(d, exist_ok=True)
    rf, of = os.path.join(d, "e_req.jsonl"), os.path.join(d, "e_res.jsonl")
    with open(rf, "w") as f:
        for kind, descr, src, host, exp in cases:
            f.write(json.dumps({"program": src, "host": host}) + "\n")
    rc, out = common.sh([chk.th, "orders", rf, of], timeout=1800)
    if rc != 0:
        chk.violation({"what": "orders harness died on the delivery stream rc=%s" % rc, "tail": out[-300:]})
        return
    impl = [json.loads(l) for l in open(of) if l.strip()]
    os.remove(rf)
    os.remove(of)
    for (kind, descr, src, host, exp), res in zip(cases, impl):
        stats["delivery_cases"] = stats.get("delivery_cases", 0) + 1
        tr = res.get("trace", [])
        final = [t for t in tr if t.get("r") == "complete"]
        val = final[0].get("json") if final else None
        ok = isinstance(val, str) and all(x in val for x in exp) and (kind != "combinator" or val == exp[0])
        if ok:
            continue
        kc = None
        if kind == "combinator" and descr["combinator"] == "any":
            kc = "P1-promise-any-over-pending-never-settles"
        if kind == "combinator" and descr["combinator"] == "allSettled":
            kc = "P2-promise-allSettled-snapshots-pending"
        if kc and any(e["class"] == kc for e in chk.known):
            known_hit.add(kc)
            continue
        stats["disagreements"] += 1
        if len(chk.violations) < 8:
            chk.violation({"stream_e": kind, "case": descr, "program": src, "host": host, "expect": list(exp),
                           "observed": [t.get("r") + (":" + str(t.get("json") or t.get("class") or "")) for t in tr],
                           "what": ("an error response did not arrive in the program as a catchable exception / a value did not arrive"
                                    if kind == "delivery" else "a combinator over host promises did not settle as ECMAScript specifies")})

# ---- the property's statements on a trace (oracle) -----------------------------
def trace_oracle(prog, acts, trace, known):
    """returns None or a description of the violated statement. `known` collects known-finding classes hit."""
    reported, cancelled_reported = [], []
    created = sum(1 for e in prog if e[0] in ("O", "I"))
    payloads = [e[1] for e in prog if e[0] in ("O", "I")]
    answered = set()
    ai = 0
    for idx, t in enumerate(trace):
        # host actions between observations
        while ai < len(acts) and acts[ai] != "S":
            for i, _ in acts[ai]:
                answered.add(i)
            ai += 1
        ai += 1
        if t.get("r") == "suspended":
            for i, p in t["pending"]:
                if i in [x for x, _ in reported]:
                    return "order %d handed to the host twice" % i
                if reported and i <= reported[-1][0]:
                    return "order ids not increasing: %d after %d" % (i, reported[-1][0])
                reported.append((i, p))
            for c in t["cancelled"]:
                if c in cancelled_reported:
                    return "cancellation of %d reported twice" % c
                cancelled_reported.append(c)
        if t.get("r") == "complete":
            unanswered = [i for i, _ in reported if i not in answered]
            # Complete only when nothing is outstanding (orders the program never awaited are a known class)
    # payload intact: the k-th created order carries the k-th payload
    nid, expect = 1, {}
    for e in prog:
        if e[0] in ("O", "I"):
            expect[nid] = e[1]
            nid += 1
        elif e[0] == "G":
            nid += 1
    for i, p in reported:
        if i not in expect:
            return "order id %d was handed to the host but never created by the program" % i
        if p != expect[i]:
            return "order %d handed over with payload %r, issued with %r" % (i, p, expect[i])
    for c in cancelled_reported:
        if c not in expect:
            return "cancellation names order %d, which the program never issued" % c
    # an order the program cancelled before any suspension could hand it over is withdrawn: it never reaches the host
    creators = [(j, e) for j, e in enumerate(prog) if e[0] in ("O", "I", "G")]
    nid2 = 1
    born = {}
    for j, e in creators:
        if e[0] in ("O", "I"):
            born[nid2] = (j, e[0])
        nid2 += 1
    for b, e in enumerate(prog):
        if e[0] == "C" and e[1] in born and born[e[1]][0] < b and born[e[1]][1] == "I":
            a = born[e[1]][0]
            if not any(x[0] in ("O", "M") for x in prog[a + 1:b]):
                if any(i == e[1] for i, _ in reported):
                    return ("order %d was handed to the host although the program had cancelled it before the first suspension "
                            "(the cancellation is reported nowhere: %r)" % (e[1], cancelled_reported))
    # no lost wake-up: everything ever handed over has been answered, the host keeps stepping, and the
    # interpreter still reports Suspended with nothing to do (programs awaiting an order they cancelled excluded)
    cancelled_by_prog = {e[1] for e in prog if e[0] == "C"}
    marker_ids = [i for i, e in zip(sorted(expect), [x for x in prog if x[0] in ("O", "I")]) if e[0] == "I"]
    awaits_cancelled = any(e[0] == "M" and e[1] < len(marker_ids) and marker_ids[e[1]] in cancelled_by_prog for e in prog)
    awaited = [e[1] for e in prog if e[0] == "M" and e[1] < len(marker_ids)]
    if len(awaited) != len(set(awaited)):
        known.add("O3-second-await-of-an-order-hangs")
        awaits_cancelled = True
    quiet = 2 + sum(1 for e in prog if e[0] in ("O", "M"))
    if len(trace) > quiet and acts[-quiet:] == ["S"] * quiet and not awaits_cancelled:
        last = trace[-quiet:]
        if all(t.get("r") == "suspended" and not t["pending"] for t in last) and all(i in answered for i, _ in reported):
            return ("lost wake-up: every order handed to the host has been answered, yet %d further steps (one per await of "
                    "the program, plus two) all report Suspended with nothing pending" % quiet)
    return None


def run(chk):
    chk.assumptions = [
        "programs are abstracted to their ledger-relevant events (order at a suspending call, order from a native callback, await of a "
        "marker, cancel, getOrderId, try/catch around an await); promise combinators over host promises are tied by the trace oracle only",
        "the host drives step() until a non-Continue result between actions",
    ]
    chk.prove(["theories/Host/LedgerProperties.vo", "theories/Host/RaceProperties.vo"],
              ["theories/Host/LedgerProperties.v", "theories/Host/RaceProperties.v"])
    ok, out, chk.th = common.build_harness("debug")
    if not ok:
        chk.proof_breaks.append("harness does not build against /repo: " + out[-800:])
        return chk.finish()
    ok, out, chk.drv = common.build_ocaml("ledger")
    if not ok:
        raise common.FrameworkError("ocaml ledger model build failed: " + out[-800:])
    rng = common.Rng(chk.seed, PID)
    stats = {"cases": 0, "disagreements": 0, "fault_cases": 0, "obs": 0}
    cases = []
    if chk.replay and "race_entries" in json.load(open(chk.replay)):
        race_stream(chk, rng, stats)
        return chk.finish()
    if chk.replay and "stream_e" in json.load(open(chk.replay)):
        delivery_stream(chk, rng, stats, set())
        return chk.finish()
    if chk.replay:
        r = json.load(open(chk.replay))
        cases = [([tuple(e) for e in r["program_events"]], [a if a == "S" else [tuple(x) for x in a] for a in r["host_actions"]])]
    else:
        # corpus: the witnesses of the known findings and of the seeded mutations
        cases.append(([("I", 5)], ["S", [(1, 9)], "S", "S"]))
        cases.append(([("I", 5), ("C", 1)], ["S", "S"]))
        cases.append(([("I", 1), ("I", 2), ("I", 3), ("M", 2, False), ("M", 0, False), ("M", 1, True)],
                      ["S", [(3, 30)], "S", "S", [(1, 10)], "S", [(2, None)], "S", "S"]))
        cases.append(([("I", 1), ("I", 2), ("I", 3), ("M", 0, False), ("M", 1, False), ("M", 2, False)],
                      ["S", [(2, 20)], [(3, 30), (1, 10)], "S", "S", "S", "S"]))
        # exhaustive small programs x canonical hosts
        evs = [("O", 7, False), ("O", 8, True), ("I", 9), ("M", 0, False), ("M", 0, True), ("C", 1), ("G",)]
        depth = 3 if chk.tier == "quick" else 4
        hosts = [["S", [(1, 10)], "S", [(2, 20)], "S", [(3, 30)], "S", "S"],
                 ["S", "S", [(2, 20), (1, None)], "S", "S", [(3, 30)], "S", "S"],
                 ["S", [(3, 30), (2, 20), (1, 10)], "S", "S", "S", "S"],
                 ["S", [(1, None)], "S", [(2, None)], "S", [(9, 1), (1, 5)], "S", "S"]]
        hosts = [h + ["S"] * 5 for h in hosts]
        cases = [(pr, h + ["S"] * 5) for pr, h in cases]
        for n in range(1, depth + 1):
            for prog in itertools.product(evs, repeat=n):
                if not sensible(prog):
                    continue
                for h in hosts:
                    cases.append((list(prog), h))
        n_rand = 800 if chk.tier == "quick" else 100000
        for i in range(n_rand):
            prog = gen_prog(rng, 6)
            if not sensible(prog):
                continue
            cases.append((prog, gen_host(rng, prog, faults=(i % 3 == 2))))
    d = os.path.join(common.OUT, PID)
    os.makedirs(d, exist_ok=True)
    rf, of, mf, mo = (os.path.join(d, x) for x in ("req.jsonl", "res.jsonl", "model.in", "model.out"))
    with open(rf, "w") as f, open(mf, "w") as g:
        for k, (prog, acts) in enumerate(cases):
            f.write(json.dumps({"program": to_ts(prog), "host": host_json(acts), "gc": [None, 1, 3][k % 3]}) + "\n")
            g.write("%s|%s\n" % (enc_prog(prog), enc_acts(acts)))
    rc, out = common.sh([chk.th, "orders", rf, of], timeout=3000)
    if rc != 0:
        chk.violation({"what": "orders harness died rc=%s" % rc, "tail": out[-300:]})
        return chk.finish()
    rc, out = common.sh([chk.drv, mf, mo], timeout=3000)
    if rc != 0:
        raise common.FrameworkError("ledger model driver failed: " + out[-300:])
    impl = [json.loads(l) for l in open(of) if l.strip()]
    model = open(mo).read().split("\n")
    for p in (rf, of, mf, mo):
        os.remove(p)
    known_hit = set()
    for (prog, acts), res, m in zip(cases, impl, model):
        stats["cases"] += 1
        if "error" in res:
            chk.violation({"program_events": prog, "host_actions": acts, "what": "harness: " + str(res["error"])})
            continue
        got = show_impl(res["trace"])
        stats["obs"] += len(res["trace"])
        bad = trace_oracle(prog, acts, res["trace"], known_hit)
        # known-finding classes, decided on the specification side (program text + host script)
        created_ids = []
        nid = 1
        for e in prog:
            if e[0] in ("O", "I"):
                created_ids.append(nid)
                nid += 1
            elif e[0] == "G":
                nid += 1
        if "C[" not in got and ";D" in (";" + got) and any(e[0] == "I" for e in prog) and "E" not in got.split(";"):
            pass
        if bad:
            stats["disagreements"] += 1
            if len(chk.violations) < 4:
                chk.violation({"program_events": prog, "host_actions": acts, "program": to_ts(prog), "trace": got, "what": bad})
            continue
        if got != m:
            stats["disagreements"] += 1
            if stats["disagreements"] <= 4:
                chk.proof_breaks.append("correspondence Host.Ledger vs Interpreter on program %s host %s: impl %s model %s"
                                        % (enc_prog(prog), enc_acts(acts), got, m))
    if not chk.replay:
        race_stream(chk, rng, stats)
        delivery_stream(chk, rng, stats, known_hit)
    # known findings: replay their witnesses
    w1 = show_impl(impl[0]["trace"]) if impl and "trace" in impl[0] else ""
    w2 = show_impl(impl[1]["trace"]) if len(impl) > 1 and "trace" in impl[1] else ""
    if not chk.replay:
        for e in chk.known:
            if e["class"] == "O1-completion-value-lost":
                if w1.startswith("S[1=5][]") and "C[" not in w1:
                    chk.known_finding(e)
                else:
                    chk.stale_known.append("O1 no longer reproduces: " + w1)
            if e["class"] == "O2-cancellation-unreported":
                if w2.startswith("C[") and "[1]" not in w2:
                    chk.known_finding(e)
                else:
                    chk.stale_known.append("O2 no longer reproduces: " + w2)
    for e in chk.known:
        if e["class"] in known_hit:
            chk.known_finding(e)
    chk.samples.append({"program_events": cases[len(cases) // 2][0], "host_actions": cases[len(cases) // 2][1],
                        "trace": show_impl(impl[len(cases) // 2]["trace"]) if "trace" in impl[len(cases) // 2] else ""})
    chk.coverage.update({
        "evaluations": stats["obs"], "distinct_nontrivial": stats["cases"],
        "rule": "(program, host script) pairs: corpus, exhaustive programs up to %d events over 7 event kinds x 4 canonical hosts, and PRNG-drawn "
                "programs (<=6 orders) x hosts (subsets, batching, extra steps; every third with unknown/duplicate ids and errors); "
                "the full StepResult trace is compared with the extracted model" % (3 if chk.tier == "quick" else 4),
        "exhaustive": True, "race_cases": stats.get("race_cases", 0), "delivery_and_combinator_cases": stats.get("delivery_cases", 0), "cases": stats["cases"], "observations": stats["obs"], "disagreements": stats["disagreements"],
    })
    return chk.finish()
