"""C05 — every source text is accepted or rejected cleanly, in bounded time.

Proof: coq/theories/Front/Properties.v
  * a scanner that consumes at least one character per token yields at most as many tokens as the
    input has characters;
  * for every call graph with a rank decreasing along edges between unguarded functions, a call
    chain with at most K guarded calls has at most (R+2)(K+1) frames; the call graph of
    src/parser.rs, regenerated on every run, is such a graph (with its guarded entry points
    removed it is acyclic: c05_parser_recursion_is_guarded, by computation on the regenerated
    edges and ranks), so with MAX_NESTING guarded frames the parser's stack is bounded
    (c05_parser_stack_is_bounded).
  Not carried by the model: the size of a native stack frame (the 1 MiB budget in Parser::nested
  covers it at run time), the compiler's and the AST destructor's recursion (bounded by the depth
  of the tree the parser accepted; watched by worker exit status only).
Tie / search (isolated worker processes; a dying worker loses only the current input):
  A. 39 nesting families at sizes 8 .. 16384: accepted or rejected, never a dead worker; the
     parser/lexer work counters (hooks) within a quadratic bound and with doubling ratios <= 4.6;
  B. arbitrary UTF-8 strings, token soups over the JS/TS vocabulary, prefixes and single-token
     mutations of valid programs: same oracle."""
import json
import os

import common
from common import log
import c14
import genprog

PID = "C05"

FAM = {
    'paren': lambda n: "(" * n + "1" + ")" * n,
    'bracket': lambda n: "[" * n + "]" * n,
    'brace-block': lambda n: "{" * n + "}" * n,
    'object': lambda n: "x = " + "{a:" * n + "1" + "}" * n,
    'unary-not': lambda n: "!" * n + "1",
    'unary-minus': lambda n: "- " * n + "1",
    'binary-chain': lambda n: "1" + "+1" * n,
    'conditional': lambda n: "1?" * n + "1" + ":1" * n,
    'arrow': lambda n: "a=>" * n + "1",
    'arrow-paren': lambda n: "(a)=>" * n + "1",
    'template': lambda n: "`${" * n + "1" + "}`" * n,
    'generic': lambda n: "let x: " + "Array<" * n + "number" + ">" * n + ";",
    'assign-paren': lambda n: "(a = " * n + "1" + ")" * n,
    'call': lambda n: "f(" * n + ")" * n,
    'member': lambda n: "a" + ".b" * n,
    'new': lambda n: "new " * n + "X",
    'class-nest': lambda n: "class A { m() { " * n + " } } " * n,
    'function-nest': lambda n: "function f(){" * n + "}" * n,
    'if-else': lambda n: "if(1){}else " * n + "{}",
    'string-concat': lambda n: "'a'" + "+'a'" * n,
    'array-holes': lambda n: "[" + "," * n + "]",
    'comment-nest': lambda n: "/*" * n + "*/",
    'type-union': lambda n: "type T = " + "|".join(["number"] * n) + ";",
    'as-chain': lambda n: "1" + " as any" * n,
    'optional-chain': lambda n: "a" + "?.b" * n,
    'spread-args': lambda n: "f(" + ",".join(["...a"] * n) + ")",
    'label': lambda n: "".join("l%d:" % i for i in range(n)) + ";",
    'regex-class': lambda n: "/" + "[a]" * n + "/",
    'await': lambda n: "await " * n + "1",
    'typeof': lambda n: "typeof " * n + "1",
    'destructure': lambda n: "let " + "[ " * n + "a" + " ]" * n + " = x;",
    'obj-destructure': lambda n: "let " + "{a: " * n + "b" + "}" * n + " = x;",
    'arrow-default': lambda n: "(" + "a = (" * n + "1" + ")" * n + ") => 1",
    'lt-chain': lambda n: "a" + "<b" * n,
    'exponent': lambda n: "2" + "**2" * n,
    'nullish': lambda n: "a" + "??b" * n,
    'comma': lambda n: "1" + ",1" * n,
    'tpl-string': lambda n: "`" + "${1}" * n + "`",
    'class-extends': lambda n: "class A extends (" * n + "Object" + ") {}" * n,
    'decorator': lambda n: "@(" * n + "d" + ")" * n + " class A {}",
    'overloads': lambda n: "function f(a: number): void;\n" * n + "function f(a?: any) {}",
    'ambient-ns': lambda n: "declare namespace A { namespace B { " * n + "}" * (2 * n),
    'type-paren': lambda n: "let x: " + "(" * n + "number" + ")" * n + ";",
    'type-fn': lambda n: "let x: " + "(a: " * n + "number" + ") => void" * n + ";",
    'else-if': lambda n: "if (a) {} " + "else if (a) {} " * n,
    'switch-cases': lambda n: "switch (a) { " + "case 1: " * n + "}",
    'try-nest': lambda n: "try { " * n + "} finally {} " * n,
    # chains a loop of the parser builds: flat for the parser, one tree level per link for everyone after it
    'nonnull-chain': lambda n: "a" + "!" * n,
    'index-chain': lambda n: "a" + "[0]" * n,
    'call-chain': lambda n: "f" + "()" * n,
    'tagged-chain': lambda n: "f" + "``" * n,
    'array-type': lambda n: "let x: number" + "[]" * n + ";",
    'indexed-type': lambda n: "let x: T" + "['k']" * n + ";",
    'satisfies-chain': lambda n: "1" + " satisfies any" * n,
    'logical-chain': lambda n: "a" + "&&a||a" * n,
    'paren-member-chains': lambda n: "(" * (n // 64 + 1) + "a" + (".b" * 64 + ")") * (n // 64 + 1),
    'bracket-nonnull-chains': lambda n: "[" * (n // 64 + 1) + "a" + ("!" * 64 + ",1][0]") * (n // 64 + 1),
    'statements': lambda n: "a++;" * n,
    # speculation on parentheses that may start an arrow function
    'ternary-paren-assign': lambda n: "x ? (a = " * n + "1" + ") : 0" * n,
    'ternary-arrow-default': lambda n: "x ? (a = (b = " * n + "1" + ") => 1) : 0" * n,
    'paren-colon': lambda n: "x ? (" * n + "1" + ") : 0" * n,
    'paren-comma-assign': lambda n: "(a = 1, b = " * n + "1" + ")" * n,
    'call-arg-paren-assign': lambda n: "f((a = " * n + "1" + "))" * n,
}
LONG = ('binary-chain', 'member', 'as-chain', 'optional-chain', 'string-concat', 'lt-chain', 'nullish', 'exponent', 'comma', 'type-union',
        'array-holes', 'tpl-string', 'spread-args', 'switch-cases', 'else-if', 'nonnull-chain', 'index-chain', 'call-chain', 'tagged-chain',
        'array-type', 'indexed-type', 'satisfies-chain', 'logical-chain', 'paren-member-chains', 'bracket-nonnull-chains', 'statements',
        'unary-not', 'typeof', 'paren', 'brace-block')

VOCAB = ["let", "const", "var", "function", "class", "extends", "return", "if", "else", "for", "while", "do", "switch", "case", "default", "break",
         "continue", "try", "catch", "finally", "throw", "new", "delete", "typeof", "instanceof", "in", "of", "void", "yield", "await", "async",
         "import", "export", "from", "as", "type", "interface", "enum", "namespace", "declare", "abstract", "readonly", "public", "private", "static",
         "get", "set", "this", "super", "null", "undefined", "true", "false", "satisfies", "keyof", "infer", "is", "asserts",
         "(", ")", "[", "]", "{", "}", "<", ">", ";", ",", ".", "...", "?.", "?", ":", "=>", "=", "==", "===", "!=", "!==", "+", "-", "*", "/", "%", "**",
         "++", "--", "<<", ">>", ">>>", "&", "|", "^", "~", "!", "&&", "||", "??", "+=", "-=", "*=", "/=", "&&=", "||=", "??=", "@", "#", "`", "${", "'", '"',
         "x", "y", "foo", "T", "0", "1", "1.5e3", "0x1f", "1n", "'s'", '"d"', "`t`", "/re/g", "// c\n", "/* c */", "\n"]


def bound_parser(n):
    return 64 * n + n * n + 256


def bound_lexer(n):
    return 64 * n + 4 * n * n + 256


def run_front(chk, cases, tag, timeout=15):
    """cases: (name, src). Worker isolation with restart; 16 shards in parallel."""
    from concurrent.futures import ThreadPoolExecutor
    d = os.path.join(common.OUT, PID)
    os.makedirs(d, exist_ok=True)
    shards = [cases[k::16] for k in range(16)]

    def work(item):
        k, shard = item
        if not shard:
            return {}
        fin, fout = os.path.join(d, "%s-%d.in" % (tag, k)), os.path.join(d, "%s-%d.out" % (tag, k))
        with open(fin, "w") as f:
            for n, s in shard:
                f.write(json.dumps({"name": n, "src": s}) + "\n")
        res, skip, deaths = {}, 0, 0
        while skip < len(shard):
            if os.path.exists(fout):
                os.remove(fout)
            rc, out = common.sh(["prlimit", "--as=6000000000", chk.th, "front", fin, fout, str(skip)], timeout=timeout)
            done, last = 0, None
            if os.path.exists(fout):
                for l in open(fout, errors="replace"):
                    try:
                        j = json.loads(l)
                    except ValueError:
                        continue
                    if j.get("begin"):
                        last = j["name"]
                    else:
                        res[j["name"]] = j
                        done += 1
                        last = None
            if rc == 0 and last is None:
                break
            kk = skip + done
            if kk < len(shard):
                res[shard[kk][0]] = {"status": "died", "exit": rc, "len": len(shard[kk][1])}
                deaths += 1
            skip = kk + 1
            if deaths >= 3:          # enough replays from this shard; do not spend the time budget on more hangs
                for n, s_ in shard[skip:]:
                    res[n] = {"status": "skipped", "len": len(s_)}
                break
        for p in (fin, fout):
            if os.path.exists(p):
                os.remove(p)
        return res

    with ThreadPoolExecutor(16) as ex:
        parts = list(ex.map(work, list(enumerate(shards))))
    out = {}
    for p in parts:
        out.update(p)
    return out


def tokens_of(src):
    import re
    return re.findall(r"\s+|[A-Za-z_$][A-Za-z0-9_$]*|\d[\w.]*|'(?:[^'\\]|\\.)*'|\"(?:[^\"\\]|\\.)*\"|`[^`]*`|=>|\.\.\.|[<>=!]=+|&&|\|\||\?\?|\?\.|\*\*|[-+*/%&|^]=?|.", src, re.S)


def run(chk):
    chk.assumptions = [
        "inputs are UTF-8 strings (the API takes &str); an input is judged by the front end alone: parse + compile, no execution",
        "'bounded work' is measured by the hook counters (Parser::advance, Lexer::next_token), not by wall-clock; the bound is "
        "64 n + n^2 + 256 parser steps and 64 n + 4 n^2 + 256 lexer tokens for an input of n characters",
        "a worker that dies (signal, abort, 15 s without finishing its shard) on an input is a violation with that input as replay",
    ]
    chk.prove(["theories/Front/Properties.vo"], ["theories/Front/Properties.v"], facts=["C05"])
    ok, out, chk.th = common.build_harness("debug")
    if not ok:
        chk.proof_breaks.append("harness does not build against /repo: " + out[-800:])
        return chk.finish()
    rng = common.Rng(chk.seed, PID)
    cases = []
    if chk.replay:
        r = json.load(open(chk.replay))
        cases = [("replay", r["source"])]
    else:
        sizes = [8, 16, 32, 64, 128, 256, 512, 1024, 2048, 4096, 16384]
        if chk.tier != "quick":
            sizes += [100000]
        for fam, gen in FAM.items():
            for n in sizes + ([65536, 300000] if fam in LONG else []):
                cases.append(("family:%s:%d" % (fam, n), gen(n)))
        # every family cut short at every position (size 8) and in the middle (larger sizes): unclosed constructs
        for fam, gen in FAM.items():
            full = gen(8)
            for cut in range(1, len(full)):
                cases.append(("truncated:%s:8:%d" % (fam, cut), full[:cut]))
            for n in (64, 1024):
                full = gen(n)
                cases.append(("truncated:%s:%d:%d" % (fam, n, len(full) // 2), full[:len(full) // 2]))
        n_rand = 1500 if chk.tier == "quick" else 20000
        # arbitrary UTF-8
        pools = [(0x20, 0x7e), (0x00, 0x1f), (0x80, 0x7ff), (0x800, 0xd7ff), (0xe000, 0xffff), (0x10000, 0x10ffff)]
        for i in range(n_rand // 3):
            L = rng.below(120)
            chars = []
            for _ in range(L):
                lo, hi = rng.choice(pools if rng.chance(1, 3) else pools[:1])
                chars.append(chr(lo + rng.below(hi - lo + 1)))
            cases.append(("utf8:%d" % i, "".join(chars)))
        # token soups
        for i in range(n_rand // 3):
            cases.append(("soup:%d" % i, rng.choice(["", " ", " ", "\n"]).join(rng.choice(VOCAB) for _ in range(1 + rng.below(60)))))
        # prefixes and single-token mutations of valid programs
        valid = [src for src in c14.CORPUS.values()]
        for i in range(12 if chk.tier == "quick" else 120):
            valid.append(genprog.Gen(rng, features={}, ts=True).program(4, 2))
        k = 0
        for src in valid:
            toks = tokens_of(src)
            for _ in range(max(4, (n_rand // 3) // len(valid))):
                r = rng.below(5)
                t = list(toks)
                j = rng.below(len(t))
                if r == 0:
                    mut = "".join(t[:j])                                 # prefix at a token boundary
                elif r == 1:
                    mut = src[:rng.below(len(src))]                      # prefix at any character
                elif r == 2:
                    del t[j]
                    mut = "".join(t)
                elif r == 3:
                    t[j] = rng.choice(VOCAB)
                    mut = "".join(t)
                else:
                    t.insert(j, rng.choice(VOCAB))
                    mut = "".join(t)
                cases.append(("mutation:%d" % k, mut))
                k += 1
    res = run_front(chk, cases, "c05")
    stats = {"inputs": len(cases), "status": {}, "by_stream": {}, "max_parser_per_char": 0.0, "max_len": 0, "families": len(FAM)}
    srcs = dict(cases)
    fam_work = {}
    for name, src in cases:
        r = res.get(name, {"status": "missing"})
        st = r["status"]
        stream = name.split(":")[0]
        stats["status"][st] = stats["status"].get(st, 0) + 1
        stats["by_stream"].setdefault(stream, {})
        stats["by_stream"][stream][st] = stats["by_stream"][stream].get(st, 0) + 1
        n = len(src)
        stats["max_len"] = max(stats["max_len"], n)
        bad = None
        if st == "skipped":
            continue
        if st not in ("accepted", "rejected"):
            bad = "the front end did not come back with a value: worker status %s (exit %s)" % (st, r.get("exit"))
        else:
            pa, lt = r.get("parser_advances", 0), r.get("lexer_tokens", 0)
            if n:
                stats["max_parser_per_char"] = max(stats["max_parser_per_char"], round(pa / n, 2))
            if pa > bound_parser(n):
                bad = "parser work %d exceeds the bound %d for %d characters" % (pa, bound_parser(n), n)
            elif lt > bound_lexer(n):
                bad = "lexer work %d exceeds the bound %d for %d characters" % (lt, bound_lexer(n), n)
            if stream == "family":
                _, fam, size = name.split(":")
                fam_work.setdefault(fam, {})[int(size)] = (st, pa)
        if bad and len(chk.violations) < 8:
            chk.violation({"input_name": name, "source": src if len(src) < 4000 else src[:2000] + "...(%d chars)" % len(src),
                           "source_length": n, "observed": {k: v for k, v in r.items() if k != "name"}, "what": bad,
                           "regenerate": ("FAM[%r](%s)" % tuple(name.split(":")[1:3])) if stream == "family" else None})
    # doubling ratios inside a family: polynomial of low degree, not exponential
    for fam, w in fam_work.items():
        ks = sorted(w)
        for a, b in zip(ks, ks[1:]):
            if b == 2 * a and a >= 32 and w[a][1] > 200 and w[b][1] > 4.6 * w[a][1] and w[a][0] == w[b][0]:
                if len(chk.violations) < 8:
                    chk.violation({"input_name": "family:%s:%d" % (fam, b), "source": FAM[fam](b)[:2000], "source_length": len(FAM[fam](b)),
                                   "observed": {"work_at_n": w[a][1], "work_at_2n": w[b][1]},
                                   "what": "parser work more than quadruples when the nesting depth doubles (family %s, %d -> %d)" % (fam, a, b)})
    chk.samples.append({"family_work": {f: {str(k): v for k, v in w.items()} for f, w in list(fam_work.items())[:3]}})
    chk.coverage.update({
        "evaluations": len(cases), "distinct_nontrivial": len(cases),
        "rule": "%d nesting families x sizes 8..16384 (thorough: ..100000); random UTF-8 strings over six code-point ranges, token soups over a "
                "%d-entry JS/TS vocabulary, prefixes (token and character boundaries) and single-token deletions/replacements/insertions of %s "
                "valid programs; every input in an isolated worker with hook counters" % (len(FAM), len(VOCAB), "the C14 corpus and generated"),
        "exhaustive": False, "stats": stats,
    })
    return chk.finish()
