"""C19 — all ways of running a program agree.

Proof: coq/theories/Entry/Properties.v
  * one deterministic step function driven in arbitrary budgets with API reads in between gives
    the single-call result, and gives one whenever the single call does (every machine, every
    schedule);
  * what makes the implementation an instance is read from the source on every run:
    Interpreter::eval and Interpreter::prepare perform the same preparation calls before the VM
    exists, the C API entry points call nothing but prepare and step (FactsC19, re-proved
    against the regenerated facts).
Tie / search: every program is run through five entry points - eval (+ step loop after a
non-terminal result), prepare+step, prepare+step with host API reads every third step,
tsrun_prepare+tsrun_run, tsrun_prepare+tsrun_step - on fresh interpreters; the canonical trace
(import requests with specifier/resolved path/importer, order traffic, final status and value or
error text, console lines, export table) must be identical. Module roles: the same module text
as entry program, as host-supplied dependency and as registered internal source module must
produce the same export table and console output."""
import json
import os

import common
from common import log
import c07
import c09
import c14

PID = "C19"
WAYS = ["eval", "step", "pause", "capi-run", "capi-step"]


def canon(t):
    if "panic" in t or "skipped" in t:
        return t
    f = t.get("final", {})
    st = f.get("status")
    if st == "complete":
        fin = ("complete", f.get("value"), json.dumps(f.get("json"), sort_keys=True))
    elif st == "error":
        fin = ("error", (f.get("text") or "").strip())
    else:
        fin = (st, json.dumps(f.get("missing")))
    return {"events": t.get("events"), "final": fin, "log": t.get("log"), "exports": t.get("exports")}


def run_entry(chk, reqs, tag):
    from concurrent.futures import ThreadPoolExecutor
    d = os.path.join(common.OUT, PID)
    os.makedirs(d, exist_ok=True)
    chunk = 40
    chunks = [(k, reqs[k:k + chunk]) for k in range(0, len(reqs), chunk)]

    def work(item):
        k, rs = item
        rf, of = os.path.join(d, "%s-%d.req" % (tag, k)), os.path.join(d, "%s-%d.res" % (tag, k))
        with open(rf, "w") as f:
            for r in rs:
                f.write(json.dumps(r) + "\n")
        rc, out = common.sh([chk.th, "entry", rf, of], timeout=300)
        res = [json.loads(l) for l in open(of) if l.strip()] if os.path.exists(of) else []
        for p in (rf, of):
            if os.path.exists(p):
                os.remove(p)
        while len(res) < len(rs):
            res.append({"error": "entry harness died (rc=%s) on request %d of the chunk" % (rc, len(res))})
        return res

    with ThreadPoolExecutor(16) as ex:
        parts = list(ex.map(work, chunks))
    return [x for p in parts for x in p]


DUP = {
    "two-statements": ('import { add } from "./util"; import { sub } from "./util"; add(3, sub(5, 1))', {"/app/util": "export const add = (a: number, b: number) => a + b; export const sub = (a: number, b: number) => a - b;"}),
    "import-and-reexport": ('import { add } from "./util"; export { sub } from "./util"; export const r = add(1, 2); r', {"/app/util": "export const add = (a: number, b: number) => a + b; export const sub = (a: number, b: number) => a - b;"}),
    "two-spellings": ('import { add } from "./util"; import { sub } from "./lib/../util"; add(1, sub(9, 2))', {"/app/util": "export const add = (a: number, b: number) => a + b; export const sub = (a: number, b: number) => a - b;"}),
    "namespace-and-named": ('import * as u from "./util"; import { add } from "./util"; import dflt from "./util"; [u.add === add, dflt, Object.keys(u).sort().join()].join("|")', {"/app/util": "export const add = (a: number, b: number) => a + b; export default 7;"}),
    "diamond": ('import { a } from "./a"; import { b } from "./b"; a + b', {"/app/a": 'import { base } from "./base"; export const a = base + 1;', "/app/b": 'import { base } from "./base"; export const b = base + 2;', "/app/base": 'console.log("base runs"); export const base = 10;'}),
    "missing-dep": ('import { x } from "./nowhere"; x', {}),
    "dep-throws": ('import { x } from "./bad"; x', {"/app/bad": 'console.log("bad starts"); throw new Error("dep failed"); export const x = 1;'}),
    "dep-syntax-error": ('import { x } from "./bad"; x', {"/app/bad": "export const x = ;"}),
    "missing-export": ('import { nope } from "./util"; typeof nope', {"/app/util": "export const yes = 1;"}),
    "internal-and-host": ('import { order } from "tsrun:host"; import { k } from "./k"; const v = await order(k); export const out = v + 1; out', {"/app/k": "export const k = 20;"}),
    "side-effect-only": ('import "./fx"; (globalThis as any).fx', {"/app/fx": "(globalThis as any).fx = 'ran'; console.log('fx');"}),
    "export-table": ('export const n = 1; export let s = "x"; export function f() { return 2; } export class K {} export default { d: [1, 2] }; export const o = { a: [1, { b: 2 }] }; n', {}),
    "top-level-await-order-in-dep": ('import { got } from "./dep"; got * 2', {"/app/dep": 'import { order } from "tsrun:host"; export const got = await order(4);'}),
    "uncaught-after-output": ('console.log("a"); console.error("b"); null.x;', {}),
    "syntax-error-main": ("let = ;", {}),
    "compile-error-main": ("{ break; }", {}),
    "script-no-path-value": ("let a = 2; a ** 10", None),
    "suspended-never": ('import { order } from "tsrun:host"; const p = new Promise(() => {}); await p; 1', {}),
}

ROLE_MODULES = {
    "plain": 'console.log("body"); export const n = 42; export let s = "str"; export const o = { a: [1, { b: 2 }] }; export function f() { return n + 1; } export default 7;',
    "computed": 'const parts = [1, 2, 3].map((x) => x * 2); console.log(parts.join()); export const total = parts.reduce((a, b) => a + b, 0); export const list = parts; export default parts.length;',
    "class-and-enum": 'export enum E { A = 1, B } export class P { constructor(public v: number) {} get d() { return this.v * 2; } } export const p = new P(E.B).d; console.log("p", p);',
    "closures": 'let c = 0; export const inc = () => ++c; inc(); inc(); export const seen = c; export default inc() + 10;',
    "throws-late": 'export const before = 1; console.log("before"); if (before) { throw new RangeError("late"); } export const after = 2;',
}


def run(chk):
    chk.assumptions = [
        "eval is followed by a step loop when it returns a non-terminal result (there is no other way to continue it)",
        "orders are answered with twice their numeric payload as soon as they are reported, imports are supplied from a fixed table",
        "the error of a failed run is compared by its display text (the C API exposes nothing else)",
    ]
    chk.prove(["theories/Entry/Properties.vo"], ["theories/Entry/Properties.v"], facts=["C19"])
    ok, out, chk.th = common.build_harness("debug")
    if not ok:
        chk.proof_breaks.append("harness does not build against /repo: " + out[-800:])
        return chk.finish()
    rng = common.Rng(chk.seed, PID)

    if chk.replay:
        r = json.load(open(chk.replay))
        res = run_entry(chk, [r["request"]], "replay19")
        cs = {w: canon(t) for w, t in res[0].items()} if "error" not in res[0] else {}
        for w in cs:
            log("replay %-9s %s" % (w, json.dumps(cs[w])[:300]))
        ref = cs.get("step")
        if any(c != ref for w, c in cs.items() if "skipped" not in c):
            chk.violation(dict(r, observed=cs))
        return chk.finish()

    progs = []
    for name, (src, mods) in DUP.items():
        progs.append(("imports:" + name, {"program": src, "path": "/app/main.ts" if mods is not None else None, "modules": mods or {}}))
    for name, src in c14.CORPUS.items():
        progs.append(("corpus:" + name, {"program": src, "path": "/c19_%s.ts" % name, "modules": {}}))
    for name, src in list(c07.T.items()):
        progs.append(("await:" + name, {"program": c07.H + src, "path": "/c19_t.ts", "modules": {}}))
    n_graphs = 60 if chk.tier == "quick" else 3000
    for i in range(n_graphs):
        n = 2 + rng.below(5)
        deps, main = c09.gen_graph(rng, n)
        mods = {c09.path_of(j): c09.module_source(rng, j, deps[j]) for j in range(n)}
        progs.append(("graph:%d" % i, {"program": c09.main_source(rng, main), "path": "/src/main.ts", "modules": mods}))
    res = run_entry(chk, [p for _, p in progs], "w19")
    stats = {"programs": len(progs), "ways": WAYS, "runs": len(progs) * len(WAYS), "disagreements": 0, "final_kinds": {}, "with_imports": 0,
             "with_orders": 0, "with_exports": 0}
    for (name, req), o in zip(progs, res):
        if "error" in o:
            chk.violation({"program_name": name, "request": req, "what": "harness: " + str(o["error"])})
            continue
        cs = {w: canon(o[w]) for w in WAYS if w in o}
        ref = cs["step"]
        k = ref["final"][0] if isinstance(ref, dict) else "panic"
        stats["final_kinds"][k] = stats["final_kinds"].get(k, 0) + 1
        if isinstance(ref, dict):
            evs = ref.get("events") or []
            stats["with_imports"] += any("needimports" in e for e in evs)
            stats["with_orders"] += any("orders" in e for e in evs)
            stats["with_exports"] += bool(ref.get("exports"))
        bad = [w for w in WAYS if cs.get(w) != ref]
        if bad:
            stats["disagreements"] += 1
            if len(chk.violations) < 6:
                chk.violation({"program_name": name, "request": req, "differs": bad,
                               "observed": {w: cs[w] for w in ["step"] + bad},
                               "what": "entry points disagree on the canonical trace (import requests / orders / result / console / exports)"})

    # ---- module roles ----------------------------------------------------------------------------
    role_reqs, role_names = [], []
    for name, src in ROLE_MODULES.items():
        observer = 'import * as m from "%s"; const ks = Object.keys(m).sort(); JSON.stringify(ks.map((k) => [k, typeof (m as any)[k] === "function" ? "fn" : (m as any)[k]]))'
        role_reqs.append({"program": src + "\nJSON.stringify(1)", "path": "/roles/mod.ts", "modules": {}, "ways": ["step"]})
        role_reqs.append({"program": observer % "./mod", "path": "/roles/main.ts", "modules": {"/roles/mod": src}, "ways": ["step"]})
        role_reqs.append({"program": observer % "app:mod", "path": "/roles/main.ts", "modules": {}, "internal": {"app:mod": src}, "ways": ["step"]})
        role_names.append(name)
    rres = run_entry(chk, role_reqs, "r19")
    for i, name in enumerate(role_names):
        main_t, dep_t, int_t = (rres[3 * i + k].get("step", {}) for k in range(3))

        def table(t, from_exports):
            if from_exports:
                return {k: ("fn" if v == "object" and False else v) for k, v in (t.get("exports") or {}).items()}
            f = t.get("final", {})
            if f.get("status") != "complete":
                return {"!": f.get("status"), "text": (f.get("text") or "").strip()}
            return {k: v for k, v in json.loads(f.get("json") or "[]")}
        # as entry program the table is read through the export API; as dependency through the namespace object
        as_main = main_t.get("exports") or {}
        as_dep, as_int = table(dep_t, False), table(int_t, False)
        logs = [main_t.get("log"), dep_t.get("log"), int_t.get("log")]
        fin = [(t.get("final", {}).get("status"), (t.get("final", {}).get("text") or "").strip().split("\n")[0]) for t in (main_t, dep_t, int_t)]
        names_main = sorted(as_main)
        same_dep_int = as_dep == as_int
        same_names = ("!" in as_dep) or names_main == sorted(as_dep)
        same_logs = logs[0] == logs[1] == logs[2]
        same_status = fin[0][0] == fin[1][0] == fin[2][0]
        stats.setdefault("roles", []).append({"module": name, "exports": names_main, "log": logs[0], "status": fin[0][0]})
        if not (same_dep_int and same_names and same_logs and same_status):
            chk.violation({"module": name, "source": ROLE_MODULES[name], "request": role_reqs[3 * i + 1],
                           "observed": {"as_entry_program": {"exports": as_main, "log": logs[0], "final": fin[0]},
                                        "as_host_dependency": {"namespace": as_dep, "log": logs[1], "final": fin[1]},
                                        "as_internal_source_module": {"namespace": as_int, "log": logs[2], "final": fin[2]}},
                           "what": "a module behaves differently depending on its role (entry program / supplied dependency / internal source module)"})
    # ---- importer shapes: the first use of the module happens at run time, after the importer exported something ----
    IMPORTERS = {
        "re-export-named": 'export const before = 1; export function early() { return 2; } export { %(first)s as renamed } from "%(spec)s"; export const after = 3; JSON.stringify("done")',
        "re-export-namespace": 'export const before = 1; export * as ns from "%(spec)s"; export const after = 3; JSON.stringify("done")',
        "re-export-star": 'export const before = 1; export * from "%(spec)s"; export const after = 3; JSON.stringify("done")',
        "dynamic-import": 'export const before = 1; export let seen = ""; const m = await import("%(spec)s"); seen = Object.keys(m).sort().join(); export const after = 3; JSON.stringify(seen)',
        "dynamic-import-in-function": 'export const before = 1; async function load() { const m = await import("%(spec)s"); return Object.keys(m).sort().join(); } export const keys = await load(); export const after = 3; JSON.stringify(keys)',
    }
    FIRST = {"plain": "n", "computed": "total", "class-and-enum": "p", "closures": "seen"}
    imp_reqs, imp_names = [], []
    star_known = False
    for name, src in ROLE_MODULES.items():
        if name not in FIRST:
            continue
        for iname, tmpl in IMPORTERS.items():
            imp_reqs.append({"program": tmpl % {"spec": "./mod", "first": FIRST[name]}, "path": "/roles/main.ts", "modules": {"/roles/mod": src}, "ways": ["step", "eval"]})
            imp_reqs.append({"program": tmpl % {"spec": "app:mod", "first": FIRST[name]}, "path": "/roles/main.ts", "modules": {}, "internal": {"app:mod": src}, "ways": ["step", "eval"]})
            imp_names.append((name, iname))
    ires = run_entry(chk, imp_reqs, "i19")
    stats["importer_shapes"] = len(imp_names)
    for i, (name, iname) in enumerate(imp_names):
        for way in ("step", "eval"):
            dep_t, int_t = ires[2 * i].get(way, {}), ires[2 * i + 1].get(way, {})
            view = lambda t: {"exports": t.get("exports"), "log": t.get("log"),
                              "final": (t.get("final", {}).get("status"), t.get("final", {}).get("json"), (t.get("final", {}).get("text") or "").strip().split("\n")[0])}
            if view(dep_t) != view(int_t) and iname == "re-export-star" and any(e["class"] == "R1-export-star-ignored" for e in chk.known):
                star_known = True
                continue
            if view(dep_t) != view(int_t) and len(chk.violations) < 8:
                chk.violation({"module": name, "importer": iname, "way": way, "source": ROLE_MODULES[name], "request": imp_reqs[2 * i + 1],
                               "observed": {"module_supplied_by_host": view(dep_t), "module_registered_as_internal_source": view(int_t)},
                               "what": "the importing program's exports / result depend on whether the module it first uses at run time is a "
                                       "host-supplied dependency or an internal source module"})
    for e in chk.known:
        if e["class"] == "R1-export-star-ignored":
            if star_known:
                chk.known_finding(e)
            else:
                chk.stale_known.append("R1-export-star-ignored did not reproduce")
    chk.samples.append({"program": progs[3][1]["program"], "canonical_trace": canon(res[3]["step"]) if "step" in res[3] else None})
    chk.coverage.update({
        "evaluations": stats["runs"] + len(role_reqs), "distinct_nontrivial": len(progs) + len(ROLE_MODULES),
        "rule": "%d programs (%d import/duplicate-import/error shapes, C14 corpus as modules, C07 await templates with host orders, %d generated "
                "module graphs with several spellings per edge) x 5 entry points, canonical traces identical; %d module texts x 3 roles"
                % (len(progs), len(DUP), n_graphs, len(ROLE_MODULES)),
        "exhaustive": False, "stats": stats,
    })
    return chk.finish()
