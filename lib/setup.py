"""./vcheck setup: builds everything from files on disk, offline."""
import os
import sys
import common


def main():
    rc, out = common.sh([sys.executable, os.path.join(common.ROOT, "tools", "translate.py")], timeout=300)
    if rc != 0:
        common.log(out[-2000:])
        common.log("setup: translator failed")
        return 1
    ok, out = common.coq_make()
    common.log(out[-3000:])
    if not ok:
        common.log("setup: coq build failed")
        return 1
    for f in sorted(os.listdir(common.OCAML)):
        if f.startswith("extract_") and f.endswith(".v"):
            eng = f[len("extract_"):-2]
            ok, out, _ = common.build_ocaml(eng)
            if not ok:
                common.log(out[-3000:])
                common.log("setup: ocaml build of %s failed" % eng)
                return 1
    for prof in ("debug", "release"):     # release: nesting depths the unoptimised parser budget never reaches (C10)
        ok, out, _ = common.build_harness(prof)
        if not ok:
            common.log(out[-3000:])
            common.log("setup: harness build (%s) failed" % prof)
            return 1
    common.log("setup ok")
    return 0
