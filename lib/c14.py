"""C14 — garbage is reclaimed: repeated work does not grow the heap.

Proof: coq/theories/Runs/LeakProperties.v
  * the live-object count after a collection is the size of the set reachable from the
    live guards, for every heap of the Gc model (tied to src/gc.rs by the C13 correspondence);
  * every statement of a structured language with break/continue/return/throw, loops, calls,
    generator resumptions and try/catch/finally leaves the env_guards depth it found,
    whichever way control leaves it (Runs/Exits.v mirrors the scope handling after fixes
    49d9f87 / 6615b90); the pre-fix leaks are refuted by witness.
Tie / search:
  A. random programs of that language are rendered to TypeScript and run: outcome kind,
     console trace and env_guards after the run are compared with Runs.Exits.run_program
     evaluated in Coq; the same programs are repeated and must not grow the heap;
  B. a corpus of construct programs + generated programs x {script, module}, repeated k>=8
     times on one interpreter (incl. runs ending in an uncaught error): live objects after
     collect() must be constant after warm-up;
  C. regenerated fact: push_env_guard/pop_env_guard sites (FactsAgreeC14)."""
import json
import os

import common
from common import log
import c11
import genprog

PID = "C14"

CORPUS = {
    'arith': "let s = 0; for (let i = 0; i < 10; i++) { s += i; } s",
    'objects': "const a = []; for (let i = 0; i < 20; i++) { a.push({i, s: 'x' + i}); } a.length",
    'cycle': "function mk(){ const a: any = {}; const b: any = {a}; a.b = b; return a; } for (let i = 0; i < 10; i++) mk(); 1",
    'closure': "function mk(n: number){ return () => n + 1; } const fs = []; for (let i = 0; i < 10; i++) fs.push(mk(i)); fs.map(f => f()).length",
    'promise': "const ps = []; for (let i = 0; i < 5; i++) ps.push(Promise.resolve(i).then(v => v + 1)); (await Promise.all(ps)).length",
    'promise-chain-reject': "let n = 0; await Promise.reject(new Error('r')).catch(e => { n++; }).finally(() => { n++; }); n",
    'generator': "function* g(){ yield 1; yield 2; } const it = g(); it.next(); [...g()].length",
    'generator-abandoned': "function* g(){ let big = [1,2,3]; yield 1; yield big; } for (let i = 0; i < 5; i++) { g().next(); } 1",
    'generator-exhausted': "function* g(){ let o = {a: [1]}; yield o; return 2; } const it = g(); it.next(); it.next(); it.next().done",
    'generator-in-block-yield': "function* g(){ for (let i = 0; i < 3; i++) { let o = {i}; { let p = [o]; yield p; } } } [...g()].length",
    'generator-return-throw': "function* g(){ try { yield 1; yield 2; } finally { } } const a = g(); a.next(); a.return(5); const b = g(); b.next(); try { b.throw(new Error('t')); } catch (e) { } 1",
    'async': "async function f(n: number){ await null; return n; } let s = 0; for (let i = 0; i < 5; i++) s += await f(i); s",
    'async-reject': "async function f(){ await null; throw new Error('r'); } let n = 0; for (let i = 0; i < 3; i++) { try { await f(); } catch (e) { n++; } } n",
    'async-generator': "async function* g(){ yield 1; await null; yield 2; } let s = 0; for await (const v of g()) s += v; s",
    'class': "class A { v = [1,2,3]; m(){ return this.v.length; } } let t = 0; for (let i = 0; i < 5; i++) t += new A().m(); t",
    'class-inherit-private': "class A { #p = {x: 1}; get p(){ return this.#p.x; } } class B extends A { static s = [1]; q = new Map(); } new B().p + B.s.length",
    'throw-across-frames': "function inner(){ const o = {big: [1]}; throw new Error('x'); } function mid(k: number){ if (k >= 0) { const t = {k}; for (let i = 0; i < 1; i++) { inner(); } } } let n = 0; for (let i = 0; i < 4; i++) { try { mid(i); } catch (e) { n++; } } n",
    'throw-across-async-frames': "async function inner(){ await null; throw new Error('x'); } async function mid(k: number){ if (k >= 0) { const t = {k}; await inner(); } } let n = 0; for (let i = 0; i < 3; i++) { try { await mid(i); } catch (e) { n++; } } n",
    'throw-caught': "function f(){ const o = {big: [1,2,3]}; throw new Error('x'); } let n = 0; for (let i = 0; i < 5; i++) { try { f(); } catch (e) { n++; } } n",
    'uncaught': "function f(){ const o = {big: [1,2,3]}; throw new Error('x'); } f();",
    'uncaught-deep': "function r(n: number){ const o = {n}; if (n === 0) throw new Error('deep'); r(n - 1); } r(20);",
    'uncaught-in-callback': "[1,2,3].forEach((v) => { const o = {v}; if (v === 2) throw new Error('cb'); });",
    'uncaught-in-block': "{ let a = {x: 1}; { let b = [a]; throw new Error('blk'); } }",
    'uncaught-in-generator': "function* g(){ let o = {a: 1}; yield 1; throw new Error('gen'); } const it = g(); it.next(); it.next();",
    'uncaught-async': "async function f(){ let o = {a: 1}; await null; throw new Error('as'); } await f();",
    'map-set': "const m = new Map(); const s = new Set(); for (let i = 0; i < 10; i++) { m.set('k' + i, {i}); s.add({i}); } m.size + s.size",
    'json': "const o = JSON.parse('{\"a\":[1,2,{\"b\":3}]}'); JSON.stringify(o).length",
    'regexp': "const r = /a(b+)/g; 'abbabbb'.replace(r, (m, g) => g.length + '').length",
    'string-ops': "let s = ''; for (let i = 0; i < 20; i++) s += String.fromCharCode(65 + i); s.split('').reverse().join('').length",
    'destructure': "const [{a, b: [c]}] = [{a: 1, b: [2]}]; a + c",
    'getter-proxy': "const p = new Proxy({}, { get: (t, k) => String(k).length }); const o = { get g(){ return [1,2]; } }; p.abc + o.g.length",
    'break-continue': "let n = 0; o: for (let i = 0; i < 5; i++) { for (const j of [1,2,3]) { let t = {i, j}; if (j === 2) continue o; if (i === 4) break o; n++; } } n",
    'finally-return': "function f(){ for (let i = 0; i < 3; i++) { try { let o = {i}; if (i === 1) return o; } finally { let q = [i]; } } } f().i",
    'symbol': "const s = Symbol('x'); const o = {[s]: 1}; Object.getOwnPropertySymbols(o).length",
    'date': "new Date(0).getTime() + new Date(86400000).getUTCDate()",
    'array-sort': "[3,1,2].sort((a,b)=>a-b).map(x => ({x})).length",
    'tagged': "function t(s: any, ...v: any[]){ return s.raw.length + v.length; } t`a${1}b${2}c`",
    'enum-ns': "enum E { A, B } namespace N { export const v = [E.A, E.B]; } N.v.length",
    'label-switch': "let r = 0; for (let i = 0; i < 4; i++) { switch (i) { case 1: continue; case 2: { let o = {i}; r += o.i; break; } default: r++; } } r",
    'promise-never': "new Promise(() => {}); 1",
    'promise-race': "const ps = [1,2,3].map(v => new Promise(res => res({v}))); (await Promise.race(ps)).v",
    'orders': "import { order } from \"tsrun:host\"; let s = 0; for (let i = 0; i < 3; i++) { const o = {i}; s += await order(o.i); } s",
    'orders-parallel': "import { order } from \"tsrun:host\"; const xs = await Promise.all([order(1), order(2), order(3)]); xs.length",
    'bind-apply': "function f(this: any, a: number){ return this.k + a; } const b = f.bind({k: [1].length}); b(1) + f.call({k: 2}, 1) + f.apply({k: 3}, [1])",
    'iterator-protocol': "const it = { [Symbol.iterator]() { let i = 0; return { next: () => ({ done: i >= 3, value: {i: i++} }), return() { return {}; } }; } }; let n = 0; for (const v of it) { if (v.i === 1) break; n++; } n",
    'spread-rest': "function f(...xs: any[]){ return xs.length; } const o = {...{a: [1]}, b: {...{c: 2}}}; f(...[1, 2, ...[3]], o)",
    'template-nesting': "const xs = [1,2,3]; `${xs.map(x => `<${x}>`).join('')}`.length",
    'exports': "export const big = [1,2,3].map(x => ({x})); export function f(){ return big.length; } export default class K { v = big; }",
}

# ---- stream A: the structured language of Runs/Exits.v ------------------------------------------------


def gen_stmt(rng, depth, in_loop, in_fn, ids, in_finally=False, no_throw=False):
    """in_finally: a try statement directly inside a finally block (same frame) is a C01 known deviation
    (L-Control: one pending-completion slot per frame); the generator keeps out of it. no_throw: code that runs
    (also through calls) while a finally block is active must not let an exception escape that block, for the
    same reason: the block's pending completion would stay in the slot"""
    r = rng.below(100)
    if in_finally and 68 <= r < 84:
        r = 30
    if in_finally and r >= 84:
        # an abrupt exit out of a finally block leaves the block's own pending completion behind in the frame's
        # single slot (same known deviation): a later FinallyEnd in the frame completes it
        r = 0
    if depth <= 0 or r < 22:
        ids[0] += 1
        return ("log", ids[0])
    if r < 36:
        return ("block", gen_list(rng, depth - 1, in_loop, in_fn, ids, in_finally, no_throw))
    if r < 50:
        return ("loop", rng.below(3), gen_list(rng, depth - 1, True, in_fn, ids, in_finally, no_throw))
    if r < 62:
        return ("call", gen_list(rng, depth - 1, False, True, ids, False, no_throw or in_finally))
    if r < 68:
        return ("gen", gen_list(rng, depth - 1, False, True, ids, False, no_throw or in_finally))
    if r < 84:
        body = gen_list(rng, depth - 1, in_loop, in_fn, ids, False, no_throw)
        handler = gen_list(rng, depth - 1, in_loop, in_fn, ids, False, no_throw) if rng.chance(2, 3) else []
        fin = gen_list(rng, depth - 1, in_loop, in_fn, ids, True, no_throw) if (rng.chance(1, 2) or not handler) else []
        return ("try", body, handler, fin)
    exits = [] if no_throw else ["throw"]
    if in_loop:
        exits += ["break", "continue", "break", "continue"]
    if in_fn:
        exits += ["return", "return"]
    if not exits:
        ids[0] += 1
        return ("log", ids[0])
    return (rng.choice(exits),)


def gen_list(rng, depth, in_loop, in_fn, ids, in_finally=False, no_throw=False):
    return [gen_stmt(rng, depth, in_loop, in_fn, ids, in_finally, no_throw) for _ in range(1 + rng.below(3))]


def to_coq(s):
    k = s[0]
    if k == "log":
        return "SLog %d" % s[1]
    if k == "block":
        return "SBlock %s" % coq_list(s[1])
    if k == "loop":
        return "SLoop %d %s" % (s[1], coq_list(s[2]))
    if k == "call":
        return "SCall %s" % coq_list(s[1])
    if k == "gen":
        return "SGen %s" % coq_list(s[1])
    if k == "try":
        return "STry %s %s %s" % (coq_list(s[1]), coq_list(s[2]), coq_list(s[3]))
    return {"break": "SBreak", "continue": "SContinue", "return": "SReturn", "throw": "SThrow"}[k]


def coq_list(l):
    return "[" + "; ".join(to_coq(x) for x in l) + "]"


def to_ts(s, n):
    """n: one-element list used as a counter for fresh names"""
    k = s[0]
    n[0] += 1
    u = n[0]
    if k == "log":
        return "console.log('%d');" % s[1]
    if k == "block":
        return "{ let v%d = {k: %d}; %s }" % (u, u, ts_list(s[1], n))
    if k == "loop":
        return "for (let i%d = 0; i%d < %d; i%d++) { let w%d = [i%d]; %s }" % (u, u, s[1] + 1, u, u, u, ts_list(s[2], n))
    if k == "call":
        return "function f%d() { let c%d = {k: %d}; %s } f%d();" % (u, u, u, ts_list(s[1], n), u)
    if k == "gen":
        return "function* g%d() { let c%d = {k: %d}; %s } g%d().next();" % (u, u, u, ts_list(s[1], n), u)
    if k == "try":
        out = "try { let t%d = [%d]; %s }" % (u, u, ts_list(s[1], n))
        if s[2]:
            out += " catch (e%d) { %s }" % (u, ts_list(s[2], n))
        if s[3]:
            out += " finally { %s }" % ts_list(s[3], n)
        return out
    return {"break": "break;", "continue": "continue;", "return": "return;", "throw": "throw new Error('T');"}[k]


def ts_list(l, n):
    return " ".join(to_ts(x, n) for x in l)


def series_ok(lives, warm=2):
    tail = lives[warm:]
    return all(a == b for a, b in zip(tail, tail[1:]))


def run(chk):
    chk.assumptions = [
        "a program is self-contained: it makes no deliberate change to global state (module-level declarations with a path, no globalThis "
        "writes); script-mode top-level declarations of the corpus are re-declared by every repetition and so do not accumulate",
        "the first two repetitions are warm-up (string interning, lazily created prototypes, internal-module instantiation)",
        "the structured language carries scopes, guards and the order of observable steps; values and conditions are not modelled: "
        "every exit statement is unconditional and loops run a fixed number of rounds",
    ]
    chk.prove(["theories/Runs/LeakProperties.vo"], ["theories/Runs/LeakProperties.v"], facts=["C14"])
    ok, out, chk.th = common.build_harness("debug")
    if not ok:
        chk.proof_breaks.append("harness does not build against /repo: " + out[-800:])
        return chk.finish()
    rng = common.Rng(chk.seed, PID)
    K = 8
    stats = {"exit_programs": 0, "exit_runs": 0, "corpus_series": 0, "generated_series": 0, "series_with_error_end": 0, "max_live": 0}

    if chk.replay:
        r = json.load(open(chk.replay))
        res, err = c11.run_seq(chk, [{"runs": [r["run"]] * K}], "replay14")
        lives = [x["live"] for x in res[0]["runs"]]
        guards = [x["summary"]["env_guards"] for x in res[0]["runs"]]
        log("replay: live series %r env_guards %r" % (lives, guards))
        if not series_ok(lives) or any(guards):
            chk.violation(dict(r, observed={"live": lives, "env_guards": guards}))
        return chk.finish()

    # ---- A ---------------------------------------------------------------------------------------
    n_a = 160 if chk.tier == "quick" else 8000
    progs = []
    fixed = [[("loop", 0, [("block", [("break",)])])], [("call", [("block", [("return",)])])], [("gen", [("log", 1)])],
             [("loop", 2, [("try", [("block", [("log", 1), ("continue",)])], [], [("block", [("log", 2)])]), ("break",)]),
              ("call", [("loop", 1, [("try", [("block", [("return",)])], [("log", 3)], [("log", 4)])])]),
              ("try", [("call", [("block", [("throw",)])])], [("block", [("log", 5)])], []),
              ("gen", [("loop", 0, [("block", [("log", 6), ("break",)])])])]]
    # an exception crossing frames whose call sites sit inside blocks/loops, caught further out or not at all
    fixed += [[("try", [("call", [("block", [("call", [("block", [("throw",)])])])])], [("log", 1)], [])],
              [("try", [("call", [("loop", 1, [("call", [("loop", 0, [("call", [("throw",)])])])])])], [("log", 1)], [("log", 2)])],
              [("loop", 1, [("try", [("call", [("block", [("gen", [("block", [("call", [("throw",)])])])])])], [("log", 1), ("continue",)], [])])],
              [("call", [("block", [("call", [("block", [("throw",)])])])])]]
    progs += fixed
    while len(progs) < n_a:
        progs.append(gen_list(rng, 2 + rng.below(3), False, False, [0]))
    lines = ["From Coq Require Import List String.", "From TsrunV Require Import Base.Render Runs.Exits.", "Import ListNotations.",
             "Local Open Scope string_scope.",
             "Definition one (p : list stmt) : string := let '(o, (g, t)) := run_program true 40 p in "
             "(match o with ONormal => \"N\" | OThrow => \"T\" | OBreak => \"B\" | OContinue => \"C\" | OReturn => \"R\" end) ++ \" \" ++ "
             "string_of_nat g ++ \" \" ++ String.concat \",\" (map string_of_nat t).",
             "Definition cases : list string := ["]
    lines.append(";\n".join("one %s" % coq_list(p) for p in progs) + "].")
    lines.append("Eval vm_compute in (lines cases).")
    model, out = common.run_cases_v("c14_exits", "\n".join(lines))
    if model is None:
        raise common.FrameworkError("cases.v for Runs.Exits failed: " + out[-600:])
    reqs = []
    for p in progs:
        run = {"src": ts_list(p, [0]), "path": None}
        reqs.append({"runs": [run] * 6})
    res, err = c11.run_seq(chk, reqs, "a14")
    for p, want, o, rq in zip(progs, model, res, reqs):
        stats["exit_programs"] += 1
        if "error" in o:
            chk.violation({"run": rq["runs"][0], "what": "harness: " + str(o["error"])})
            continue
        parts = want.split(" ")
        kind, g, trace = parts[0], int(parts[1]), (parts[2] if len(parts) > 2 else "")
        r0 = o["runs"][0]
        stats["exit_runs"] += len(o["runs"])
        got_kind = {"complete": "N", "error": "T"}.get(r0["status"], r0["status"])
        got_trace = ",".join(r0.get("log", []))
        if (got_kind, got_trace) != (kind, trace):
            chk.proof_breaks.append("correspondence Runs.Exits vs Interpreter on %s: model %s trace [%s], implementation %s trace [%s] (%s)"
                                    % (coq_list(p), kind, trace, got_kind, got_trace, r0.get("message")))
            if len(chk.proof_breaks) > 6:
                break
            continue
        guards = [x["summary"]["env_guards"] for x in o["runs"]]
        lives = [x["live"] for x in o["runs"]]
        if any(x != g for x in guards) or not series_ok(lives, 1):
            if len(chk.violations) < 5:
                chk.violation({"run": rq["runs"][0], "program": coq_list(p), "observed": {"env_guards_after_each_run": guards, "live": lives},
                               "model_env_guards": g,
                               "what": "environment roots or live objects left behind by a program of the structured language"})

    # ---- B ---------------------------------------------------------------------------------------
    series = []
    for name, src in CORPUS.items():
        for path in (None, "/c14_%s.ts" % name):
            if path is None and ("await " in src or "import " in src or "export " in src):
                continue
            series.append(("corpus:%s:%s" % (name, "module" if path else "script"), {"src": src, "path": path}))
    n_gen = 40 if chk.tier == "quick" else 2000
    for i in range(n_gen):
        g = genprog.Gen(rng, features={}, ts=True)
        series.append(("generated:%d" % i, {"src": g.program(5, 3), "path": "/c14_gen_%d.ts" % i}))
    reps = K if chk.tier == "quick" else 16
    reqs = [{"runs": [run] * reps, "gc": [None, 1, 5][k % 3]} for k, (_, run) in enumerate(series)]
    res, err = c11.run_seq(chk, reqs, "b14")
    for (name, run), o in zip(series, res):
        if "error" in o:
            chk.violation({"run": run, "what": "harness: " + str(o["error"])})
            continue
        lives = [x["live"] for x in o["runs"]]
        guards = [x["summary"]["env_guards"] for x in o["runs"]]
        stats["corpus_series" if name.startswith("corpus") else "generated_series"] += 1
        stats["max_live"] = max(stats["max_live"], max(lives))
        if o["runs"][-1]["status"] == "error":
            stats["series_with_error_end"] += 1
        if not series_ok(lives) or any(guards[2:]):
            if len(chk.violations) < 6:
                chk.violation({"run": run, "program_name": name, "observed": {"live": lives, "env_guards": guards, "status": o["runs"][-1]["status"]},
                               "what": "live objects after collect() grow (or environment roots stay) when the same self-contained program is repeated"})
    chk.samples.append({"program": coq_list(progs[len(fixed) + 1]), "model": model[len(fixed) + 1], "typescript": ts_list(progs[len(fixed) + 1], [0])})
    chk.coverage.update({
        "evaluations": stats["exit_runs"] + (stats["corpus_series"] + stats["generated_series"]) * reps,
        "distinct_nontrivial": stats["exit_programs"] + stats["corpus_series"] + stats["generated_series"],
        "rule": "%d programs of the structured exits language (4 fixed incl. the refutation witnesses, rest PRNG-drawn, depth 2-4) run 6 times each, "
                "outcome/trace/env_guards compared with run_program in Coq; %d corpus programs x {script, module} and %d generated programs repeated "
                "%d times under GC thresholds {default, 1, 5}, live objects after collect() constant after 2 warm-up runs"
                % (stats["exit_programs"], len(CORPUS), n_gen, reps),
        "exhaustive": False, "stats": stats,
    })
    return chk.finish()
