"""C01, mechanism M5: the calendar arithmetic of Date (coq/theories/Lang/Civil*.v).

The theorems say that the model's days_to_ymd / ymd_to_days / components_to_ts /
ts_to_components ARE ECMAScript's YearFromTime .. MakeDay .. TimeClip for every
integer. The tie, on every run: the getUTC* methods of new Date(ts) and
Date.UTC(...) of the implementation must equal the model's functions on the
same time values / component tuples, and node must equal them too (which checks
that the ECMAScript side was transcribed from the specification and not from
the code). Component tuples stay inside the domain on which the f64 arithmetic
of the source is exact (every partial sum below 2^53)."""
import json
import os
import subprocess
from concurrent.futures import ThreadPoolExecutor

import common

PID = "C01"
MS = 86400000
LIM = 8640000000000000


def time_values(chk):
    rng = common.Rng(chk.seed, "C01date-ts")
    out = [0, 1, -1, MS - 1, MS, -MS, -MS - 1, LIM, -LIM, LIM - 1, -LIM + 1, 951782400000, 951868799999, 946684799999, 946684800000,
           -62198755200000, -62198755200001, -62167219200000, -62135596800000, 253402300799999, 253402300800000]
    for k in (-4, -1, 0, 1, 5):                      # era boundaries (1 March of a year divisible by 400)
        d0 = -719468 + k * 146097
        out += [(d0 + j) * MS + t for j in (-1, 0, 1) for t in (0, MS - 1)]
    n = 400 if chk.tier == "quick" else 20000
    for _ in range(n):
        kind = rng.below(4)
        if kind == 0:
            out.append(rng.below(2 * LIM + 1) - LIM)
        elif kind == 1:                              # around 1 January / 1 March / 31 December of a random year
            y = rng.below(547000) - 271000
            days = 365 * (y - 1970) + (y - 1969) // 4 - (y - 1901) // 100 + (y - 1601) // 400
            days += rng.choice([-1, 0, 1, 58, 59, 60, 364, 365, 366])
            out.append(max(-LIM, min(LIM, days * MS + rng.below(MS))))
        elif kind == 2:
            out.append((rng.below(200000) - 100000) * MS + rng.choice([0, 1, MS - 1, 3600000, 3599999, 60000, 59999, 1000, 999]))
        else:
            out.append(rng.below(4 * 10 ** 12) - 10 ** 12)
    return out


def utc_tuples(chk):
    rng = common.Rng(chk.seed, "C01date-utc")
    out = [(2020, 1, 29, 0, 0, 0, 0), (2021, 1, 29, 0, 0, 0, 0), (1970, 0, 1, 0, 0, 0, 0), (99, 0, 1, 0, 0, 0, 0), (100, 0, 1, 0, 0, 0, 0), (0, 0, 1, 0, 0, 0, 0),
           (-1, 0, 1, 0, 0, 0, 0), (275760, 8, 13, 0, 0, 0, 0), (275760, 8, 13, 0, 0, 0, 1), (-271821, 3, 20, 0, 0, 0, 0), (-271821, 3, 19, 23, 59, 59, 999),
           (2020, 13, 31, 25, 0, 0, 0), (2020, -1, 0, -1, -1, -1, -1), (2000, 0, 1, 24, 60, 60, 1000), (400000, 0, -100000000, 0, 0, 0, 0),
           (400000, 11, 1, 0, 0, 0, 0), (399999, 23, -146000000, 0, 0, 0, 0), (-399000, 0, 145800000, 0, 0, 0, 0), (2000, 4800000, 1, 0, 0, 0, 0),
           (2000, -4800000, 1, 0, 0, 0, 0), (1970, 0, 100000001, 0, 0, 0, 0), (1970, 0, 100000001, 0, 0, 0, -1), (1970, 0, -99999999, 0, 0, 0, 0)]
    n = 400 if chk.tier == "quick" else 20000
    for _ in range(n):
        wide = rng.chance(1, 4)
        # V8's own day arithmetic is off by one for years <= -400000: stay clear of it
        y = rng.below(798001) - 399000 if wide else rng.below(6000) - 2000
        mo = rng.below(20001) - 10000 if wide else rng.below(40) - 14
        d = rng.below(2 * 10 ** 8) - 10 ** 8 if wide else rng.below(900) - 400
        h = rng.below(10 ** 9) - 5 * 10 ** 8 if wide else rng.below(100) - 30
        mi = rng.below(10 ** 10) - 5 * 10 ** 9 if wide else rng.below(200) - 70
        s = rng.below(10 ** 11) - 5 * 10 ** 10 if wide else rng.below(200) - 70
        ms = rng.below(10 ** 14) - 5 * 10 ** 13 if wide else rng.below(3000) - 1000
        out.append((y, mo, d, h, mi, s, ms))
    return out


def js_programs(tss, tuples, size=200):
    progs = []
    for k in range(0, len(tss), size):
        progs.append("JSON.parse('[%s]').map(t => { const d = new Date(t); return [d.getUTCFullYear(), d.getUTCMonth() + 1, d.getUTCDate(), d.getUTCHours(), "
                     "d.getUTCMinutes(), d.getUTCSeconds(), d.getUTCMilliseconds(), d.getUTCDay()].join(); }).join(';')"
                     % ",".join(str(t) for t in tss[k:k + size]))
    nts = len(progs)
    for k in range(0, len(tuples), size):
        progs.append("JSON.parse('[%s]').map(a => String(Date.UTC(...a))).join(';')" % ",".join("[%s]" % ",".join(str(x) for x in t) for t in tuples[k:k + size]))
    return progs, nts


def node_values(srcs):
    d = os.path.join(common.OUT, PID)
    os.makedirs(d, exist_ok=True)
    p = os.path.join(d, "date_n.json")
    json.dump(srcs, open(p, "w"))
    js = ("const fs=require('fs'),vm=require('vm');const S=JSON.parse(fs.readFileSync(process.argv[1],'utf8'));"
          "const out=S.map(s=>{try{return String(vm.runInNewContext(s,{}, {timeout:20000}));}catch(e){return 'error '+e.name;}});"
          "process.stdout.write(JSON.stringify(out));")
    try:
        r = subprocess.run(["node", "-e", js, p], capture_output=True, text=True, timeout=600, env=dict(os.environ, TZ="UTC"))
        os.remove(p)
        return json.loads(r.stdout)
    except Exception as ex:
        raise common.FrameworkError("node is required for C01: " + str(ex))


def zlit(x):
    return "(%d)" % x


def run(chk, th, stats):
    tss, tuples = time_values(chk), utc_tuples(chk)
    if chk.replay:
        r = json.load(open(chk.replay))
        tss, tuples = r.get("time_values", []), [tuple(t) for t in r.get("utc_arguments", [])]
    size = 200
    srcs, nts = js_programs(tss, tuples, size)
    progs = [("d%d" % i, "steps=20000000", s) for i, s in enumerate(srcs)]
    rres = common.run_programs(th, progs, tag="c01date", timeout=1200)
    nres = node_values(srcs)
    rows = ["getters_case %s" % zlit(t) for t in tss] + \
           ["utc_case %s ++ \"|\" ++ utc_spec_case %s" % (" ".join(zlit(x) for x in t), " ".join(zlit(x) for x in t)) for t in tuples]
    jobs = []
    shard = 1000
    for k in range(0, len(rows), shard):
        body = ("From Coq Require Import String ZArith List.\nFrom TsrunV Require Import Lang.Civil Lang.CivilExec Base.Render.\n"
                "Import ListNotations.\nLocal Open Scope string_scope.\nLocal Open Scope Z_scope.\nEval vm_compute in (lines [%s])." % ";\n ".join(rows[k:k + shard]))
        jobs.append(("c01date_%d" % (k // shard), body))
    with ThreadPoolExecutor(8) as ex:
        outs = list(ex.map(lambda j: common.run_cases_v(j[0], j[1], timeout=900), jobs))
    model = []
    for (name, _), (got, raw) in zip(jobs, outs):
        if got is None:
            chk.proof_breaks.append("Lang.CivilExec cases do not evaluate (%s): %s" % (name, raw[-600:]))
            return
        model += got
    if len(model) != len(rows):
        chk.proof_breaks.append("Lang.CivilExec returned %d rows for %d cases" % (len(model), len(rows)))
        return
    impl, node = [], []
    for i, s in enumerate(srcs):
        v = rres.get("d%d" % i, {})
        n_items = len(tss[i * size:(i + 1) * size]) if i < nts else len(tuples[(i - nts) * size:(i - nts + 1) * size])
        if v.get("status") == "complete" and str(v.get("value", "")).startswith("str:"):
            impl += v["value"][4:].split(";")
        else:
            impl += ["status %s %s" % (v.get("status"), v.get("class"))] * n_items
        node += nres[i].split(";") if not nres[i].startswith("error") else [nres[i]] * n_items
    for i, row in enumerate(model):
        is_ts = i < len(tss)
        stats["date_cases"] = stats.get("date_cases", 0) + 1
        if is_ts:
            want, spec, what = row, row, {"time_values": [tss[i]]}
        else:
            want, spec = row.split("|")
            what = {"utc_arguments": [list(tuples[i - len(tss)])]}
            if want != spec:
                t = tuples[i - len(tss)]
                fy = 1900 + t[0] if 0 <= t[0] <= 99 else t[0]
                if abs(fy + t[1] // 12) <= 400000:
                    chk.proof_breaks.append("components_to_ts and MakeDate disagree inside the guard (theorem c01_date_components_to_ts_is_MakeDate "
                                            "would be false) on %s: %s vs %s" % (t, want, spec))
                    continue
        if node[i] != spec:
            if impl[i] == node[i]:
                chk.proof_breaks.append("the ECMAScript side of Lang/Civil.v disagrees with the reference engine and the implementation on %s: "
                                        "spec %s, node %s" % (what, spec, node[i]))
            elif len(chk.violations) < 6:
                what.update({"tsrun": impl[i], "model": want, "specification": spec, "node": node[i], "what": "Date: implementation, specification and node all differ"})
                chk.violation(what)
            continue
        if impl[i] != want:
            if impl[i] == node[i] and want != spec:
                continue  # outside the guard the code may still agree with ECMAScript; the theorem does not speak there
            if len(chk.violations) < 6:
                what.update({"tsrun": impl[i], "model": want, "node": node[i],
                             "what": "the UTC getters of a time value / Date.UTC of a component tuple are not what ECMAScript's date arithmetic gives "
                                     "(getters: year,month,date,h,m,s,ms,weekday)"})
                chk.violation(what)
