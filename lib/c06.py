"""C06 — the host keeps control.
Proof: coq/theories/Lang/TrampolineProperties.v (one instruction per step and
no native-stack growth for every instruction that is not a re-entering
native; script recursion of any depth costs trampoline frames only) and
Expected/FactsAgreeC06.v (the set of Rust functions that re-enter the VM,
regenerated from the source, equals the pinned set). Tie: generated programs
route loops and recursion through every call path; the hook counters
(instructions per host-visible step, nesting of run loops) must equal the
model's prediction on trampolined paths; worker exit status exhibits what
the model only locates (native stack overflow, allocation abort)."""
import json
import os

import common
from common import log

PID = "C06"
from c06_hostile import HOSTILE  # noqa: E402
import c06_extreme  # noqa: E402
import c06_receivers  # noqa: E402
import c06_protocol  # noqa: E402


def work(n):
    return "let __t = 0; for (let __i = 0; __i < %d; __i++) { __t += __i; }" % n


def paths(n):
    W = work(n)
    tramp = {
        "plain": "function f(){ %s return __t; } f()",
        "method": "const o={m(){ %s return __t; }}; o.m()",
        "ctor": "function C(){ %s this.t=__t; } new C().t",
        "class-ctor": "class C{ constructor(){ %s this.t=__t; } } new C().t",
        "class-method": "class C{ m(){ %s return __t; } } new C().m()",
        "static-method": "class C{ static m(){ %s return __t; } } C.m()",
        "super-method": "class A{ m(){ %s return __t; } } class B extends A{ m(){ return super.m(); } } new B().m()",
        "super-ctor": "class A{ constructor(){ %s this.t=__t; } } class B extends A{ constructor(){ super(); } } new B().t",
        "bound": "function f(){ %s return __t; } f.bind(null)()",
        "bound-method": "const o={v:1, m(){ %s return __t + this.v; }}; const b=o.m.bind(o); b()",
        "arrow": "const f=()=>{ %s return __t; }; f()",
        "closure": "function mk(){ return function(){ %s return __t; }; } mk()()",
        "iife": "(function(){ %s return __t; })()",
        "async-await": "async function f(){ %s return __t; } await f()",
        "async-arrow": "const f=async()=>{ %s return __t; }; await f()",
        "default-param": "function h(){ %s return __t; } function f(a=h()){ return a; } f()",
        "class-field-init": "function h(){ %s return __t; } class C{ x=h(); } new C().x",
        "static-block": "let r; class C{ static { %s r=__t; } } r",
        "nested-calls": "function a(){ %s return __t; } function b(){ return a()+1; } function c(){ return b()+1; } c()",
        "spread-call": "function f(...r){ %s return __t + r.length; } f(...[1,2,3])",
        "optional-call": "const o={m(){ %s return __t; }}; o?.m?.()",
        "new-class-expr": "const C=class{ constructor(){ %s this.t=__t; } }; new C().t",
    }
    reenter = {
        "call": "function f(){ %s return __t; } f.call(null)",
        "apply": "function f(){ %s return __t; } f.apply(null, [])",
        "reflect-apply": "function f(){ %s return __t; } Reflect.apply(f, null, [])",
        "getter": "const o={get g(){ %s return __t; }}; o.g",
        "setter": "let r; const o={set s(v){ %s r=__t; }}; o.s=1; r",
        "class-getter": "class C{ get g(){ %s return __t; } } new C().g",
        "valueOf": "const o={valueOf(){ %s return __t; }}; o+1",
        "toString": "const o={toString(){ %s return 'x'+__t; }}; `${o}`",
        "proxy-get": "const p=new Proxy({}, {get(){ %s return __t; }}); p.x",
        "proxy-apply": "const p=new Proxy(function(){}, {apply(){ %s return __t; }}); p()",
        "map": "[1].map(()=>{ %s return __t; })[0]",
        "forEach": "let r; [1].forEach(()=>{ %s r=__t; }); r",
        "filter": "[1].filter(()=>{ %s return true; }).length",
        "reduce": "[1,2].reduce((a,b)=>{ %s return __t; })",
        "some": "[1].some(()=>{ %s return true; })",
        "find": "[1].find(()=>{ %s return true; })",
        "sort": "[2,1].sort((a,b)=>{ %s return a-b; })[0]",
        "flatMap": "[1].flatMap(()=>{ %s return [__t]; })[0]",
        "array-from-fn": "Array.from([1], ()=>{ %s return __t; })[0]",
        "replace-fn": "'a'.replace('a', ()=>{ %s return 'x'+__t; })",
        "replace-regex-fn": "'a'.replace(/a/g, ()=>{ %s return 'x'+__t; })",
        "map-forEach": "let r; new Map([[1,1]]).forEach(()=>{ %s r=__t; }); r",
        "set-forEach": "let r; new Set([1]).forEach(()=>{ %s r=__t; }); r",
        "generator-next": "function* g(){ %s yield __t; } g().next().value",
        "generator-forof": "function* g(){ %s yield __t; } let r; for (const x of g()) r=x; r",
        "generator-spread": "function* g(){ %s yield __t; } [...g()][0]",
        "custom-iterator": "const it={[Symbol.iterator](){ let d=false; return {next(){ %s if(d) return {done:true}; d=true; return {done:false,value:__t}; }}; }}; let r; for (const x of it) r=x; r",
        "destructure-iter": "function* g(){ %s yield __t; } const [a]=g(); a",
        "tagged": "function tg(){ %s return __t; } tg`x`",
        "promise-then": "let r; await Promise.resolve(1).then(()=>{ %s r=__t; }); r",
        "promise-ctor": "await new Promise(res=>{ %s res(__t); })",
        "decorator": "function d(t){ %s return t; } @d class C{} typeof C",
        "instanceof-hasInstance": "const C={[Symbol.hasInstance](){ %s return true; }}; 1 instanceof C",
    }
    return ({k: v % W for k, v in tramp.items()}, {k: v % W for k, v in reenter.items()})


DEATH = {
    "recursion-through-map": "function f(n) { return n === 0 ? 0 : [n].map(x => f(x - 1))[0] + 1; } f(20000)",
    "recursion-through-getter": "const o = { n: 20000, get g() { if (this.n-- <= 0) return 0; return this.g + 1; } }; o.g",
    "recursion-through-valueOf": "let n = 20000; const o = { valueOf() { return n-- <= 0 ? 0 : (o + 1); } }; o + 0",
    "recursion-through-sort": "function f(n) { return n === 0 ? 0 : [2, 1].sort((a, b) => { f(n - 1); return a - b; })[0]; } f(20000)",
    "json-stringify-deep": "let o = {}; let c = o; for (let i = 0; i < 200000; i++) { c.x = {}; c = c.x; } JSON.stringify(o).length",
    "cyclic-structuredClone": "const o = {}; o.self = o; structuredClone(o) === o",
    "cyclic-array-as-key": "const a = [1]; a[0] = a; Reflect.get({}, a)",
    "cyclic-array-flat": "const a = [1, [2]]; a[1][1] = a; a.flat(Infinity).length",
    "cyclic-proxy-get-receiver": "const p = new Proxy({}, { get(t, k, r) { return r[k]; } }); p.x",
    "array-huge-length": "new Array(4294967295).fill(1).length",
    "repeat-huge": "'x'.repeat(2 ** 33).length",
    "padStart-huge": "'x'.padStart(2 ** 33, 'ab').length",
    "array-from-huge": "Array.from({length: 2 ** 31}).length",
    "join-huge": "new Array(2 ** 28).join('abcdefgh').length",
    "length-set-huge": "const x = [1, 2, 3]; x.length = 2 ** 32 - 1; x.length",
    "length-set-infinity": "const x = [1, 2, 3]; x.length = Infinity; x.length",
}
ALIVE = {
    "deep-plain-recursion": ("function f(n) { return n === 0 ? 0 : 1 + f(n - 1); } f(20000)", "num:40d3880000000000"),
    "deep-method-recursion": ("const o = { f(n) { return n === 0 ? 0 : 1 + this.f(n - 1); } }; o.f(20000)", "num:40d3880000000000"),
    "deep-ctor-recursion": ("class C { constructor(n) { this.d = n === 0 ? 0 : 1 + new C(n - 1).d; } } new C(5000).d", "num:40b3880000000000"),
    "deep-async-recursion": ("async function f(n) { return n === 0 ? 0 : 1 + await f(n - 1); } await f(3000)", "num:40a7700000000000"),
    "mutual-recursion": ("function a(n) { return n === 0 ? 0 : 1 + b(n - 1); } function b(n) { return n === 0 ? 0 : 1 + a(n - 1); } a(20000)", "num:40d3880000000000"),
    "long-loop": ("let s = 0; for (let i = 0; i < 200000; i++) { s += 1; } s", "num:41086a0000000000"),
}


def run(chk):
    chk.assumptions = [
        "the model is the trampoline discipline only (one instruction per step, frames on the heap); which Rust functions re-enter the "
        "VM is a regenerated fact pinned by Expected/FactsC06.v",
        "native stack exhaustion and allocation failure are exhibited by the worker's exit status, not by the model",
    ]
    chk.prove(["theories/Lang/TrampolineProperties.vo"], ["theories/Lang/TrampolineProperties.v"], facts=["C06"])
    ok, out, chk.th = common.build_harness("debug")
    if not ok:
        chk.proof_breaks.append("harness does not build against /repo: " + out[-800:])
        return chk.finish()
    stats = {"programs": 0, "trampolined_checked": 0, "reentering_checked": 0, "deaths": 0}
    known_hit = set()
    if chk.replay:
        r = json.load(open(chk.replay))
        res = common.run_programs(chk.th, [("replay", "path=/m.ts", r["program"])], tag="c06r", mem_limit=6_000_000_000)
        v = res.get("replay", {})
        log(json.dumps({k: v.get(k) for k in ("status", "value", "max_work_per_step", "exit")}))
        if "probe" in r:
            if v.get("status") not in ("complete", "error", "steplimit"):
                chk.violation(r)
        elif v.get("max_work_per_step", 0) != 1 or (v.get("hooks") or {}).get("max_run_depth", 0) != 0:
            chk.violation(r)
        return chk.finish()
    sizes = (30, 700) if chk.tier == "quick" else (30, 700, 20000)
    progs = []
    for n in sizes:
        t, r = paths(n)
        for k, src in t.items():
            progs.append(("T:%s:%d" % (k, n), "path=/m.ts steps=50000000", src))
        for k, src in r.items():
            progs.append(("R:%s:%d" % (k, n), "path=/m.ts steps=50000000", src))
    res = common.run_programs(chk.th, progs, tag="c06a", timeout=1800)
    for name, _, src in progs:
        kind, path, n = name.split(":")
        v = res.get(name, {})
        stats["programs"] += 1
        w = v.get("max_work_per_step")
        d = (v.get("hooks") or {}).get("max_run_depth")
        if kind == "T":
            stats["trampolined_checked"] += 1
            if v.get("status") != "complete" or w != 1 or d != 0:
                if len(chk.violations) < 5:
                    chk.violation({"call_path": path, "loop_iterations": int(n), "program": src,
                                   "observed": {"status": v.get("status"), "instructions_in_one_step": w, "nested_run_loops": d,
                                                "class": v.get("class"), "message": v.get("message")},
                                   "what": "a call path the model treats as trampolined executed more than one instruction inside a single "
                                           "host-visible step (or nested a VM run loop): the host cannot interrupt it"})
        else:
            stats["reentering_checked"] += 1
            if v.get("status") == "complete" and w == 1 and d == 0:
                chk.stale_known.append("call path %s no longer re-enters the VM" % path)
            elif v.get("status") == "complete":
                known_hit.add("E1-native-reentry")
            else:
                chk.violation({"call_path": path, "program": src, "observed": {k: v.get(k) for k in ("status", "class", "message", "exit")},
                               "what": "program routed through a re-entering native did not complete"})
    # host-visible recursion depth: must complete, one instruction per step, whatever the depth
    aprogs = [("A:" + k, "path=/m.ts steps=100000000", src) for k, (src, exp) in ALIVE.items()]
    ares = common.run_programs(chk.th, aprogs, tag="c06b", timeout=1800)
    for name, _, src in aprogs:
        k = name[2:]
        v = ares.get(name, {})
        stats["programs"] += 1
        if not (v.get("status") == "complete" and v.get("value") == ALIVE[k][1] and v.get("max_work_per_step") == 1
                and (v.get("hooks") or {}).get("max_run_depth") == 0):
            chk.violation({"program": src, "expected": ALIVE[k][1],
                           "observed": {x: v.get(x) for x in ("status", "value", "class", "message", "exit", "max_work_per_step", "max_call_depth")},
                           "what": "deep script recursion / long loop must be driven one instruction per step without consuming native stack"})
    # stream H: re-entrant callbacks that mutate the object the native is working on
    hprogs = [("H:" + k, "path=/m.ts steps=5000000", src) for k, src in HOSTILE.items()]
    hres = common.run_programs(chk.th, hprogs, tag="c06h", timeout=900, per_program_timeout=120, mem_limit=6_000_000_000)
    stats["hostile"] = 0
    for name, _, src in hprogs:
        v = hres.get(name, {})
        stats["programs"] += 1
        stats["hostile"] += 1
        if v.get("status") not in ("complete", "error", "steplimit"):
            chk.violation({"probe": name[2:], "program": src,
                           "observed": {x: v.get(x) for x in ("status", "class", "message", "exit")},
                           "what": "a callback that mutates the object its calling native is working on took the host down "
                                   "(panic or process death) instead of producing a value or a catchable exception"})
    # stream X: conversion-edge arguments in every size/index/count position; the host must survive
    xprogs = [("X:" + k, "path=/m.ts steps=200000000", src) for k, src in c06_extreme.programs(chk.tier)]
    xres = common.run_programs(chk.th, xprogs, tag="c06x", timeout=900, per_program_timeout=120, mem_limit=6_000_000_000)
    stats["extreme"] = 0
    for name, _, src in xprogs:
        v = xres.get(name, {})
        stats["programs"] += 1
        stats["extreme"] += 1
        if v.get("status") not in ("complete", "error", "steplimit"):
            chk.violation({"probe": name[2:], "program": src,
                           "observed": {x: v.get(x) for x in ("status", "class", "message", "exit")},
                           "what": "an argument at the edge of a numeric conversion (infinity, NaN, 2**31, 2**53, 1e21) took the host "
                                   "down (arithmetic overflow or capacity panic) instead of producing a value or a catchable exception"})
    # stream W: every built-in function applied to receivers and arguments of the wrong kind
    wprogs = [("W:" + k, "path=/m.ts steps=50000000", src) for k, src in c06_receivers.programs()]
    wres = common.run_programs(chk.th, wprogs, tag="c06w", timeout=1800, per_program_timeout=120, mem_limit=6_000_000_000)
    stats["receivers"] = 0
    for name, _, src in wprogs:
        v = wres.get(name, {})
        stats["programs"] += 1
        stats["receivers"] += 1
        if v.get("status") not in ("complete", "error", "steplimit"):
            chk.violation({"probe": name[2:], "program": src,
                           "observed": {x: v.get(x) for x in ("status", "class", "message", "exit")},
                           "what": "a built-in applied to a receiver or argument of the wrong kind took the host down instead of "
                                   "producing a value or a catchable exception"})
    # stream Q: protocol abuse (JSON hooks, generator / iterator / thenable protocols, descriptors, classes, proxies)
    qprogs = [("Q:" + k, "path=/m.ts steps=50000000", src) for k, src in c06_protocol.programs()]
    qres = common.run_programs(chk.th, qprogs, tag="c06q", timeout=1800, per_program_timeout=300, mem_limit=6_000_000_000)
    stats["protocol"] = 0
    for name, _, src in qprogs:
        v = qres.get(name, {})
        stats["programs"] += 1
        stats["protocol"] += 1
        if v.get("status") not in ("complete", "error", "steplimit"):
            chk.violation({"probe": name[2:], "program": src,
                           "observed": {x: v.get(x) for x in ("status", "class", "message", "exit")},
                           "what": "a program abusing an iteration / promise / JSON / proxy protocol took the host down or ran inside one "
                                   "native call until the worker was killed (the step budget could not interrupt it)"})
    # what the model only locates: process deaths through re-entry and unchecked allocation sizes
    dprogs = [("D:" + k, "path=/m.ts steps=200000000", src) for k, src in DEATH.items()]
    dres = common.run_programs(chk.th, dprogs, tag="c06c", timeout=900, per_program_timeout=300, mem_limit=6_000_000_000)
    deaths = {}
    for name, _, src in dprogs:
        k = name[2:]
        v = dres.get(name, {})
        stats["programs"] += 1
        st = v.get("status")
        if st in ("died", "panic"):
            stats["deaths"] += 1
            deaths[k] = v.get("exit", st)
            known_hit.add("E2-native-stack-overflow" if k.startswith(("recursion", "json", "cyclic")) else "E3-unchecked-allocation-size")
        elif st == "error" and v.get("class") in ("RangeError", "InternalError", "TypeError"):
            chk.stale_known.append("%s now surfaces as a catchable %s" % (k, v.get("class")))
        elif st in ("complete", "steplimit"):
            chk.stale_known.append("%s completed (%s)" % (k, st))
        else:
            chk.violation({"program": src, "observed": {x: v.get(x) for x in ("status", "class", "message", "exit")},
                           "what": "unexpected outcome for a resource-exhaustion probe"})
    for e in chk.known:
        if e["class"] in known_hit:
            chk.known_finding(e)
        else:
            chk.stale_known.append("%s did not reproduce" % e["class"])
    for kc in known_hit:
        if not any(e["class"] == kc for e in chk.known):
            chk.violation({"what": "class %s observed but not listed" % kc, "deaths": deaths})
    chk.samples.append({"call_path": "bound", "program": paths(30)[0]["bound"]})
    chk.coverage.update({
        "evaluations": stats["programs"], "distinct_nontrivial": stats["programs"],
        "rule": "%d trampolined and %d re-entering call paths x loop sizes %s, deep-recursion and long-loop programs, resource-exhaustion probes "
                "in a memory-limited worker; hook counters compared with the model's prediction" % (
                    len(paths(1)[0]), len(paths(1)[1]), list(sizes)),
        "hostile_callback_programs": stats.get("hostile", 0),
        "extreme_argument_programs": stats.get("extreme", 0),
        "wrong_receiver_programs": stats.get("receivers", 0),
        "protocol_abuse_programs": stats.get("protocol", 0),
        "trampolined_paths_checked": stats["trampolined_checked"], "reentering_paths_checked": stats["reentering_checked"],
        "worker_deaths_observed": deaths,
    })
    return chk.finish()
