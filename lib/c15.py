"""C15 — numbers convert to and from text and integers exactly as specified.
Proof: coq/theories/Num/Properties.v (ToInt32/ToUint32 = the ES modular
definitions for every integer; the Number::toString layout denotes exactly
digits*10^e and switches notation where ES prescribes, for all digit strings
and exponents). Tie: tsrun::value::{number_to_string,to_int32,to_uint32,
string_to_number} vs the model evaluated inside Coq (cases.v, vm_compute) on
structured families of bit patterns, with Rust's `{:e}` as the digit oracle;
node 20 validates the oracle and is the reference for the in-program and
formatting-method streams."""
import json
import os
import struct
import subprocess
from fractions import Fraction

import common
from common import log

PID = "C15"


def f2b(x):
    return struct.unpack("<Q", struct.pack("<d", x))[0]


def b2f(b):
    return struct.unpack("<d", struct.pack("<Q", b & 0xFFFFFFFFFFFFFFFF))[0]


def families(rng, tier):
    bits = {}

    def add(fam, b):
        b &= 0xFFFFFFFFFFFFFFFF
        e = (b >> 52) & 0x7FF
        bits.setdefault(b, fam)
        bits.setdefault(b ^ (1 << 63), fam + "-neg")

    for e in range(0, 2047, 1 if tier == "thorough" else 5):
        for m in (0, 1, (1 << 51), (1 << 52) - 1):
            add("exponent x boundary mantissa", (e << 52) | m)
    for k in range(0, 52):
        add("subnormal", 1 << k)
        add("subnormal", (1 << k) - 1 if k else 0)
    for p in range(-1074, 1024, 1 if tier == "thorough" else 3):
        b = f2b(2.0 ** p) if p > -1075 else 0
        for d in (-1, 0, 1):
            add("power of two +-1ulp", b + d)
    for p in range(-323, 309):
        b = f2b(float("1e%d" % p))
        for d in (-2, -1, 0, 1, 2):
            add("power of ten +-2ulp", b + d)
    for base in (2 ** 31, 2 ** 32, 2 ** 53, 10 ** 21, 2 ** 63, 2 ** 64, 10 ** 6, 255, 65536):
        for d in range(-3, 4):
            for h in (0, 0.5):
                try:
                    add("integer boundary", f2b(float(base + d) + h))
                except OverflowError:
                    pass
    for k in range(0, 40):
        add("halves", f2b(k + 0.5))
        add("halves", f2b((k + 0.5) / 10.0))
        add("halves", f2b((k * 10 + 5) / 1000.0))
    for s in ("0.1", "0.2", "0.3", "1.005", "1.45", "8.345", "123.456", "1e-7", "1.5e-7", "0.000001", "0.0000015",
              "123456789012345680000", "1e21", "1.2e21", "4.35", "0.000035", "1e23", "9.5e-5", "5e-324", "1.7976931348623157e308"):
        add("classic decimals", f2b(float(s)))
    add("classic decimals", 0)
    n_rand = 3000 if tier == "quick" else 200000
    for _ in range(n_rand):
        add("uniform random bits", rng.next())
    for _ in range(n_rand // 3):
        # random doubles with moderate exponents (where notation switches live)
        e = 1023 + rng.below(160) - 80
        add("random moderate exponent", (e << 52) | (rng.next() & ((1 << 52) - 1)))
    out = [(b, fam) for b, fam in bits.items() if ((b >> 52) & 0x7FF) != 0x7FF or (b & ((1 << 52) - 1)) == 0 or b == 0x7FF8000000000000]
    return out


def sci_to_digits(sci):
    mant, exp = sci.split("e")
    return [int(c) for c in mant if c != "."], int(exp)


def coq_list(xs):
    return "[" + "; ".join(str(x) for x in xs) + "]"


def model_shard(args):
    idx, rows = args
    body = ["From Coq Require Import List String ZArith.", "From TsrunV Require Import Num.Model Base.Render.",
            "Import ListNotations.", "Local Open Scope Z_scope.",
            "Definition S (neg : bool) (ds : list Z) (e : Z) : string := number_to_string neg ds e.",
            "Definition I (t : Z) : string := String.append (string_of_Z (to_int32 t)) (String.append \" \" (string_of_Z (to_uint32 t))).",
            "Definition cases : list string := ["]
    items = []
    for kind, a, b, c in rows:
        if kind == "S":
            items.append("S %s %s (%d)" % ("true" if a else "false", coq_list(b), c))
        else:
            items.append("I (%d)" % a)
    body.append(";\n".join(items))
    body.append("].")
    body.append("Eval vm_compute in (lines cases).")
    lines, raw = common.run_cases_v("c15_%d" % idx, "\n".join(body), timeout=900)
    return lines, raw


def node_eval(prog, tag):
    d = os.path.join(common.OUT, PID)
    os.makedirs(d, exist_ok=True)
    p = os.path.join(d, tag + ".js")
    open(p, "w").write(prog)
    try:
        r = subprocess.run(["node", os.path.join(common.ROOT, "tools", "node_eval.js"), p], capture_output=True, text=True, timeout=300)
        os.remove(p)
        return json.loads(r.stdout)
    except Exception as ex:  # node missing or died: the reference is unavailable, not a violation
        return {"status": "unavailable", "message": str(ex)}


OPS_A = ["String(x)", "x.toString()", "(x|0)", "(x>>>0)", "(~x)", "(x<<3)", "(x<<31)", "(x>>1)", "(x>>>1)", "(x>>>31)",
         "(x&65535)", "(x^-1)", "(1<<x)", "(-9>>x)"]


def program_a(reprs):
    return ("const xs = %s.split(' '); const out = [];\n"
            "for (const s of xs) { const x = Number(s); out.push([%s].join('|')); }\nout.join('\\n')"
            % (json.dumps(" ".join(reprs)), ", ".join(OPS_A)))


FMT = [("toFixed", [0, 1, 2, 5, 10, 20]), ("toPrecision", [1, 2, 5, 15, 21]), ("toExponential", [0, 1, 5, 20]),
       ("toString", [2, 8, 16, 36, 7])]


def program_b(reprs):
    calls = []
    for m, args in FMT:
        for a in args:
            calls.append("(function(){try{return x.%s(%d)}catch(e){return '!'+e.name}})()" % (m, a))
    return ("const xs = %s.split(' '); const out = [];\n"
            "for (const s of xs) { const x = Number(s); out.push([%s].join('|')); }\nout.join('\\n')"
            % (json.dumps(" ".join(reprs)), ", ".join(calls)))


def same_shortest(a, b):
    """Two decimal strings are both 'the shortest string that reads back to the same double in the
    prescribed notation' when they have the same shape and length and read back to the same double
    (the reference engine and Rust break an exact tie between two shortest candidates differently)."""
    try:
        if len(a) != len(b) or float(a) != float(b):
            return False
    except ValueError:
        return False
    shape = lambda s: "".join("d" if c.isdigit() else c for c in s)
    return shape(a) == shape(b)


def to_radix(n, r):
    digs = "0123456789abcdefghijklmnopqrstuvwxyz"
    if n == 0:
        return "0"
    neg, n = n < 0, abs(n)
    out = ""
    while n:
        out = digs[n % r] + out
        n //= r
    return ("-" if neg else "") + out


def fmt_class(x, method, arg):
    """known-finding class (spec side) of a formatting call, or None"""
    if x == 0 and str(x).startswith("-"):
        return "N3-negative-zero-sign"
    if x != x or x in (float("inf"), float("-inf")):
        return None
    fx = Fraction(x)
    if method == "toString":
        if fx.denominator != 1:
            return "N4-radix-fraction"
        if abs(fx) >= 2 ** 63:
            return "N6-radix-large-integer"
        return None
    if method == "toFixed":
        if abs(fx) >= 10 ** 21:
            return "N2-toFixed-above-1e21"
        sc = abs(fx) * 10 ** arg
        if sc - int(sc) == Fraction(1, 2):
            return "N1-ties-to-even"
        return None
    # toPrecision / toExponential: tie at the (arg)-th significant digit
    if fx == 0:
        return None
    digits = arg if method == "toPrecision" else arg + 1
    a = abs(fx)
    e = 0
    while a >= 10:
        a /= 10
        e += 1
    while a < 1:
        a *= 10
        e -= 1
    sc = a * 10 ** (digits - 1)
    if sc - int(sc) == Fraction(1, 2):
        return "N1-ties-to-even"
    if method == "toPrecision" and e in (-5, -6):
        return "N8-toPrecision-switches-at-1e-6"
    if method == "toPrecision" and (e < -6 or e >= arg):
        return "N5-toPrecision-exponent-form"
    if digits > 17:
        return "N7-more-than-17-digits"
    return None


def run(chk):
    chk.assumptions = [
        "shortest round-trip digit generation is Rust core's `{:e}` (oracle, validated against node on every value)",
        "f64 `%` (fmod) and trunc are exact (IEEE), `as i64` of a value below 2^63 is exact",
        "toFixed/toPrecision/toExponential/toString(radix) are compared with node only (reference-only); their known "
        "deviation classes are listed in KNOWN_FINDINGS.json",
        "string_to_number is compared with node only (through Number(s) in the in-program stream)",
    ]
    chk.prove(["theories/Num/Properties.vo"], ["theories/Num/Properties.v"])
    ok, out, chk.th = common.build_harness("debug")
    if not ok:
        chk.proof_breaks.append("harness does not build against /repo: " + out[-800:])
        return chk.finish()
    rng = common.Rng(chk.seed, PID)
    stats = {"values": 0, "disagreements": 0, "node_lines": 0, "fmt_cells": 0, "fmt_known": 0}

    vals = families(rng, chk.tier)
    if chk.replay:
        r = json.load(open(chk.replay))
        vals = [(int(r["bits"], 16), "replay")]
    famcount = {}
    for b, fam in vals:
        famcount[fam.replace("-neg", "")] = famcount.get(fam.replace("-neg", ""), 0) + 1

    # ---- stream 1: direct API vs Coq model ---------------------------------
    d = os.path.join(common.OUT, PID)
    os.makedirs(d, exist_ok=True)
    cf, of = os.path.join(d, "num.in"), os.path.join(d, "num.out")
    finite = [(b, fam) for b, fam in vals if ((b >> 52) & 0x7FF) != 0x7FF]
    with open(cf, "w") as f:
        for b, _ in finite:
            f.write("S %016x\nI %016x\nU %016x\n" % (b, b, b))
    rc, out = common.sh([chk.th, "num", cf, of], timeout=900)
    if rc != 0:
        chk.violation({"what": "number conversion harness died rc=%s" % rc, "tail": out[-300:]})
        return chk.finish()
    lines = open(of).read().split("\n")
    os.remove(cf)
    os.remove(of)
    rows, impl = [], []
    for i, (b, fam) in enumerate(finite):
        s_line, i_line, u_line = lines[3 * i], lines[3 * i + 1], lines[3 * i + 2]
        x = b2f(b)
        impl_s, sci = s_line.rsplit("|", 1)
        t = int(x)  # exact truncation
        if x != 0:
            ds, e = sci_to_digits(sci)
            rows.append(("S", b >> 63 == 1, ds, e))
            impl.append((b, fam, "S", impl_s))
        rows.append(("I", t, None, None))
        impl.append((b, fam, "I", i_line + " " + u_line))
    per = 500
    keys = [(r[0], r[1], tuple(r[2]) if r[2] else None, r[3]) for r in rows]
    uniq = list(dict.fromkeys(keys))
    from concurrent.futures import ThreadPoolExecutor
    with ThreadPoolExecutor(max_workers=16) as ex:
        res = list(ex.map(model_shard, [(k, uniq[k:k + per]) for k in range(0, len(uniq), per)]))
    umodel = []
    for lines_k, raw in res:
        if lines_k is None:
            raise common.FrameworkError("coqc failed on a C15 cases file: " + raw[-600:])
        umodel.extend(lines_k)
    if len(umodel) != len(uniq):
        raise common.FrameworkError("C15 model produced %d results for %d cases" % (len(umodel), len(uniq)))
    table = dict(zip(uniq, umodel))
    model = [table[k] for k in keys]
    for (b, fam, kind, got), want in zip(impl, model):
        stats["values"] += 1
        if got != want:
            stats["disagreements"] += 1
            if stats["disagreements"] <= 4:
                x = b2f(b)
                chk.violation({"bits": "%016x" % b, "value": repr(x), "family": fam,
                               "operation": "number_to_string" if kind == "S" else "to_int32 to_uint32",
                               "implementation": got, "specified_by_model": want,
                               "what": "conversion differs from the proved model (shortest digits laid out as ES prescribes / modular ToInt32)"})
    chk.samples.append({"stream": "direct API", "bits": "%016x" % finite[len(finite) // 3][0],
                        "number_to_string": impl[len(impl) // 3][3]})

    # ---- stream 2: in-program vs node (also validates the digit oracle) ----
    reprs = [repr(b2f(b)) if ((b >> 52) & 0x7FF) != 0x7FF else ("NaN" if b & ((1 << 52) - 1) else ("-Infinity" if b >> 63 else "Infinity"))
             for b, _ in vals]
    step = 400
    sub = list(range(0, len(reprs), step))
    if chk.tier == "quick":
        sub = sub[::3]
    progs = [("a%d" % k, "", program_a(reprs[k:k + step])) for k in sub]
    tres = common.run_programs(chk.th, progs, tag="c15a", timeout=1800)
    node_ok = True
    for name, _, src in progs:
        k = int(name[1:])
        nres = node_eval(src, name)
        t = tres.get(name, {})
        if nres.get("status") != "complete":
            node_ok = False
            continue
        if t.get("status") != "complete":
            chk.violation({"what": "in-program conversion program did not complete", "observed": {x: t.get(x) for x in ("status", "class", "message")},
                           "values": reprs[k:k + 5]})
            continue
        tv, nv = t["value"][4:].split("\n"), nres["value"].split("\n")
        for j, (a, b_) in enumerate(zip(tv, nv)):
            stats["node_lines"] += 1
            if a != b_:
                pa, pb = a.split("|"), b_.split("|")
                diff = [(OPS_A[i], pa[i], pb[i]) for i in range(min(len(pa), len(pb), len(OPS_A)))
                        if pa[i] != pb[i] and not (i < 2 and same_shortest(pa[i], pb[i]))]
                if not diff:
                    stats["shortest_ties"] = stats.get("shortest_ties", 0) + 1
                    continue
                stats["disagreements"] += 1
                if stats["disagreements"] <= 4:
                    chk.violation({"value": reprs[k + j], "bits": "%016x" % vals[k + j][0], "differences_op_tsrun_node": diff[:6],
                                   "what": "in-program conversion differs from the reference engine"})
    # ---- stream 3: formatting methods, reference-only, classified into cells ----
    fvals = [v for v in vals if v[1].replace("-neg", "") in ("halves", "classic decimals", "integer boundary")]
    fvals += [(0, "zero"), (1 << 63, "zero")]
    fvals += [v for v in vals if v[1].startswith("uniform")][:150] + [v for v in vals if v[1].startswith("random moderate")][:300]
    freprs = [repr(b2f(b)) for b, _ in fvals if ((b >> 52) & 0x7FF) != 0x7FF]
    progs = [("b%d" % k, "", program_b(freprs[k:k + 150])) for k in range(0, len(freprs), 150)]
    tres = common.run_programs(chk.th, progs, tag="c15b", timeout=1800)
    known_hit = {}
    for name, _, src in progs:
        k = int(name[1:])
        nres = node_eval(src, name)
        t = tres.get(name, {})
        if nres.get("status") != "complete":
            node_ok = False
            continue
        if t.get("status") != "complete":
            chk.violation({"what": "formatting program did not complete", "observed": {x: t.get(x) for x in ("status", "class", "message")}})
            continue
        tv, nv = t["value"][4:].split("\n"), nres["value"].split("\n")
        cells = [(m, a) for m, args in FMT for a in args]
        for j, (a, b_) in enumerate(zip(tv, nv)):
            pa, pb = a.split("|"), b_.split("|")
            x = float(freprs[k + j])
            for (m, arg), u, v in zip(cells, pa, pb):
                stats["fmt_cells"] += 1
                if u == v:
                    continue
                if m == "toString" and x == int(x) and u == to_radix(int(x), arg):
                    # the reference engine approximates integers above 2^53 in radices that are not
                    # powers of two; the property asks for exact arithmetic, which tsrun matches here
                    stats["radix_exact"] = stats.get("radix_exact", 0) + 1
                    continue
                cls = fmt_class(x, m, arg)
                if cls and any(e["class"] == cls for e in chk.known):
                    stats["fmt_known"] += 1
                    known_hit.setdefault(cls, (freprs[k + j], m, arg, u, v))
                else:
                    stats["disagreements"] += 1
                    if stats["disagreements"] <= 4:
                        chk.violation({"value": freprs[k + j], "call": "%s(%d)" % (m, arg), "tsrun": u, "reference": v,
                                       "class_computed": cls, "what": "formatting method differs from the reference engine outside the known classes"})
    for e in chk.known:
        if e["class"] in known_hit:
            chk.known_finding(e)
        else:
            chk.stale_known.append("%s did not reproduce in this run" % e["class"])
    if not node_ok:
        chk.assumptions.append("node was unavailable for part of this run: reference comparison skipped there")
    chk.coverage.update({
        "evaluations": stats["values"] + stats["node_lines"] * len(OPS_A) + stats["fmt_cells"],
        "distinct_nontrivial": len(vals),
        "rule": "distinct double bit patterns from the structured families below plus PRNG-drawn patterns; each is converted by the "
                "direct API (compared with the Coq model by vm_compute), in-program (compared with node), and by the formatting methods",
        "families": famcount, "direct_api_comparisons": stats["values"], "in_program_lines_vs_node": stats["node_lines"],
        "formatting_cells_vs_node": stats["fmt_cells"], "formatting_cells_in_known_classes": stats["fmt_known"],
        "disagreements": stats["disagreements"],
    })
    return chk.finish()
