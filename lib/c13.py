"""C13 — the collector implements guard reachability exactly and memory-safely.
Proof: coq/theories/Gc/Properties.v (structural invariant on all histories,
mark = reachability, collect exactness, frame). Tie: extracted Gc.Model.step
vs the real tsrun::gc API op by op. Oracle: the abstract heap below (objects
are never freed; reachability from live guards)."""
import json
import os

import common
from common import log

PID = "C13"


# ---------------------------------------------------------------------------
# the specification side: an abstract heap in which nothing is ever reused
class Abstract:
    def __init__(self):
        self.objs = []       # {val, refs, dead}
        self.handles = []    # oid or None
        self.guards = []     # list of oids or None
        self.alive = True
        self.thr = 100
        self.net = 0
        self.live = 0
        self.slot_of = {}    # oid -> slot index reported by the implementation at allocation
        self.classes = set()
        self.tainted = False   # a payload access went through a stale handle: nothing further is specified

    def reach(self):
        seen = set()
        stack = [o for g in self.guards if g is not None for o in g]
        while stack:
            o = stack.pop()
            if o in seen or self.objs[o]["dead"]:
                continue
            seen.add(o)
            stack.extend(self.objs[o]["refs"])
        return seen

    def collect(self):
        r = self.reach()
        for i, o in enumerate(self.objs):
            if i not in r:
                o["dead"] = True
        self.live = len(r)
        self.net = 0

    def h(self, k):
        return self.handles[k] if 0 <= k < len(self.handles) else None

    def g(self, k):
        return self.guards[k] if 0 <= k < len(self.guards) else None

    def step(self, line, impl_out):
        """Returns (expected, comparable): expected observation per the
        property; `impl_out` is only used to learn slot names at allocation."""
        t = line.split(" ")
        op = t[0]
        a = int(t[1]) if len(t) > 1 else 0
        b = int(t[2]) if len(t) > 2 else 0
        used = []
        if op in ("GC", "GM", "UG"):
            used = [b]
        elif op in ("C", "D", "SV", "UL", "CR", "R"):
            used = [a]
        elif op == "L":
            used = [a, b]
        if op in ("GC", "GM", "UG") and self.g(a) is None:
            return "none"
        for k in used:
            if self.h(k) is None:
                return "none"
        stale = [k for k in used if self.objs[self.h(k)]["dead"]]
        if stale:
            # known-finding class 1. In the specification a handle to a collected object
            # denotes that (gone) object and nothing else: counts and roots of other
            # objects are unaffected by cloning, dropping, guarding or unguarding it.
            self.classes.add(1)
            if op == "D":
                self.handles[a] = None
                return "unit"
            if op == "C":
                self.handles.append(self.h(a))
                return "h %d ?" % (len(self.handles) - 1)
            if op == "GC":
                return "unit"
            if op == "GM":
                self.handles[b] = None
                return "unit"
            if op == "UG":
                return "b 0"
            if self.alive:
                self.tainted = True
                return "?"
        if op in ("SV", "L", "UL", "CR", "R") and not self.alive:
            self.classes.add(2)
            return "fault"
        if op == "CG":
            if not self.alive:
                return "none"
            self.guards.append([])
            return "g %d" % (len(self.guards) - 1)
        if op == "DG":
            if self.g(a) is None:
                return "none"
            self.guards[a] = None
            return "unit"
        if op == "A":
            if self.g(a) is None:
                return "none"
            if not self.alive:
                return "panic"
            self.net += 1
            if self.thr > 0 and self.net >= self.thr:
                self.collect()
            self.objs.append({"val": 0, "refs": [], "dead": False})
            oid = len(self.objs) - 1
            self.live += 1
            self.guards[a].append(oid)
            self.handles.append(oid)
            if impl_out and impl_out.startswith("h "):
                self.slot_of[oid] = impl_out.split(" ")[2]
            return "h %d %s" % (len(self.handles) - 1, self.slot_of.get(oid, "?"))
        if op == "GC":
            if self.alive:
                self.guards[a].append(self.h(b))
            return "unit"
        if op == "GM":
            if self.alive:
                self.guards[a].append(self.h(b))
            self.handles[b] = None
            return "unit"
        if op == "UG":
            o = self.h(b)
            if o in self.guards[a]:
                self.guards[a].remove(o)
                return "b 1"
            return "b 0"
        if op == "CL":
            if self.g(a) is None:
                return "none"
            self.guards[a] = []
            return "unit"
        if op == "C":
            self.handles.append(self.h(a))
            return "h %d %s" % (len(self.handles) - 1, self.slot_of.get(self.h(a), "?"))
        if op == "D":
            self.handles[a] = None
            return "unit"
        if op == "SV":
            self.objs[self.h(a)]["val"] = b
            return "unit"
        if op == "L":
            self.objs[self.h(a)]["refs"].append(self.h(b))
            return "unit"
        if op == "UL":
            r = self.objs[self.h(a)]["refs"]
            if b < len(r):
                del r[b]
                return "b 1"
            return "b 0"
        if op == "CR":
            self.objs[self.h(a)]["refs"] = []
            return "unit"
        if op == "R":
            o = self.objs[self.h(a)]
            return "o %d %d%s" % (o["val"], len(o["refs"]), "".join(" " + self.slot_of.get(x, "?") for x in o["refs"]))
        if op == "COL":
            if not self.alive:
                return "none"
            self.collect()
            return "unit"
        if op == "ST":
            if not self.alive:
                return "none"
            self.thr = a
            return "unit"
        if op == "STATS":
            return "s" if self.alive else "none"
        if op == "DH":
            if not self.alive:
                return "none"
            self.alive = False
            return "unit"
        return "?"


def split_obs(line):
    """'result | total pooled' -> (result, live or None)"""
    if " | " not in line:
        return line, None
    r, st = line.rsplit(" | ", 1)
    if st.strip() == "-":
        return r, None
    t, p = st.split(" ")
    return r, int(t) - int(p)


# ---------------------------------------------------------------------------
# generators
def gen_exhaustive(depth, max_guards=2, max_objs=3, max_handles=4):
    """All well-formed histories with <= depth operations (after the
    threshold prefix) over live guards/handles, ids canonical by creation."""
    out = []

    def rec(ops, ng, lg, nh, lh, nobj, alive, d):
        if ops:
            out.append(list(ops))
        if d == 0:
            return
        cands = []
        if ng < max_guards and alive:
            cands.append(("CG", None))
        for g in lg:
            cands.append(("DG %d" % g, None))
            if nobj < max_objs and nh < max_handles and alive:
                cands.append(("A %d" % g, None))
            cands.append(("CL %d" % g, None))
            for h in lh:
                cands.append(("GC %d %d" % (g, h), None))
                cands.append(("GM %d %d" % (g, h), None))
                cands.append(("UG %d %d" % (g, h), None))
        for h in lh:
            if nh < max_handles:
                cands.append(("C %d" % h, None))
            cands.append(("D %d" % h, None))
            if alive:
                cands.append(("UL %d 0" % h, None))
                cands.append(("CR %d" % h, None))
                for h2 in lh:
                    cands.append(("L %d %d" % (h, h2), None))
        if alive:
            cands.append(("COL", None))
            cands.append(("DH", None))
        for c, _ in cands:
            t = c.split(" ")
            ng2, lg2, nh2, lh2, nobj2, alive2 = ng, lg, nh, lh, nobj, alive
            extra = []
            if t[0] == "CG":
                lg2 = lg + [ng]
                ng2 = ng + 1
            elif t[0] == "DG":
                lg2 = [g for g in lg if g != int(t[1])]
            elif t[0] == "A":
                lh2 = lh + [nh]
                extra = ["SV %d %d" % (nh, nh + 1)]
                nh2, nobj2 = nh + 1, nobj + 1
            elif t[0] == "C":
                lh2 = lh + [nh]
                nh2 = nh + 1
            elif t[0] in ("D",):
                lh2 = [h for h in lh if h != int(t[1])]
            elif t[0] == "GM":
                lh2 = [h for h in lh if h != int(t[2])]
            elif t[0] == "DH":
                alive2 = False
            ops.append(c)
            ops.extend(extra)
            rec(ops, ng2, lg2, nh2, lh2, nobj2, alive2, d - 1)
            for _ in extra:
                ops.pop()
            ops.pop()

    rec([], 0, [], 0, [], 0, True, depth)
    return out


def finish_history(ops, nh):
    """append the observations: read every handle id, then stats"""
    return ops + ["R %d" % h for h in range(nh)] + ["STATS"]


def count_handles(ops):
    return sum(1 for o in ops if o.startswith("A ") or o.startswith("C "))


def gen_random(rng, n_ops, thr, stale_rate, max_objs):
    """Mostly-valid long histories: an Abstract heap is run alongside so that
    handles of collected objects are only picked with probability stale_rate/1000."""
    ab = Abstract()
    ops = []

    def emit(o):
        # the host discipline under which the property promises anything: no handle
        # outlives the collection that finds its object unreachable
        collects = o == "COL" or (o.startswith("A ") and ab.thr > 0 and ab.net + 1 >= ab.thr)
        if collects and ab.alive and rng.below(1000) >= stale_rate:
            r = ab.reach()
            for i, oid in enumerate(ab.handles):
                if oid is not None and oid not in r and not ab.objs[oid]["dead"]:
                    ops.append("D %d" % i)
                    ab.step("D %d" % i, None)
        ops.append(o)
        ab.step(o, None)
    emit("CG")
    emit("ST %d" % thr)
    for _ in range(n_ops):
        r = rng.below(100)
        lg = [i for i, g in enumerate(ab.guards) if g is not None]
        live = [i for i, o in enumerate(ab.handles) if o is not None]
        good = [i for i in live if not ab.objs[ab.handles[i]]["dead"]]
        stale = [i for i in live if ab.objs[ab.handles[i]]["dead"]]
        if stale and (rng.below(1000) < stale_rate):
            pool = stale
        else:
            pool = good
        if r < 4 and len(ab.guards) < 40 and ab.alive:
            emit("CG")
        elif r < 6 and len(lg) > 1:
            emit("DG %d" % rng.choice(lg))
        elif r < 36 and lg and len(ab.objs) < max_objs and ab.alive:
            emit("A %d" % rng.choice(lg))
            emit("SV %d %d" % (len(ab.handles) - 1, rng.below(1000) + 1))
        elif r < 56 and pool:
            emit("L %d %d" % (rng.choice(pool), rng.choice(pool)))
        elif r < 62 and pool:
            emit("UL %d %d" % (rng.choice(pool), rng.below(3)))
        elif r < 64 and pool:
            emit("CR %d" % rng.choice(pool))
        elif r < 72 and pool and lg:
            emit("UG %d %d" % (rng.choice(lg), rng.choice(pool)))
        elif r < 76 and pool and lg:
            emit("GC %d %d" % (rng.choice(lg), rng.choice(pool)))
        elif r < 78 and pool and lg:
            emit("GM %d %d" % (rng.choice(lg), rng.choice(pool)))
        elif r < 80 and lg:
            emit("CL %d" % rng.choice(lg))
        elif r < 84 and pool:
            emit("C %d" % rng.choice(pool))
        elif r < 91 and pool:
            emit("D %d" % rng.choice(pool))
        elif r < 94 and ab.alive:
            emit("COL")
        elif r < 97 and pool:
            emit("R %d" % rng.choice(pool))
        elif r < 98:
            emit("ST %d" % rng.choice([0, 1, 2, 3, 5, 7, 100]))
        else:
            emit("STATS")
    if rng.chance(1, 6) and ab.alive:
        emit("DH")
        live = [i for i, o in enumerate(ab.handles) if o is not None]
        for _ in range(6):
            if live:
                emit(rng.choice(["D %d", "C %d", "R %d", "UG 0 %d"]) % rng.choice(live))
    return ops


def gen_wide(rng, n_objs, thr):
    """one guard holding hundreds of roots, many of them several times (the VM's register
    guard looks like this); collections interleaved with single unguards of multiply-rooted
    objects. Handles are dropped right after allocation so the history stays clean."""
    ab = Abstract()
    ops = []

    def emit(o):
        ops.append(o)
        ab.step(o, None)
    emit("CG")
    emit("ST %d" % thr)
    keep = []
    for i in range(n_objs):
        emit("A 0")
        h = len(ab.handles) - 1
        emit("SV %d %d" % (h, 5000 + i))
        if keep and rng.chance(1, 3):
            emit("L %d %d" % (rng.choice(keep), h))
        if rng.chance(1, 4):
            emit("GC 0 %d" % h)          # rooted twice
        if rng.chance(1, 12):
            emit("GC 0 %d" % h)          # or three times
        if len(keep) < 60 and rng.chance(1, 8):
            keep.append(h)
        elif rng.chance(4, 5):
            emit("D %d" % h)
        else:
            keep.append(h)
    for _ in range(6):
        emit("COL")
        for h in rng.shuffle(keep)[:25]:
            if ab.handles[h] is not None:
                emit("UG 0 %d" % h)      # removes ONE of the entries
        emit("COL")
        for h in keep:
            if ab.handles[h] is not None and not ab.objs[ab.handles[h]]["dead"] and ab.handles[h] in ab.reach():
                emit("R %d" % h)
        # drop handles of objects that are about to become garbage
        r = ab.reach()
        for h in keep:
            if ab.handles[h] is not None and ab.handles[h] not in r:
                emit("D %d" % h)
    return ops


def gen_stale(rng, n):
    """histories built around a swept-then-reused slot with surviving handles"""
    out = []
    for _ in range(n):
        ops = ["CG", "ST %d" % rng.choice([0, 0, 1, 2])]
        k = 1 + rng.below(3)
        for i in range(k):
            ops += ["A 0", "SV %d %d" % (i, 10 + i)]
        nh = k
        for _ in range(rng.below(3)):
            ops.append("C %d" % rng.below(k))
            nh += 1
        for i in range(k):
            if rng.chance(2, 3):
                ops.append("UG 0 %d" % i)
        ops.append("COL")
        for _ in range(1 + rng.below(3)):
            ops += ["A 0", "SV %d %d" % (nh, 40 + nh)]
            nh += 1
        for _ in range(rng.below(8)):
            h = rng.below(nh)
            ops.append(rng.choice(["D %d", "D %d", "C %d", "R %d", "SV %d 5", "GC 0 %d", "UG 0 %d"]) % h)
            if ops[-1].startswith("C "):
                nh += 1
        out.append(ops)
    return out


# ---------------------------------------------------------------------------
def run_both(chk, histories, tag):
    d = os.path.join(common.OUT, PID)
    os.makedirs(d, exist_ok=True)
    cf = os.path.join(d, tag + ".ops")
    with open(cf, "w") as f:
        for ops in histories:
            f.write("NEW\n")
            f.write("\n".join(ops))
            f.write("\n")
    oi, om, og = (os.path.join(d, tag + x) for x in (".impl", ".model", ".ghost"))
    rc, out = common.sh([chk.th, "gc", cf, oi], timeout=3000)
    impl_err = None
    if rc != 0:
        impl_err = "implementation process died rc=%s %s" % (rc, out[-300:])
    rc, out = common.sh([chk.drv, cf, om, og], timeout=3000)
    if rc != 0:
        raise common.FrameworkError("gc model driver failed: " + out[-500:])
    ri = open(oi).read().split("\n") if os.path.exists(oi) else []
    rm = open(om).read().split("\n")
    rg = open(og).read().split("\n")
    for p in (cf, oi, om, og):
        if os.path.exists(p):
            os.remove(p)
    return ri, rm, rg, impl_err


def judge(chk, histories, ri, rm, rg, stats, stream):
    pos = 0
    for ops in histories:
        pos += 1  # NEW
        ab = Abstract()
        tie = None
        spec = None
        for k, op in enumerate(ops):
            li = ri[pos] if pos < len(ri) else "<missing>"
            lm = rm[pos]
            gh = rg[pos].split(" ")
            pos += 1
            oi, livei = split_obs(li)
            if "FUEL" in gh:
                raise common.FrameworkError("model marking fuel exhausted on %r" % ops[:k + 1])
            clean_before = not ab.classes
            exp = ab.step(op, oi)
            clean = not ab.classes
            stats["ops"] += 1
            if li != lm and tie is None:
                tie = (k, li, lm)
            if not clean:
                stats["ops_in_known_class"] += 1
                if clean_before:
                    stats["histories_entering_known_class"] += 1
                # inside a known class the model explains the implementation; where it does
                # not, and the specification still says something, that is a new violation
                if li != lm and not ab.tainted and "?" not in exp and exp not in ("s", "fault"):
                    om_ = split_obs(lm)[0]
                    if oi != exp and not (exp.startswith("h ") and oi.startswith("h ")):
                        spec = (k, "inside known class %s the implementation (%r) follows neither the model (%r) nor the "
                                   "specification (%r)" % (sorted(ab.classes), oi, om_, exp), lm)
                        pos += len(ops) - (k + 1)
                        break
                continue
            # specified observations on the prefix without stale handles / dangling derefs
            bad = None
            if exp != "s" and "?" not in exp and oi != exp:
                bad = "observation %r, specified %r" % (oi, exp)
            if bad is None and ab.alive and livei is not None and livei != ab.live:
                bad = "live objects %r, specified %r" % (livei, ab.live)
            # the stated-but-unproved accounting lemma, checked on the model's ghost counter
            if bad is None and len(gh) > 1 and gh[1] != "0":
                bad = "Gc::drop reset+pooled an object on a history without stale handles (model ghost counter)"
            if bad:
                spec = (k, bad, lm)
                pos += len(ops) - (k + 1)
                break
        if 2 in ab.classes:
            stats["k2"] += 1
        if spec or tie:
            stats["disagreements"] += 1
            if stats["disagreements"] > 3:
                continue
            if spec:
                chk.violation({"stream": stream, "history": ops[:spec[0] + 1], "what": spec[1],
                               "model_line": spec[2], "full_history": ops})
            else:
                chk.proof_breaks.append("correspondence Gc.Model.step vs tsrun::gc on %r: op #%d impl %r model %r"
                                        % (ops[:tie[0] + 1], tie[0], tie[1], tie[2]))


K1_WITNESS = ["CG", "ST 0", "A 0", "C 0", "UG 0 0", "COL", "A 0", "SV 2 42", "R 2", "D 0", "D 1", "R 2", "STATS"]


def check_known(chk):
    """Replays the witnesses of KNOWN_FINDINGS.json first."""
    ri, rm, rg, err = run_both(chk, [K1_WITNESS], "k1")
    if err:
        chk.violation({"what": err, "history": K1_WITNESS})
        return
    before = split_obs(ri[9])[0]
    after = split_obs(ri[12])[0]
    entry = next((e for e in chk.known if e["class"] == "K1-stale-handle-drop"), None)
    if before == "o 42 0" and after != "o 42 0":
        if entry:
            chk.known_finding(entry)
        else:
            chk.violation({"what": "guard-rooted object reset by dropping stale handles", "history": K1_WITNESS,
                           "observed": after, "specified": "o 42 0"})
    elif entry:
        chk.stale_known.append("K1-stale-handle-drop no longer reproduces (observed %r)" % after)
    if ri[1:14] != rm[1:14]:
        chk.proof_breaks.append("model and implementation differ on the K1 witness: %r vs %r" % (ri[1:14], rm[1:14]))


def run(chk):
    chk.assumptions = [
        "payload type = the {value, refs} object of the gc.rs unit tests; a Gc handle is modelled by its slot index",
        "the 256-slot chunking / 4x64-bit bitmap addressing is modelled as a flat index (mark bits per slot)",
        "dereferences after the heap was dropped are predicted (fault) but not executed by the correspondence",
        "stated but not proved: Gc::drop's count-reached-zero branch is unreachable on histories without stale handles "
        "(checked on every generated history through the model's ghost counter)",
    ]
    chk.prove(["theories/Gc/Properties.vo"], ["theories/Gc/Properties.v"])
    ok, out, chk.th = common.build_harness("debug")
    if not ok:
        chk.proof_breaks.append("harness does not build against /repo: " + out[-800:])
        return chk.finish()
    ok, out, chk.drv = common.build_ocaml("gc")
    if not ok:
        raise common.FrameworkError("ocaml gc model build failed: " + out[-800:])

    stats = {"ops": 0, "ops_in_known_class": 0, "histories_entering_known_class": 0, "disagreements": 0, "k2": 0}
    rng = common.Rng(chk.seed, PID)

    if chk.replay:
        r = json.load(open(chk.replay))
        h = r.get("full_history") or r["history"]
        ri, rm, rg, err = run_both(chk, [h], "replay")
        for a, b, c in zip(h, ri[1:], rm[1:]):
            log("%-12s impl: %-24s model: %s" % (a, b, c))
        judge(chk, [h], ri, rm, rg, stats, "replay")
        return chk.finish()

    check_known(chk)
    plan = []
    cp = os.path.join(common.CORPUS, PID, "histories.json")
    if os.path.exists(cp):
        plan.append(("corpus", [finish_history(h, count_handles(h)) for h in json.load(open(cp))]))
    depth = 5 if chk.tier == "quick" else 6
    ex = []
    for thr in (0, 1, 2):
        for ops in (gen_exhaustive(depth) if chk.tier == "quick" else gen_exhaustive(depth, 3, 4, 5)):
            ex.append(finish_history(["ST %d" % thr] + ops, count_handles(ops)))
    plan.append(("exhaustive: thresholds {0,1,2} x all histories of <=%d operations, %s" % (depth, "<=2 guards, <=3 objects, <=4 handles" if chk.tier == "quick" else "<=3 guards, <=4 objects, <=5 handles"), ex))
    n_rand = 60 if chk.tier == "quick" else 600
    rnd = []
    for i in range(n_rand):
        thr = [0, 1, 2, 3, 5, 7, 100][i % 7]
        big = (i % 10 == 0)
        n_ops = 2500 if big else 300 + rng.below(500)
        ops = gen_random(rng, n_ops, thr, 0 if i % 3 else 30, 1200 if big else 400)
        rnd.append(finish_history(ops, count_handles(ops)))
    plan.append(("random long histories (chunk and guard-pool boundaries crossed)", rnd))
    wide = []
    for n_objs in ([300, 530, 800] if chk.tier == "quick" else [200, 300, 515, 530, 800, 1040, 1300, 2100]):
        for thr in (0, 100):
            ops = gen_wide(rng, n_objs, thr)
            wide.append(finish_history(ops, 0))
    plan.append(("wide guards: hundreds of roots with duplicates, single unguards between collections", wide))
    st = gen_stale(rng, 400 if chk.tier == "quick" else 5000)
    plan.append(("stale-handle stream (malformed use after sweep and reuse)", [finish_history(h, count_handles(h)) for h in st]))

    streams = {}
    streams_h = {}
    total_h = 0
    for name, hs in plan:
        if not hs:
            continue
        ri, rm, rg, err = run_both(chk, hs, "s%d" % len(streams))
        if err:
            chk.violation({"stream": name, "what": err})
            continue
        judge(chk, hs, ri, rm, rg, stats, name)
        streams_h[name] = hs
        streams[name] = {"histories": len(hs), "operations": sum(len(h) for h in hs)}
        total_h += len(hs)
        chk.samples.append({"stream": name, "history": hs[len(hs) // 2][:40]})
    # ---- memcheck: handles and guards that outlive their heap (clone / drop / guard operations only; a
    # dereference after the heap is gone is known class K2 and is not executed by the harness) ----------------
    if not chk.replay:
        vg = [
            ["CG", "A 0", "C 0", "DH", "C 0", "C 1", "D 0", "D 1", "D 2", "D 3"],
            ["CG"] + ["A 0"] * 300 + ["DG 0", "DH"] + ["C %d" % i for i in range(0, 300, 7)] + ["D %d" % i for i in range(0, 343)],
            ["CG", "A 0", "A 0", "A 0", "L 0 1", "L 1 2", "L 2 0", "DH", "C 1", "D 0", "D 2", "D 1", "D 3"],
            ["CG", "CG", "A 0", "A 1", "GC 1 0", "DH", "C 0", "GC 0 1", "UG 1 0", "CL 0", "DG 0", "DG 1", "D 0", "D 1", "D 2"],
            ["CG", "A 0", "A 0", "D 0", "COL", "A 0", "DH", "C 1", "C 2", "D 1", "D 2", "D 3", "D 4", "DG 0"],
        ]
        for hs in [h for name, h in streams_h.items()][:3]:
            vg += [h for h in hs if "DH" in h][:12 if chk.tier == "quick" else 120]
        d = os.path.join(common.OUT, PID)
        cf, oi = os.path.join(d, "vg.ops"), os.path.join(d, "vg.impl")

        def memcheck(hlist):
            with open(cf, "w") as f:
                for ops in hlist:
                    f.write("NEW\n" + "\n".join(ops) + "\n")
            rc, out = common.sh(["valgrind", "-q", "--error-exitcode=97", "--leak-check=no", "--num-callers=10", chk.th, "gc", cf, oi], timeout=1800)
            for pth in (cf, oi):
                if os.path.exists(pth):
                    os.remove(pth)
            return rc, out
        rc, out = memcheck(vg)
        stats["memcheck_histories"] = len(vg)
        if rc == 127 or "valgrind: not found" in out or "No such file" in out[:200]:
            raise common.FrameworkError("valgrind is required for the C13 memcheck stream: " + out[-200:])
        if rc != 0:
            # find one history that is enough
            bad = vg
            while len(bad) > 1:
                half = bad[:len(bad) // 2]
                r1, o1 = memcheck(half)
                if r1 != 0:
                    bad, out = half, o1
                else:
                    bad = bad[len(bad) // 2:]
            r1, o1 = memcheck(bad)
            chk.violation({"stream": "memcheck", "history": bad[0], "what": "valgrind memcheck reports an invalid access (or the process died) on "
                           "a history whose handles / guards outlive the heap", "valgrind": (o1 if r1 != 0 else out)[-1500:]})
    if stats["k2"]:
        e = next((e for e in chk.known if e["class"] == "K2-deref-after-heap-drop"), None)
        if e:
            chk.known_finding(e)
        else:
            chk.violation({"what": "a dereference through a handle that outlives the heap reads freed memory",
                           "history": ["CG", "A 0", "DH", "R 0"]})
    chk.coverage.update({
        "evaluations": stats["ops"], "distinct_nontrivial": total_h,
        "rule": "histories are distinct operation sequences; every operation's result and the stats triple are compared "
                "model vs implementation, and vs the abstract heap on the prefix without stale handles",
        "exhaustive": True, "streams": streams, "operations_inside_known_classes": stats["ops_in_known_class"],
        "histories_with_deref_after_heap_drop": stats["k2"], "disagreements": stats["disagreements"],
    })
    return chk.finish()
