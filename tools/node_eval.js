// Reference engine: evaluates a program text read from a file and prints its
// completion value (must be a string) -- used to validate the specification
// side and as the oracle where a property names a reference engine.
const fs = require('fs');
const vm = require('vm');
const src = fs.readFileSync(process.argv[2], 'utf8');
let out;
try {
  out = { status: 'complete', value: String(vm.runInNewContext(src, { console: { log() {} } }, { timeout: 20000 })) };
} catch (e) {
  out = { status: 'error', class: (e && e.name) || 'Error', message: String(e && e.message) };
}
process.stdout.write(JSON.stringify(out) + '\n');
