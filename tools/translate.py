#!/usr/bin/env python3
"""Translator: regenerates coq/theories/Generated/Facts*.v from /repo's
current sources on every run. It is a tokenizer-level reader (no type
checking): it finds function bodies by brace matching and extracts tabular /
structural facts as Gallina string lists. The proofs in Expected/FactsAgree*.v
compare them with the pinned values by reflexivity, so a source change that
alters a fact breaks a proof obligation."""
import os
import re
import sys

REPO = os.environ.get("VERIF_REPO", "/repo")
ROOT = os.path.dirname(os.path.dirname(os.path.abspath(__file__)))
GEN = os.path.join(ROOT, "coq", "theories", "Generated")


def strip_comments(src):
    """remove // and /* */ comments and string/char literal contents (keeps newlines)"""
    out, i, n = [], 0, len(src)
    while i < n:
        c = src[i]
        if src.startswith("//", i):
            j = src.find("\n", i)
            i = n if j < 0 else j
        elif src.startswith("/*", i):
            j = src.find("*/", i + 2)
            j = n if j < 0 else j + 2
            out.append("\n" * src.count("\n", i, j))
            i = j
        elif c == '"':
            j = i + 1
            while j < n and src[j] != '"':
                j += 2 if src[j] == "\\" else 1
            out.append('""' + "\n" * src.count("\n", i, j))
            i = j + 1
        elif c == "r" and re.match(r'r#*"', src[i:i + 6]):
            m = re.match(r'r(#*)"', src[i:])
            end = '"' + m.group(1)
            j = src.find(end, i + len(m.group(0)))
            j = n if j < 0 else j + len(end)
            out.append('""' + "\n" * src.count("\n", i, j))
            i = j
        elif c == "'" and re.match(r"'(\\.|[^\\'])'", src[i:i + 4]):
            m = re.match(r"'(\\.|[^\\'])'", src[i:i + 4])
            out.append("' '")
            i += len(m.group(0))
        else:
            out.append(c)
            i += 1
    return "".join(out)


def functions(src):
    """yields (name, body_text, start_line) for every `fn name(...) {...}` (nested fns included separately)"""
    for m in re.finditer(r"\bfn\s+([A-Za-z_][A-Za-z0-9_]*)\s*(<[^>{]*>)?\s*\(", src):
        # find the opening brace of the body (skip the signature)
        i = m.end()
        depth = 1
        while i < len(src) and depth:
            depth += {"(": 1, ")": -1}.get(src[i], 0)
            i += 1
        j = i
        while j < len(src) and src[j] not in "{;":
            j += 1
        if j >= len(src) or src[j] == ";":
            continue
        k, depth = j + 1, 1
        while k < len(src) and depth:
            depth += {"{": 1, "}": -1}.get(src[k], 0)
            k += 1
        yield m.group(1), src[j:k], src.count("\n", 0, m.start()) + 1


def rust_files(sub="src", exclude=()):
    for d, _, fs in sorted(os.walk(os.path.join(REPO, sub))):
        for f in sorted(fs):
            if f.endswith(".rs"):
                p = os.path.join(d, f)
                rel = os.path.relpath(p, REPO)
                if any(rel.startswith(e) for e in exclude):
                    continue
                yield rel, strip_comments(open(p, errors="replace").read())


def cut_tests(src):
    """drop `#[cfg(test)] mod tests { ... }` blocks"""
    out = src
    for m in list(re.finditer(r"#\[cfg\(test\)\]\s*mod\s+\w+\s*\{", src))[::-1]:
        k, depth = m.end(), 1
        while k < len(out) and depth:
            depth += {"{": 1, "}": -1}.get(out[k], 0)
            k += 1
        out = out[:m.start()] + out[k:]
    return out


def struct_fields(src, name):
    m = re.search(r"\bstruct\s+%s\b[^{;]*\{" % name, src)
    if not m:
        return []
    k, depth = m.end(), 1
    while k < len(src) and depth:
        depth += {"{": 1, "}": -1}.get(src[k], 0)
        k += 1
    body = src[m.end():k - 1]
    body = re.sub(r"#\[[^\]]*\]", "", body)
    return re.findall(r"(?m)^\s*(?:pub(?:\([a-z]+\))?\s+)?([a-z_][a-z0-9_]*)\s*:", body)


def split_top(text):
    """split at commas that are not nested in (), [], {} or <>-free closures"""
    out, depth, cur = [], 0, []
    for c in text:
        if c in "([{":
            depth += 1
        elif c in ")]}":
            depth -= 1
        if c == "," and depth == 0:
            out.append("".join(cur))
            cur = []
        else:
            cur.append(c)
    if "".join(cur).strip():
        out.append("".join(cur))
    return out


ORIGIN = re.compile(r"\b(self|frame|state|saved)\s*\.\s*([a-z_][a-z0-9_]*)")
ROLE = {"self": "vm", "frame": "frame", "state": "state", "saved": "saved"}


def origin_of(expr, body, params, seen=()):
    m = ORIGIN.search(expr)
    if m:
        return "%s.%s" % (ROLE[m.group(1)], m.group(2))
    ident = re.match(r"\s*([a-z_][a-z0-9_]*)\b", expr)
    if ident and ident.group(1) not in seen:
        name = ident.group(1)
        lets = re.findall(r"\blet\s+(?:mut\s+)?%s\b[^=;]*=([^;]*);" % name, body)
        if lets:
            return origin_of(lets[-1], body, params, seen + (name,))
        if name in params:
            return "param.%s" % name
    return "fresh"


def literal_flow(body, lit, params):
    m = re.search(r"\b%s\s*\{" % lit, body)
    if not m:
        return []
    k, depth = m.end(), 1
    while k < len(body) and depth:
        depth += {"{": 1, "}": -1}.get(body[k], 0)
        k += 1
    out = []
    for part in split_top(body[m.end():k - 1]):
        part = part.strip()
        if not part:
            continue
        mm = re.match(r"([a-z_][a-z0-9_]*)\s*:(.*)$", part, re.S)
        if mm:
            field, expr = mm.group(1), mm.group(2)
        else:
            field, expr = part, part
        out.append("%s <- %s" % (field, origin_of(expr, body, params)))
    return out


def coq_list(name, items):
    body = "; ".join('"%s"' % x.replace('"', "'") for x in items)
    return "Definition %s : list string := [%s]." % (name, body)


def coq_flow(name, items):
    """ "field <- role.src" lines as (field, (role, src)) triples; "fresh" has role fresh and empty src """
    out = []
    for it in items:
        field, origin = [x.strip() for x in it.split("<-")]
        role, _, src = origin.partition(".")
        out.append('("%s", ("%s", "%s"))' % (field, role, src))
    return "Definition %s : list (string * (string * string)) := [%s]." % (name, "; ".join(out))


def facts():
    f = {}
    inter = [(rel, cut_tests(s)) for rel, s in rust_files("src", exclude=("src/wasm", "src/bin", "src/verif_hooks.rs"))]
    # ---- C06: where native code re-enters the VM ---------------------------------
    sites = []
    pat = re.compile(r"\.call_function\s*\(|call_function_with_new_target\s*\(|call_function_with_this\s*\(|\bvm\.run\s*\(|\.run\s*\(\s*(self|interp)\s*\)")
    for rel, s in inter:
        if not rel.startswith("src/interpreter") and rel != "src/api.rs":
            continue
        for name, body, _ in functions(s):
            inner = body
            # do not attribute a nested fn's calls to the enclosing fn twice: count direct text only
            n = len(pat.findall(inner))
            if n and name not in ("call_function", "call_function_with_new_target", "call_function_with_this"):
                sites.append("%s::%s" % (rel.replace("src/interpreter/", "").replace("src/", ""), name))
    f["reentry_sites"] = sorted(set(sites))
    # ---- C12: process-wide state in non-test code ----------------------------------
    glob = []
    gpat = re.compile(r"\bstatic\s+mut\b|\bstatic\s+[A-Z_]+\s*:|thread_local!|lazy_static!|\bOnceCell\b|\bOnceLock\b|\bAtomic(U|I|Bool|Ptr)\w*|\bRandomState\b|std::collections::HashMap|\bSystemTime\b|\bInstant::now\b|getrandom|thread_rng")
    for rel, s in inter:
        for ln, line in enumerate(s.splitlines(), 1):
            m = gpat.search(line)
            if m:
                glob.append("%s: %s" % (rel, m.group(0).strip()))
    f["global_state_decls"] = sorted(set(glob))
    hm = []
    for rel, s in inter:
        for name, body, _ in functions(s):
            for m in re.finditer(r"for\s+\(?[^)]*\)?\s+in\s+&?(?:mut\s+)?self\.(promise_ids|wait_graph\.promise_waiters|pending_module_sources|loaded_modules|order_responses)\b|self\.(promise_ids|pending_module_sources|loaded_modules|order_responses)\s*\.\s*(iter|keys|values|drain)\s*\(", body):
                hm.append("%s::%s iterates %s" % (rel.replace("src/", ""), name, m.group(1) or m.group(2)))
    f["hash_iteration_sites"] = sorted(set(hm))
    # ---- C14 / C11: environment-guard bookkeeping ------------------------------------
    eg = []
    for rel, s in inter:
        for name, body, _ in functions(s):
            pu, po = len(re.findall(r"\bpush_env_guard\s*\(", body)), len(re.findall(r"\bpop_env_guard\s*\(", body))
            if (pu or po) and name not in ("push_env_guard", "pop_env_guard"):
                eg.append("%s::%s push=%d pop=%d" % (rel.replace("src/", ""), name, pu, po))
    f["env_guard_sites"] = sorted(eg)
    # ---- C07: what a suspended VM carries -------------------------------------------
    vm_src = dict(inter).get("src/interpreter/bytecode_vm.rs", "")
    for st in ("BytecodeVM", "SavedVmState", "TrampolineFrame", "SavedTrampolineFrame"):
        f["fields_" + st] = struct_fields(vm_src, st)
    for fn in ("save_state", "from_saved_state"):
        body = next((b for n, b, _ in functions(vm_src) if n == fn), "")
        f["assigns_" + fn] = sorted(set(re.findall(r"(?m)^\s*([a-z_][a-z0-9_]*)\s*:", body)))
    # where every field of the saved / rebuilt structures comes from: "<field> <- <origin>"
    # origin = vm.<f> | frame.<f> (a caller's trampoline frame) | state.<f> | saved.<f> | param.<name> | fresh
    for fn, lits in (("save_state", ("SavedVmState", "SavedTrampolineFrame")),
                     ("from_saved_state", ("Self", "TrampolineFrame"))):
        body = next((b for n, b, _ in functions(vm_src) if n == fn), "")
        sig = re.search(r"fn\s+%s\s*\(([^)]*)\)" % fn, vm_src)
        params = re.findall(r"([a-z_][a-z0-9_]*)\s*:", sig.group(1)) if sig else []
        for lit in lits:
            f["flow_%s_%s" % (fn, lit)] = literal_flow(body, lit, params)
    # generators keep their own copy of the saved state: what they store at a yield and what they rebuild from
    mod_src = dict(inter).get("src/interpreter/mod.rs", "")
    gbody = next((b for n, b, _ in functions(mod_src) if n == "resume_bytecode_generator_body"), "")
    stores = sorted(set("%s <- state.%s" % (a, b) for a, b in
                        re.findall(r"state\.(saved_[a-z_]+)\s*=\s*yield_(?:star_)?result\.state\.([a-z_]+)\s*;", gbody)))
    f["flow_generator_store"] = stores
    gl = []
    m = re.search(r"SavedVmState\s*\{", gbody)
    if m:
        k, depth = m.end(), 1
        while k < len(gbody) and depth:
            depth += {"{": 1, "}": -1}.get(gbody[k], 0)
            k += 1
        for part in split_top(gbody[m.end():k - 1]):
            mm = re.match(r"\s*([a-z_][a-z0-9_]*)\s*(?::(.*))?$", part, re.S)
            if not mm:
                continue
            field, expr = mm.group(1), (mm.group(2) or mm.group(1))
            g = re.search(r"\b(saved_[a-z_]+)\b", expr)
            o = "gen.%s" % g.group(1) if g else ("gen.this_value" if re.search(r"\bthis_value\b", expr) else
                                                 "gen.args" if re.search(r"\bargs\b", expr) else
                                                 "gen.chunk" if re.search(r"\bchunk\b", expr) else "fresh")
            gl.append("%s <- %s" % (field, o))
    f["flow_generator_resume"] = gl
    # ---- C19: the entry points' shared prologue (parse, import requests, module env, bindings, compile, VM) -------
    def call_seq(body, stop=None):
        if stop and stop in body:
            body = body[:body.index(stop)]
        calls = re.findall(r"\b(?:self\.|Self::|Compiler::|Parser::|BytecodeVM::)([a-z_][a-z0-9_]*)\s*\(", body)
        skip = {"cheap_clone", "clone", "is_none", "is_some", "as_ref", "take", "begin_run"}
        return [c for c in calls if c not in skip]
    mod_fns = {n: b for n, b, _ in functions(mod_src)}
    f["prologue_eval"] = call_seq(mod_fns.get("eval", ""), "BytecodeVM::with_guard")
    f["prologue_prepare"] = call_seq(mod_fns.get("prepare", ""), "BytecodeVM::with_guard")
    f["prologue_resume"] = call_seq(mod_fns.get("setup_vm_from_program", ""), "BytecodeVM::with_guard")
    ctx_src = dict(rust_files("src/ffi")).get("src/ffi/context.rs", "")
    capi = []
    for n, b, _ in functions(ctx_src):
        if n in ("tsrun_prepare", "tsrun_step", "tsrun_run"):
            for m in sorted(set(re.findall(r"\.interp\s*\.\s*([a-z_]+)\s*\(", b))):
                capi.append("%s: %s" % (n, m))
    f["capi_entry_calls"] = sorted(capi)
    # ---- C03: every place where the compiler / interpreter mentions type-only syntax -----------------------
    tpat = re.compile(r"type_annotation|return_type|type_parameters|type_params|type_arguments|type_args|TypeAnnotation|"
                      r"Statement::TypeAlias|Statement::InterfaceDeclaration|Expression::TypeAssertion|Expression::NonNull|Satisfies")
    uses = []
    for rel, s in inter:
        if not (rel.startswith("src/compiler") or rel.startswith("src/interpreter")):
            continue
        for name, body, _ in functions(s):
            for ln in body.splitlines():
                m = tpat.search(ln)
                if m:
                    uses.append("%s::%s: %s" % (rel.replace("src/", ""), name, re.sub(r"\s+", " ", ln.strip())[:90]))
    f["type_syntax_uses"] = sorted(set(uses))
    # ---- C05: the parser's call graph: every recursive cycle must pass through a guarded entry point ----------
    par_src = dict(inter).get("src/parser.rs", "")
    pfuns = {}
    for n, b, _ in functions(par_src):
        pfuns.setdefault(n, "")
        pfuns[n] += b
    guarded = sorted(n for n, b in pfuns.items()
                     if re.search(r"self\.nested\(\s*(?:Self::|\|\w+\|\s*\w+\.)%s_unguarded" % re.escape(n), b))
    # token-consuming functions only: AST walkers (expression_to_pattern, check_duplicate_params) recurse on
    # trees the guarded parser has already bounded
    pfuns = {n: b for n, b in pfuns.items() if n.startswith(("parse_", "try_parse"))}
    names = sorted(pfuns)
    idx = {n: i for i, n in enumerate(names)}
    edges = set()
    for n, b in pfuns.items():
        for m in re.findall(r"\b(?:self\s*\.\s*|Self::)([a-z_][a-z0-9_]*)\s*(?:\(|\))", b) + re.findall(r"Self::([a-z_][a-z0-9_]*)\b", b):
            if m in idx and m != n + "_unguarded" or (m in idx and m == n + "_unguarded"):
                edges.add((n, m))
    # rank: longest path in the graph without the guarded nodes (must be acyclic there)
    un = [n for n in names if n not in guarded]
    succ = {n: sorted(m for (a, m) in edges if a == n and m not in guarded) for n in un}
    rank, state, cyc = {}, {}, []

    def visit(n, stack):
        if state.get(n) == 2:
            return rank[n]
        if state.get(n) == 1:
            cyc.append(" -> ".join(stack[stack.index(n):] + [n]))
            return 0
        state[n] = 1
        r = 0
        for m in succ[n]:
            r = max(r, 1 + visit(m, stack + [n]))
        state[n] = 2
        rank[n] = r
        return r
    import sys as _sys
    _sys.setrecursionlimit(10000)
    for n in un:
        visit(n, [])
    f["parser_guarded"] = guarded
    f["parser_unguarded_cycles"] = sorted(set(cyc))
    m_ = re.search(r"const\s+MAX_NESTING\s*:\s*usize\s*=\s*([0-9_]+)", par_src)
    f["parser_limits"] = ["MAX_NESTING=%s" % (m_.group(1) if m_ else "?"), "functions=%d" % len(names), "max_rank=%d" % (max(rank.values()) if rank else 0)]
    f["_parser_graph"] = (names, guarded, sorted(edges), rank)
    # loops of the parser that wrap what they have built so far into a new node (`x = Ctor(.. x ..)`): each
    # iteration adds a level to the tree without recursing, so each must account for it with self.link()
    wrapping, unlinked = [], []
    for n, b, _ in functions(par_src):
        for m in re.finditer(r"\b(loop\s*|while\b[^{;]*)\{", b):
            depth, j = 1, m.end()
            while j < len(b) and depth:
                depth += {"{": 1, "}": -1}.get(b[j], 0)
                j += 1
            block = b[m.end():j]
            wraps = False
            for var in set(re.findall(r"(?:Rc|Box)::new\(\s*(\w+)\s*\)", block)):
                if re.search(r"(?<![\w.])%s\s*=[^=>]" % re.escape(var), block) and not re.search(r"\blet\s+(?:mut\s+)?%s\b" % re.escape(var), block):
                    wraps = True
                    break
            if wraps:
                key = "%s@%s" % (n, re.sub(r"\s+", " ", m.group(0))[:40])
                # an outer loop that merely contains an instrumented inner loop is described by the inner one
                inner_first = block.find("self.link()")
                wrapping.append(key)
                if inner_first < 0:
                    unlinked.append(key)
    f["parser_wrapping_loops"] = ["count=%d" % len(wrapping)]
    f["parser_wrapping_loops_without_link"] = sorted(set(unlinked))
    # ---- C01: the Pratt table -----------------------------------------------------------
    par = dict(inter).get("src/parser.rs", "")
    body = next((b for n, b, _ in functions(par) if n == "current_binary_op"), "")
    f["binop_table"] = ["%s %s %s" % (tok, op, prec) for tok, op, prec in
                        re.findall(r"TokenKind::(\w+)(?:\s+if[^=]*)?\s*=>\s*Some\(\(BinaryOp::(\w+),\s*(\d+),\s*\w+\)\)", body)]
    if not f["binop_table"]:
        f["binop_table"] = re.findall(r"TokenKind::(\w+)[^\n]*", body)[:60]
    # ---- constants ------------------------------------------------------------------------
    gc = dict(inter).get("src/gc.rs", "")
    consts = []
    for name in ("DEFAULT_GC_THRESHOLD", "CHUNK_CAPACITY"):
        m = re.search(r"const\s+%s\s*:\s*\w+\s*=\s*([0-9_]+)" % name, gc)
        consts.append("%s=%s" % (name, m.group(1) if m else "?"))
    m = re.search(r"guard_pool\.len\(\)\s*<\s*(\d+)", gc)
    consts.append("GUARD_POOL_MAX=%s" % (m.group(1) if m else "?"))
    bld = dict(inter).get("src/compiler/builder.rs", "")
    m = re.search(r"self\.next\s*==\s*(\d+)", bld)
    consts.append("REGISTER_LIMIT=%s" % (m.group(1) if m else "?"))
    f["constants"] = consts
    # ---- C17: exported C functions ------------------------------------------------------------
    ffi = []
    for rel, s in rust_files("src/ffi"):
        ffi += re.findall(r'pub\s+(?:unsafe\s+)?extern\s+""\s+fn\s+(\w+)', s)
    f["ffi_exports"] = sorted(set(ffi))
    # for every exported function: pointer parameters for which the body shows no NULL handling
    unchecked = []
    nparams = 0
    for rel, s in rust_files("src/ffi"):
        for m in re.finditer(r'pub\s+(?:unsafe\s+)?extern\s+""\s+fn\s+(\w+)\s*\(([^)]*)\)', s):
            name, params = m.group(1), m.group(2)
            body = next((b for n, b, _ in functions(s[m.start():]) if n == name), "")
            for pm in re.finditer(r"(\w+)\s*:\s*\*(?:mut|const)\s+", params):
                pn = pm.group(1)
                nparams += 1
                pats = [r"\b%s\s*\.\s*is_null\s*\(" % pn, r"\b%s\s*\.\s*as_ref\s*\(" % pn, r"\b%s\s*\.\s*as_mut\s*\(" % pn,
                        r"c_str_to_str\s*\(\s*%s\b" % pn, r"\(\s*%s\s*,\s*\w+\s*\)" % pn, r"from_raw_parts\w*\s*\(\s*%s\b" % pn]
                if not any(re.search(p_, body) for p_ in pats):
                    unchecked.append("%s(%s)" % (name, pn))
    f["ffi_unchecked_pointer_params"] = sorted(unchecked)
    f["ffi_pointer_param_count"] = ["%d" % nparams]
    return f


GROUPS = {
    "C06": ["reentry_sites"],
    "C12": ["global_state_decls", "hash_iteration_sites"],
    "C14": ["env_guard_sites"],
    "C07": ["fields_BytecodeVM", "fields_SavedVmState", "fields_TrampolineFrame", "fields_SavedTrampolineFrame",
            "assigns_save_state", "assigns_from_saved_state",
            "flow_save_state_SavedVmState", "flow_save_state_SavedTrampolineFrame",
            "flow_from_saved_state_Self", "flow_from_saved_state_TrampolineFrame",
            "flow_generator_store", "flow_generator_resume"],
    "C01": ["binop_table"],
    "C13": ["constants"],
    "C17": ["ffi_exports", "ffi_unchecked_pointer_params", "ffi_pointer_param_count"],
    "C03": ["type_syntax_uses"],
    "C05": ["parser_guarded", "parser_unguarded_cycles", "parser_limits", "parser_wrapping_loops", "parser_wrapping_loops_without_link"],
    "C19": ["prologue_eval", "prologue_prepare", "prologue_resume", "capi_entry_calls"],
}


def render(group, f):
    lines = ["(* GENERATED by tools/translate.py from %s -- do not edit *)" % REPO,
             "From Coq Require Import List String.", "Import ListNotations.", "Local Open Scope string_scope.", ""]
    if group == "C05":
        names, guarded, edges, rank = f["_parser_graph"]
        idx = {n: i for i, n in enumerate(names)}
        lines.append("(* the call graph of src/parser.rs: functions are numbered in alphabetical order *)")
        lines.append("Definition parser_function_count : nat := %d." % len(names))
        lines.append("Definition parser_guarded_ids : list nat := [%s]." % "; ".join(str(idx[g]) for g in guarded))
        lines.append("Definition parser_edges : list (nat * nat) := [%s]." % "; ".join("(%d, %d)" % (idx[a], idx[b]) for a, b in edges))
        lines.append("Definition parser_ranks : list nat := [%s]." % "; ".join(str(rank.get(n, 0)) for n in names))
    for k in GROUPS[group]:
        if k.startswith("flow_"):
            lines.append(coq_flow(k, f[k]))
        else:
            lines.append(coq_list(k, f[k]))
    return "\n".join(lines) + "\n"


def agree_file(group, f):
    lines = ["(* Regenerated facts agree with the pinned ones: decidable equality on finite data, by reflexivity. *)",
             "From Coq Require Import List String.", "From TsrunV Require Generated.Facts%s Expected.Facts%s." % (group, group), ""]
    for k in GROUPS[group]:
        lines.append("Lemma %s_agree : Generated.Facts%s.%s = Expected.Facts%s.%s.\nProof. reflexivity. Qed.\n" % (k, group, k, group, k))
    return "\n".join(lines)


def main():
    f = facts()
    os.makedirs(GEN, exist_ok=True)
    mode = sys.argv[1] if len(sys.argv) > 1 else "generate"
    if mode == "show":
        import json
        print(json.dumps({k: v for k, v in f.items() if not k.startswith("_")}, indent=1))
        return
    for g in GROUPS:
        text = render(g, f)
        target = os.path.join(GEN if mode == "generate" else os.path.join(ROOT, "coq", "theories", "Expected"), "Facts%s.v" % g)
        if mode == "pin":
            os.makedirs(os.path.dirname(target), exist_ok=True)
            text = text.replace("GENERATED by tools/translate.py", "PINNED copy of the facts the proofs were written against (tools/translate.py pin)")
        old = open(target).read() if os.path.exists(target) else None
        if old != text:
            open(target, "w").write(text)
        if mode == "pin":
            ap = os.path.join(ROOT, "coq", "theories", "Expected", "FactsAgree%s.v" % g)
            open(ap, "w").write(agree_file(g, f))


if __name__ == "__main__":
    main()
