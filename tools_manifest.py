#!/usr/bin/env python3
"""Regenerates MANIFEST.json from the table below (kept in one place so the
manifest stays valid while properties are added)."""
import json, os, subprocess
ROOT = os.path.dirname(os.path.abspath(__file__))
ALL = ["C%02d" % i for i in range(1, 21)]

CLAIMED = {
 "C18": dict(
   engine="Path",
   technique="Coq proof (rewrite-system normal form, split/join lemmas) + exhaustive/random correspondence of the extracted model against ModulePath::resolve",
   text="Proof: the Gallina model of ModulePath (Path/Model.v) is proved to compute the unique normal form of the '.', '..', empty-segment rewrite system, to return '/'+join of plain segments for every absolute importer, to be idempotent and to identify all spellings related by rewriting (Path/Properties.v, closed under the global context, unbounded in path length). The model is tied to the Rust code on every run by running the extracted model and the real ModulePath::resolve on the exhaustive alphabet enumeration, random long/non-ASCII paths and the corpus.",
   note="Trusted: Coq kernel; ExtrOcamlBasic extraction + 40-line OCaml driver; the Rust harness; byte-level modelling of UTF-8 strings ('/' is ASCII). The model is hand-written: equality with the code is established by correspondence on the enumerated/drawn inputs, not proved.",
   design_ref="DESIGN.md §5 C18"),
 "C13": dict(
   engine="Gc",
   technique="Coq proof (structural invariant over all histories, marking = guard reachability, collection exactness, frame lemma) + op-by-op correspondence of the extracted model with tsrun::gc, abstract-heap oracle",
   text="Proof: Gc/Model.v renders src/gc.rs operation by operation (alloc with collect-before-allocate, clone/drop with the count-reached-zero branch, guard/unguard with swap_remove, iterative mark, two-pass sweep, pool reuse, heap drop). Proved for every history, unbounded: the structural invariant (all indices in range, free list = pooled set, no duplicates: c13_structural_invariant), mark computes exactly reachability from live guards (c13_mark_is_reachability), a collection keeps exactly the reachable objects with contents and resets/pools the rest (c13_collect_exact, c13_live_objects_count), no other operation changes a live object it does not write unless Gc::drop's zero branch fires (c13_frame). The two known findings are refuted by kernel-evaluated witnesses. Partial: 'the zero branch never fires on histories without stale handles' is stated, not proved; it is checked on every generated history via the model's ghost counter.",
   note="Trusted: Coq kernel + vm_compute; ExtrOcamlBasic extraction + OCaml driver; Rust harness with the {value, refs} payload; the abstract-heap oracle in lib/c13.py. Marking uses explicit fuel (out-of-fuel excluded by the theorem statement and reported as a framework error by the correspondence). Chunk/bitmap addressing is abstracted to a flat slot index; actual addresses and unsafe pointer validity are not modelled (dereference after heap drop is predicted, not executed).",
   design_ref="DESIGN.md §5 C13"),
 "C10": dict(
   engine="Regs",
   technique="Coq proof (allocator no-alias invariant over all disciplined op sequences; size-independence of register windows for every n) + correspondence: real RegisterAllocator vs extracted model, real compiler windows vs model, self-checking sized programs",
   text="Proof: Regs/Alloc.v models RegisterAllocator (alloc/free/reserve_range/save/restore over u8) and the register window of sized constructs. Proved unbounded: on every disciplined operation sequence whatever is handed out is distinct, not in use and below max_used <= 255 (c10_alloc_no_alias); for EVERY size n a window is refused with a limit error or consists of n fresh consecutive registers, never a panic or a wrapped index (c10_window_size_independent); the pre-fix narrowing is refuted by witness (n = 256) and the cumulative limit (known finding F2) by witness. Tie on every run: random allocator histories against the real allocator, the real compiler's CreateArray/Call/Construct/TemplateConcat/TaggedTemplate windows against the model for dense sizes x contexts, and self-checking programs of 12 families (incl. parameters, object literals, switch, statements, constants, jumps) against closed forms in a worker process.",
   note="Trusted: Coq kernel; extraction + OCaml driver; Rust harness; Python generators/closed forms. Only the window pattern is modelled; the other families are tied by execution only. Known findings F2 (registers never released => cumulative limit) and F3 (constant pool cumulative) are reported as KNOWN-FINDING; release-profile wrap is modelled but only the debug harness runs in the quick tier.",
   design_ref="DESIGN.md §5 C10"),
 "C15": dict(
   engine="Num",
   technique="Coq proof (ToInt32/ToUint32 = ES modular definition for all integers; Number::toString layout preserves the value and picks the prescribed notation for all digit strings and exponents) + vm_compute correspondence with tsrun::value on structured double families; node 20 as reference",
   text="Proof: Num/Model.v mirrors value::to_int32/to_uint32 and value::layout_number_digits after fixes a62973b and d4b615a. Proved for every integer t: to_int32 t = ES ToInt32, to_uint32 t = t mod 2^32, range (c15_to_int32_wraps, c15_to_uint32_wraps, c15_to_int32_range); for every non-empty digit list and exponent the chosen notation denotes exactly digits*10^e and is the plain/decimal/0.000ddd/exponent form exactly in the ES ranges (c15_layout_preserves_value, c15_layout_notation); the pinned saturating cast is refuted by witness. Tie on every run: number_to_string, to_int32, to_uint32 on ~21000 structured and random bit patterns against the model evaluated inside Coq; the same values in-program (String, toString, | >>> ~ << >> & ^) against node; toFixed/toPrecision/toExponential/toString(radix) against node (reference-only) with deviations classified into known-finding cells by exact rational arithmetic. Partial: shortest-digit generation is Rust's {:e} (oracle validated against node; exact ties between two shortest candidates are accepted either way); string_to_number and the formatting methods are not modelled.",
   note="Trusted: Coq kernel + vm_compute; Rust core float formatting ({:e}) as digit oracle, fmod/trunc exactness; node 20; Python Fraction arithmetic for cell classification; Rust harness.",
   design_ref="DESIGN.md §5 C15"),
 "C16": dict(
   engine="Json",
   technique="Coq proof (document round trip by structural induction, member access reaches every member, key canonicalisation round trip, serialisation total on every value graph via a path-set invariant) + correspondence of tsrun's five JSON paths against the documents and the model",
   text="Proof: Json/Model.v mirrors json_to_js_value_with_guard (with canonical property keys), js_value_to_json_with_visited on trees and on heaps with identity (visited = objects on the current path). Proved for all documents without duplicate keys: to_json (to_js d) = d (c16_host_roundtrip); every member is reachable by script member access incl. integer-like keys (c16_script_sees_document); key_string (canon s) = s for every string (c16_key_roundtrip); for every heap and value, cyclic or not, serialisation terminates within heap-size fuel, so cycles yield the error and never a loop (c16_stringify_total); the pinned keying is refuted by witness. Tie on every run: generated documents (escapes, non-BMP, integer-like keys, boundary numbers, deep/wide extremes) through create_from_json -> script member access -> js_value_to_json, JSON.parse/JSON.stringify with nine indent arguments, api::get_property, under three GC thresholds; random value graphs with sharing and cycles against the specification, node-free (Python json as text oracle); the model is evaluated on the same documents/graphs inside Coq.",
   note="Trusted: Coq kernel + vm_compute; serde_json text<->tree (oracle); Python json module for reading results; Rust harness. Not modelled: number text formatting inside JSON (C15), toJSON/getters/replacer, top-level undefined.",
   design_ref="DESIGN.md §5 C16"),
 "C08": dict(
   engine="Host",
   technique="Coq proof (ledger invariant over all programs of the ledger-event language and all host histories: at-most-once hand-over, payload intact, fresh increasing ids; Suspended empties the queue and leaves work; answered orders resume) + trace correspondence of compiled TypeScript programs under scripted hosts with the extracted model; the property's statements evaluated on the implementation's trace",
   text="Proof: Host/Ledger.v mirrors order_syscall, cancel/getOrderId, fulfill_orders, step's resume logic and the mem::take of pending/cancelled on every Suspended. Proved unbounded over programs and host action sequences: reported ++ queued is an order-preserving duplicate-free sub-sequence of the orders created with strictly increasing ids (c08_orders_reported_once); every Suspended hands over the whole queue and leaves an outstanding order or a non-empty batch (c08_suspended_has_work); once the awaited order is answered the next step consumes the answer and progresses, an unhandled error answer surfaces as an error (c08_answered_order_resumes); known findings O1/O2 are refuted by witness. Tie: corpus + exhaustive programs (<=3/4 events) x 4 hosts + random programs (<=6 orders) x random hosts with subsets, batching, extra steps, unknown/duplicate ids and error answers, each compiled to TypeScript over tsrun:host and replayed on the real interpreter under three GC thresholds; full StepResult trace equality with the model.",
   note="Trusted: Coq kernel; extraction + OCaml driver; Rust harness (scripted host); the event-language-to-TypeScript compiler in lib/c08.py. Partial: promise combinators over host promises (all/race/any/allSettled) and the wait graph are not in the model.",
   design_ref="DESIGN.md §5 C08"),
 "C09": dict(
   engine="Host",
   technique="Coq proof (loader invariant for every graph, early-supply set, host action sequence and pending-map iteration order: bodies at most once and after their imports; entry after its imports; duplicate-free requests) + correspondence of generated TypeScript module DAGs under six supply schedules with the extracted model and the property's statements on the trace",
   text="Proof: Host/Modules.v mirrors prepare, setup_vm_from_program, the process_pending_modules fixed point, execute_pending_module and provide_module over abstract modules (log entry + resolved dependency list), with the FxHashMap iteration order as a parameter. Proved unbounded: NoDup of the load log and dependencies-first for every graph, every early-supply set, every action sequence and every permutation order (c09_bodies_once_deps_first); the entry starts only after all its imports ran (c09_entry_after_imports); request lists are duplicate-free (c09_requests_once). Tie: random DAGs of 2-8 real modules with named/default/namespace imports, re-exports, side-effect and duplicated imports in seven spellings per path, under all-at-once / reverse / shuffled / one-by-one / batched / duplicate+early supply scripts and three GC thresholds: NeedImports rounds (as sets) and load log vs the model; topological log, each body once, schedule-independent result incl. live bindings through bump(), and api::get_export vs the closed-form specification.",
   note="Trusted: Coq kernel; extraction + OCaml driver; Rust harness; the Python module generator and its closed-form expected values. Partial: module bodies are abstract in the model (live bindings and namespace objects are checked by correspondence only); cyclic graphs are out of scope.",
   design_ref="DESIGN.md §5 C09"),
 "C01": dict(
   engine="Lang",
   technique="Coq proof of mechanism M1 (the 23 binary and 6 unary operators on primitive operands equal their ECMAScript definitions, over an abstract IEEE signature) + three-way correspondence tsrun / Coq model (PrimFloat, vm_compute) / node on the operator cross product; probe matrix and generated programs vs node with a committed known-deviation list",
   text="Proof (partial): Lang/Ops.v renders execute_op's operators (after the seven C01 fixes) on undefined/null/boolean/number/string operands and, separately, the ECMAScript abstract operations (ToNumber, ToString, ToBoolean, IsStrictlyEqual, IsLooselyEqual, IsLessThan, Number::exponentiate, the Int32 operators, short-circuit and nullish selection); c01_binop_refines_es / c01_unop_refines_es prove them equal for every operator and every pair of primitive operands, for every double model satisfying four IEEE comparison laws. Tie: all 23+6 operators x 19x19 operand values evaluated by tsrun, by the model inside Coq and by node (three-way equality, no deviation accepted in this fragment). Reference-only part: ~3000 further probes (operators on objects, conversions, ~520 library entry point x argument-shape probes, 60 control-flow/class/generator snippets) and a typed-grammar program stream against node; the 115 probes and 5 program seeds that deviate on the pinned+fixed tree are listed in corpus/C01/known_deviations.json and reported as KNOWN-FINDING classes; any other deviation is a violation with the probe/program as replay.",
   note="Trusted: Coq kernel + vm_compute with primitive floats; node 20 as reference engine (also supplies the ToNumber/toString tables of the operand pool); Rust harness; Python generators. Not proved: anything involving objects, the library, statements, functions, classes, generators (reference comparison only). The program stream uses fixed seeds on purpose (see assumptions in the evidence).",
   design_ref="DESIGN.md §5 C01"),
 "C06": dict(
   engine="Lang",
   technique="Coq proof (trampoline discipline: one instruction per step, no native-stack growth for non-re-entering instructions, recursion of any depth costs heap frames only) + regenerated re-entry-site fact pinned by reflexivity + hook-instrumented runs of every call path and resource-exhaustion probes in a worker process",
   text="Proof (partial): Lang/Trampoline.v models Interpreter::step / setup_trampoline_call / restore_from_trampoline_frame; c06_step_is_one_instruction and c06_call_depth_is_host_visible hold for every program and state, c06_recursion_costs_no_native_stack for every depth n; the re-entry weak spot is refuted by witness. Translator tie: the set of Rust functions that call call_function*/vm.run is regenerated from src/interpreter on every run and must equal Expected/FactsC06.v (reflexivity). Behavioural tie: 22 trampolined and 33 re-entering call paths x loop sizes, measured with the cfg(tsrun_verif) counters: instructions per host-visible step and nesting of run loops must be 1 and 0 on trampolined paths; deep recursion (20000) and long loops must complete one instruction per step; ten exhaustion probes (recursion through natives, deep JSON, huge sizes) run in a memory-limited worker, their deaths are the known findings E2/E3.",
   note="Trusted: Coq kernel; tools/translate.py (regex/brace-matching reader of Rust sources); the instruction/run-depth hooks; Rust harness and worker isolation (prlimit). Not carried by the model: the native stack and the allocator.",
   design_ref="DESIGN.md §5 C06"),
 "C07": dict(
   engine="Suspend",
   technique="Coq proof over copy tables regenerated from save_state/from_saved_state by the translator (every state-holding field of the running frame and of every caller frame survives a suspension) + Coq proof of schedule independence on the ledger model of Interpreter::step + differential runs: host-suspending order() vs in-program synchronous stub over await-position templates, generated programs and host schedules; sync_result evaluated inside Coq",
   text="Proof: tools/translate.py reads, on every run, the field lists of BytecodeVM/SavedVmState/TrampolineFrame/SavedTrampolineFrame and where each field of the record literals in save_state and from_saved_state comes from. Suspend/Model.v gives these tables a meaning (records as total maps, an entry copies one field); c07_running_frame_survives and c07_caller_frames_survive prove, against the regenerated tables, that restore(save vm) agrees with vm on all 12 state-holding fields of the running frame (ip, chunk, registers, call_stack, try_stack, this_value, exception_value, saved_env_stack, arguments, new_target, current_constructor, pending_completion) and on all 16 of every caller frame, for every VM and any number of frames. c07_schedule_independent: on Host.Ledger (Interpreter::step's resume logic, tied by the C08 trace correspondence) any run that completes under any honest host schedule (extra steps, early/late/repeated/batched/reordered answers) has seen exactly the synchronous run's values; non-vacuity witnesses by vm_compute. c07_generator_yield_refuted (known finding Y1) and c07_prefix_refuted (the five fields lost before fix 66c9150). Tie/search on every run: 58 await-position templates x 6 (thorough 30) schedules, 150 (3000) generated programs x 3 schedules, 120 (480) ledger-event programs x 3 schedules against sync_result evaluated in Coq, 13 generator templates against node.",
   note="Trusted: Coq kernel + vm_compute; tools/translate.py (brace-matching reader; classifies a field initialiser by the first self./frame./state./saved. path it mentions); the meaning given to a table entry (clone/map/re-guard preserve the value); Rust harness auto-host; node 20 for the generator templates. Not in the model: Interpreter.env and the wait graph (which context resumes first) - covered by the behavioural streams only; promise combinators beyond all/allSettled templates.",
   design_ref="DESIGN.md §5 C07"),
 "C11": dict(
   engine="Runs",
   technique="Coq proof (run-bookkeeping invariant over all histories of runs, each an arbitrary event sequence ending by completing, failing or being abandoned) + correspondence of the model's bookkeeping at nesting paths with the hook summary at abandon points + differential observers after histories of dying runs vs a fresh interpreter",
   text="Proof: Runs/Model.v models Interpreter's run bookkeeping (scope chain, env_guards, call_stack, active VM, parked continuations, active_base) with begin_run / abort_active_execution / finalize_active_execution as in the current source (fixes fc19135, 2c5aaff). c11_every_run_starts_clean: for EVERY history of runs - each run an arbitrary sequence of enter/leave/suspend events over blocks, loop bodies, calls and finally bodies, i.e. a run may die at any point inside any nesting - every run starts from the scope chain, roots, trace stack and continuation set of a fresh interpreter (completing runs are required to be well bracketed). c11_failed_run_leaves_nothing: a failed run is clean as soon as the error is returned. c11_bookkeeping_at_point: guards/call-stack/scope counts at a program point are the sums over its nesting path. Witness history and the pre-fix behaviour (c11_prefix_refuted) by vm_compute. Tie on every run: 150 (1200) nesting paths x {script, module} abandoned at the innermost point, hook summary compared with at_point evaluated in Coq; 120 (1500) histories of 1-3 dying runs (throw, ReferenceError, TypeError, thrown object, abandon; nests incl. re-entering natives, generators, async; parse/compile errors, parked orders/promises, deep recursion) each followed by 7 observer programs compared (status, value, console, error class/message/stack, hook summary) with a fresh interpreter.",
   note="Trusted: Coq kernel + vm_compute; the verif_summary hook; Rust harness (th seq); Python generators. The model carries bookkeeping only; values and the heap are covered by the observers. Global effects a program makes on purpose (script-level declarations, globalThis) are outside the property.",
   design_ref="DESIGN.md §5 C11"),
 "C14": dict(
   engine="Runs",
   technique="Coq proof (live count after a collection = size of the guard-reachable set, for every heap of the Gc model; every statement of a structured language with break/continue/return/throw, loops, calls, generator resumptions and try/catch/finally leaves the env_guards depth it found) + correspondence of that language with the interpreter (outcome, trace, env_guards) + repeated-run heap measurements + regenerated push/pop-site facts",
   text="Proof: c14_live_after_collect_is_reachable_count (on Gc/Model.v, the model tied to src/gc.rs by the C13 correspondence): for every well-formed heap the number of live objects after collect equals the number of objects reachable from live guards - cycles, closures, settled promises do not matter. c14_every_exit_releases_its_roots / c14_program_leaves_no_roots (Runs/Exits.v, mirroring PushScope/PopScope, Break/Continue with scope counts, finally in the scope of its try, frame return and generator resume after fixes 49d9f87, 6615b90): by induction over fuel and statement structure, every statement, however control leaves it, restores the environment-guard depth it found; the pre-fix leaks (break out of a scoped block, return from inside a block, generator resume) are refuted by vm_compute witnesses. Tie on every run: 160 (1500) programs of the structured language rendered to TypeScript and run 6 times: outcome kind, console trace and env_guards compared with run_program evaluated in Coq, heap constant; 47 corpus programs x {script, module} + 40 (600) generated programs repeated 8 (16) times under GC thresholds {default, 1, 5}, incl. runs ending in uncaught errors: live objects after collect() constant after 2 warm-up runs; FactsAgreeC14 (push_env_guard/pop_env_guard sites).",
   note="Trusted: Coq kernel + vm_compute; C13's correspondence for the Gc model; the verif_summary hook and gc_stats; Rust harness; Python generators. Not modelled: values held in registers/pools (register_guard release is covered by the measurements only); a try statement nested directly inside a finally block is excluded from the generated structured programs (C01 known deviation L-Control).",
   design_ref="DESIGN.md §5 C14"),
 "C02": dict(
   engine="Gc",
   technique="Coq proof on the Gc model (a collection leaves every guard-reachable object in place with value and references; host reads through handles unchanged; reachability unchanged) + search over programs x collection schedules on the real interpreter with a stale-handle detector",
   text="Proof: c02_reachable_objects_survive, c02_reads_unchanged_by_collection, c02_reachability_unchanged on Gc/Model.v (tied to src/gc.rs by the C13 op-by-op correspondence), for every well-formed heap: no object reachable from a live guard is reset, pooled or altered by a collection, and what a handle to it reads is the same with or without the collection; the only way a value changes under the mutator is the model's named one, a handle to an object no guard reaches (refuted-by-witness theorem). Partial: that the INTERPRETER keeps everything it still uses guard-reachable (the guard-before-allocate discipline of every native and of the VM) is outside the model; it is decided by the search. Search on every run: 551 (950) programs - C14 corpus, C07 await templates with host orders, generator templates, C01 library probes, 64 detach-in-callback shapes x 3 element origins, generated programs - x 6 (9) collection schedules (disabled, thresholds 100/7/5/3/2/1, host collect() after every / every third step): outcome tuple identical to the collection-disabled run and the generation-stamp hook silent.",
   note="Trusted: Coq kernel; C13's correspondence for the Gc model; the generation-stamp hook in gc.rs (cfg tsrun_verif); Rust harness; Python generators. Six native defects found by the search were fixed (cebed6e).",
   design_ref="DESIGN.md §5 C02"),
}

NOT_YET = "not claimed yet in this revision: its model/theorem pair is not built; see DESIGN.md §5 and §8 (build order)"

def main():
    hooks = []
    try:
        out = subprocess.run("git -C /repo log --format=%h\\ %s", shell=True, capture_output=True, text=True).stdout
        hooks = [l.split()[0] for l in out.splitlines() if l.split(" ", 1)[1].startswith("verif-hook:")]
    except Exception:
        pass
    m = {
     "version": 1,
     "setup_cmd": "./vcheck setup",
     "hooks": {
       "guard": "tsrun_verif",
       "enable": "RUSTFLAGS=\"--cfg tsrun_verif\" (set by lib/common.py when it builds harness/ against /repo)",
       "baseline_off_cmd": "cd /repo && cargo test --workspace --no-fail-fast --offline",
       "source_commits": hooks,
       "add_only": True,
     },
     "engines": [],
     "checks": [],
     "not_applicable": [],
     "notes": "Technique family: machine-checked proof in Coq 8.16.1. Every check = (1) rebuild + re-check the property's theorems (audit for Admitted/Axiom, Print Assumptions allow-list), (2) rebuild the harness from /repo's working tree with --cfg tsrun_verif, (3) run the executable Coq model and the implementation on the same inputs, (4) verdict per DESIGN.md §4. Known findings: KNOWN_FINDINGS.json.",
    }
    engines = {}
    for pid in ALL:
        if pid in CLAIMED:
            c = CLAIMED[pid]
            engines.setdefault(c["engine"], []).append(pid)
            m["checks"].append({
              "property_id": pid,
              "quick_cmd": "./vcheck check %s --tier quick" % pid,
              "thorough_cmd": "./vcheck check %s --tier thorough" % pid,
              "evidence_file": "/verif/evidence/%s.json" % pid,
              "replay_cmd_template": "./vcheck check %s --replay {path}" % pid,
              "engine": c["engine"],
              "level_claimed": {"category": "proof", "text": c["text"], "design_ref": c["design_ref"]},
              "level_note": c["note"],
              "technique": c["technique"],
            })
        else:
            m["not_applicable"].append({"property_id": pid, "reason": NOT_YET})
    for e, ps in engines.items():
        m["engines"].append({"name": e, "path": "coq/theories/%s" % e, "serves_properties": ps,
                             "kind_free_text": "Gallina model + theorems; lib/%s.py correspondence" % ps[0].lower()})
    json.dump(m, open(os.path.join(ROOT, "MANIFEST.json"), "w"), indent=1)

main()
