(* Executable model of the order ledger of Interpreter (src/interpreter/mod.rs:
   order_syscall, cancel_order_syscall, get_order_id_syscall, fulfill_orders,
   step's resume logic, process_vm_result's mem::take of pending/cancelled).
   Programs are abstracted to the sequence of ledger-relevant events they
   perform; the host is a sequence of actions. No proofs in this file. *)
From Coq Require Import List Bool NArith ZArith.
Import ListNotations.
Local Open Scope N_scope.

Definition payload := Z.
Inductive resp := ROk (v : Z) | RErr.

(* program-side events *)
Inductive pev :=
| POrder (p : payload) (in_try : bool)   (* x = await order(p)  [inside try/catch?]: suspends at the call *)
| PIssue (p : payload)                   (* order(p) called from a native callback: a marker, no suspension *)
| PAwaitMarker (j : nat) (in_try : bool) (* await markers[j] *)
| PCancel (id : N)                       (* __cancelOrder__(id) *)
| PGetId.                                (* __getOrderId__() *)

(* what the program has seen so far *)
Inductive seen := SVal (v : Z) | SCaught | SId (n : N).

Record st := mkSt {
  next_id : N;
  pending : list (N * payload);      (* issued, not yet handed to the host; oldest first *)
  cancelled : list N;                (* cancelled, not yet handed to the host *)
  responses : list (N * resp);       (* order_responses: at most one entry per id *)
  susp : option (N * bool);          (* suspended_for_order: id, and whether a handler is open *)
  prog : list pev;                   (* remaining program; None of it runs while susp is Some *)
  markers : list N;
  log : list seen;
  running : bool;                    (* a VM (active or suspended) exists *)
  issued : list (N * payload)        (* ghost: every order ever created, in order *)
}.

Definition init (p : list pev) : st := mkSt 1 [] [] [] None p [] [] true [].

Inductive obs :=
| OSuspended (pend : list (N * payload)) (canc : list N)
| OComplete (l : list seen)
| OError
| ODone.

Inductive haction := HStep | HFulfil (rs : list (N * resp)).

Fixpoint remove_id {A} (id : N) (l : list (N * A)) : list (N * A) :=
  match l with
  | [] => []
  | (k, x) :: r => if k =? id then remove_id id r else (k, x) :: remove_id id r
  end.
Fixpoint lookup {A} (id : N) (l : list (N * A)) : option A :=
  match l with
  | [] => None
  | (k, x) :: r => if k =? id then Some x else lookup id r
  end.
(* FxHashMap::insert *)
Definition insert_resp (l : list (N * resp)) (kv : N * resp) : list (N * resp) :=
  kv :: remove_id (fst kv) l.

Definition set_susp_out (s : st) (sp : option (N * bool)) (pr : list pev) : st * obs :=
  (mkSt (next_id s) [] [] (responses s) sp pr (markers s) (log s) (running s) (issued s),
   OSuspended (pending s) (cancelled s)).

(* run the VM until it suspends or finishes; fuel = remaining program length *)
Fixpoint run (fuel : nat) (s : st) : st * obs :=
  match fuel with
  | O => (s, OError)
  | S f =>
      match prog s with
      | [] =>
          if negb (match pending s with [] => true | _ => false end) then
            (* VmResult::Complete while orders are still unreported: Suspended, the value is dropped *)
            let '(s', o) := set_susp_out s None [] in
            (mkSt (next_id s') (pending s') (cancelled s') (responses s') None [] (markers s') (log s') false (issued s'), o)
          else
            (mkSt (next_id s) [] (cancelled s) (responses s) None [] (markers s) (log s) false (issued s), OComplete (log s))
      | POrder p t :: r =>
          let id := next_id s in
          let s1 := mkSt (id + 1) (pending s ++ [(id, p)]) (cancelled s) (responses s) None r (markers s) (log s) true
                         (issued s ++ [(id, p)]) in
          set_susp_out s1 (Some (id, t)) r
      | PIssue p :: r =>
          let id := next_id s in
          run f (mkSt (id + 1) (pending s ++ [(id, p)]) (cancelled s) (responses s) None r (markers s ++ [id]) (log s) true
                      (issued s ++ [(id, p)]))
      | PAwaitMarker j t :: r =>
          match nth_error (markers s) j with
          | Some id => set_susp_out (mkSt (next_id s) (pending s) (cancelled s) (responses s) None r (markers s) (log s) true (issued s))
                                    (Some (id, t)) r
          | None => run f (mkSt (next_id s) (pending s) (cancelled s) (responses s) None r (markers s) (log s) true (issued s))
          end
      | PCancel id :: r =>
          run f (mkSt (next_id s) (remove_id id (pending s)) (cancelled s ++ [id]) (remove_id id (responses s)) None r
                      (markers s) (log s) true (issued s))
      | PGetId :: r =>
          run f (mkSt (next_id s + 1) (pending s) (cancelled s) (responses s) None r (markers s) (log s ++ [SId (next_id s)]) true (issued s))
      end
  end.

Definition hstep (s : st) (a : haction) : st * option obs :=
  match a with
  | HFulfil rs =>
      (mkSt (next_id s) (pending s) (cancelled s) (fold_left insert_resp rs (responses s)) (susp s) (prog s)
            (markers s) (log s) (running s) (issued s), None)
  | HStep =>
      if negb (running s) then (s, Some ODone) else
      match susp s with
      | Some (id, t) =>
          match lookup id (responses s) with
          | None => let '(s', o) := set_susp_out s (Some (id, t)) (prog s) in (s', Some o)
          | Some (ROk v) =>
              let s1 := mkSt (next_id s) (pending s) (cancelled s) (remove_id id (responses s)) None (prog s) (markers s)
                             (log s ++ [SVal v]) true (issued s) in
              let '(s', o) := run (S (length (prog s))) s1 in (s', Some o)
          | Some RErr =>
              if t then
                let s1 := mkSt (next_id s) (pending s) (cancelled s) (remove_id id (responses s)) None (prog s) (markers s)
                               (log s ++ [SCaught]) true (issued s) in
                let '(s', o) := run (S (length (prog s))) s1 in (s', Some o)
              else
                (mkSt (next_id s) (pending s) (cancelled s) (remove_id id (responses s)) None [] (markers s) (log s) false (issued s),
                 Some OError)
          end
      | None => let '(s', o) := run (S (length (prog s))) s in (s', Some o)
      end
  end.

Definition hrun (p : list pev) (acts : list haction) : st * list obs :=
  fold_left (fun acc a => let '(s, os) := acc in
                          let '(s', o) := hstep s a in
                          (s', match o with Some x => os ++ [x] | None => os end))
            acts (init p, []).

(* the ids handed to the host in Suspended.pending, in order *)
Fixpoint reported (os : list obs) : list (N * payload) :=
  match os with
  | [] => []
  | OSuspended p _ :: r => p ++ reported r
  | _ :: r => reported r
  end.
Fixpoint reported_cancelled (os : list obs) : list N :=
  match os with
  | [] => []
  | OSuspended _ c :: r => c ++ reported_cancelled r
  | _ :: r => reported_cancelled r
  end.
