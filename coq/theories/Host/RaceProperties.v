(* C08 -- property theorems only (mechanism M2: cancellations of a settled race). *)
From Coq Require Import NArith List Bool.
From TsrunV Require Import Host.Race Host.RaceProofs.
Import ListNotations.

(* For every list of racing promises (linked to an order or not, the same
   promise any number of times) and every winner: no cancellation is reported
   twice. *)
Theorem c08_race_cancellations_once :
  forall ids w rejected, NoDup (race_cancelled ids w rejected).
Proof. exact race_cancelled_nodup. Qed.
Print Assumptions c08_race_cancellations_once.

(* ... and the cancellations are exactly: the orders of the racing promises
   other than the winner's, plus the winner's own order when the host rejected
   its promise; in particular each names an order that was issued (its promise
   is in the race) and a winner that was fulfilled is never cancelled. *)
Theorem c08_race_cancels_exactly_the_losers :
  forall ids w rejected id,
    In id (race_cancelled ids w rejected) <->
    (In (Some id) ids /\ winner_id ids w <> Some id) \/ (rejected = true /\ winner_id ids w = Some id).
Proof. exact race_cancelled_spec. Qed.
Print Assumptions c08_race_cancels_exactly_the_losers.

(* non-vacuity: a timeout first, the same order twice, a rejected winner *)
Theorem c08_race_witness :
  race_cancelled [None; Some 1; Some 2; Some 2; Some 3]%N 1 false = [2; 3]%N /\
  race_cancelled [None; Some 1; Some 2; Some 2; Some 3]%N 2 true = [2; 1; 3]%N /\
  race_cancelled [Some 1; Some 1]%N 0 false = [].
Proof. vm_compute. repeat split. Qed.
Print Assumptions c08_race_witness.
