(* C08 -- property theorems only. *)
From Coq Require Import List Bool NArith ZArith Sorting.Sorted.
From TsrunV Require Import Host.Ledger Host.LedgerProofs.
Import ListNotations.
Local Open Scope N_scope.

(* for every program (sequence of ledger events) and every host history: what has
   been handed to the host plus what is still queued is an order-preserving
   sub-sequence of the orders created (payload intact, no duplicates), with
   strictly increasing fresh identifiers *)
Theorem c08_orders_reported_once : forall p acts,
  let '(s, os) := hrun p acts in
  sub (reported os ++ pending s) (issued s) /\
  StronglySorted N.lt (ids (reported os ++ pending s)) /\
  (forall o, In o (reported os) -> In o (issued s)).
Proof. exact orders_reported_once. Qed.
Print Assumptions c08_orders_reported_once.

(* every Suspended hands over the whole queue and leaves the host something to do *)
Theorem c08_suspended_has_work : forall s a rep p c, inv s rep ->
  snd (hstep s a) = Some (OSuspended p c) ->
  pending (fst (hstep s a)) = [] /\ (susp (fst (hstep s a)) <> None \/ p <> []).
Proof. exact suspended_has_work. Qed.
Print Assumptions c08_suspended_has_work.

(* no lost wake-up: once the awaited order is answered the next step makes progress;
   an error answer outside any handler surfaces as an error result *)
Theorem c08_answered_order_resumes : forall s id t r, running s = true -> susp s = Some (id, t) ->
  lookup id (responses s) = Some r ->
  (forall p c, snd (hstep s HStep) = Some (OSuspended p c) ->
     susp (fst (hstep s HStep)) <> Some (id, t) \/ prog (fst (hstep s HStep)) <> prog s \/ log (fst (hstep s HStep)) <> log s) /\
  (r = RErr -> t = false -> snd (hstep s HStep) = Some OError).
Proof. exact answered_order_resumes. Qed.
Print Assumptions c08_answered_order_resumes.

(* known finding O1: a program that finishes while an order it never awaited is still
   unreported gets Suspended and then Done -- its completion value is never delivered *)
Theorem c08_completion_lost_refuted :
  snd (hrun [PIssue 5%Z] [HStep; HFulfil [(1, ROk 9%Z)]; HStep; HStep]) = [OSuspended [(1, 5%Z)] []; ODone; ODone].
Proof. vm_compute. reflexivity. Qed.
Print Assumptions c08_completion_lost_refuted.

(* known finding O2: a cancellation followed by completion is never reported *)
Theorem c08_cancel_unreported_refuted :
  let '(s, os) := hrun [PIssue 5%Z; PCancel 1] [HStep; HStep] in
  os = [OComplete []; ODone] /\ cancelled s = [1] /\ reported_cancelled os = [].
Proof. vm_compute. auto. Qed.
Print Assumptions c08_cancel_unreported_refuted.
