From Coq Require Import NArith List Bool Lia.
From TsrunV Require Import Host.Race.
Import ListNotations.

Lemma mem_In id l : mem id l = true <-> In id l.
Proof.
  induction l as [|x r IH]; cbn; [split; [discriminate|tauto]|].
  rewrite orb_true_iff, IH, N.eqb_eq. tauto.
Qed.
Lemma is_winner_spec win id : is_winner win id = true <-> win = Some id.
Proof.
  destruct win as [x|]; cbn; [|split; discriminate].
  rewrite N.eqb_eq. split; [intros ->; reflexivity|intros H; inversion H; reflexivity].
Qed.
Lemma NoDup_snoc (l : list N) x : NoDup l -> ~ In x l -> NoDup (l ++ [x]).
Proof.
  induction l as [|y r IH]; intros Hnd Hx; cbn.
  - constructor; [intros []|constructor].
  - inversion Hnd as [|? ? Hy Hr]; subst. constructor.
    + rewrite in_app_iff. cbn. intros [H|[H|[]]]; [contradiction|]. subst. apply Hx. left. reflexivity.
    + apply IH; [assumption|]. intros H. apply Hx. right. assumption.
Qed.

Lemma losers_from_inv win : forall ids acc,
    NoDup acc -> (forall id, In id acc -> win <> Some id) ->
    NoDup (losers_from win ids acc)
    /\ (forall id, In id (losers_from win ids acc) -> win <> Some id)
    /\ (forall id, In id (losers_from win ids acc) -> In id acc \/ In (Some id) ids)
    /\ (forall id, In id acc -> In id (losers_from win ids acc))
    /\ (forall id, In (Some id) ids -> win <> Some id -> In id (losers_from win ids acc)).
Proof.
  induction ids as [|o r IH]; intros acc Hnd Hw; cbn [losers_from].
  - repeat split; auto. intros id [].
  - destruct o as [x|].
    + destruct (is_winner win x || mem x acc) eqn:E.
      * destruct (IH acc Hnd Hw) as (A & B & C & D & F). repeat split; auto.
        -- intros id Hi. destruct (C id Hi); [left; assumption|right; right; assumption].
        -- intros id [Hi|Hi] Hne; [|apply F; assumption].
           inversion Hi; subst x. apply orb_true_iff in E. destruct E as [E|E].
           ++ apply is_winner_spec in E. contradiction.
           ++ apply D. apply mem_In. exact E.
      * apply orb_false_iff in E. destruct E as [E1 E2].
        assert (Hx : ~ In x acc) by (intros Hi; apply mem_In in Hi; congruence).
        assert (Hwx : win <> Some x) by (intros Hi; apply is_winner_spec in Hi; congruence).
        assert (Hnd' : NoDup (acc ++ [x])) by (apply NoDup_snoc; assumption).
        assert (Hw' : forall id, In id (acc ++ [x]) -> win <> Some id).
        { intros id Hi. apply in_app_iff in Hi. destruct Hi as [Hi|[Hi|[]]]; [apply Hw; assumption|subst; assumption]. }
        destruct (IH (acc ++ [x]) Hnd' Hw') as (A & B & C & D & F). repeat split; auto.
        -- intros id Hi. destruct (C id Hi) as [H|H].
           ++ apply in_app_iff in H. destruct H as [H|[H|[]]]; [left; assumption|subst; right; left; reflexivity].
           ++ right; right; assumption.
        -- intros id Hi. apply D. apply in_app_iff. left. assumption.
        -- intros id [Hi|Hi] Hne; [|apply F; assumption].
           inversion Hi; subst x. apply D. apply in_app_iff. right. left. reflexivity.
    + destruct (IH acc Hnd Hw) as (A & B & C & D & F). repeat split; auto.
      * intros id Hi. destruct (C id Hi); [left; assumption|right; right; assumption].
      * intros id [Hi|Hi] Hne; [discriminate|apply F; assumption].
Qed.

Lemma losers_spec ids w :
  NoDup (losers ids w)
  /\ (forall id, In id (losers ids w) <-> In (Some id) ids /\ winner_id ids w <> Some id).
Proof.
  unfold losers.
  destruct (losers_from_inv (winner_id ids w) ids [] (NoDup_nil _) (fun _ H => match H with end)) as (A & B & C & _ & F).
  split; [exact A|]. intros id. split.
  - intros Hi. split; [destruct (C id Hi) as [[]|H]; exact H|apply B; exact Hi].
  - intros [Hi Hne]. apply F; assumption.
Qed.

Lemma race_cancelled_nodup ids w rejected : NoDup (race_cancelled ids w rejected).
Proof.
  unfold race_cancelled. destruct (losers_spec ids w) as [Hnd Hin].
  destruct rejected; [|exact Hnd].
  destruct (winner_id ids w) as [x|] eqn:E; [|exact Hnd].
  cbn. constructor; [|exact Hnd]. intros Hi. apply Hin in Hi. destruct Hi as [_ Hne]. congruence.
Qed.

Lemma race_cancelled_spec ids w rejected id :
  In id (race_cancelled ids w rejected) <->
  (In (Some id) ids /\ winner_id ids w <> Some id) \/ (rejected = true /\ winner_id ids w = Some id).
Proof.
  unfold race_cancelled. destruct (losers_spec ids w) as [_ Hin]. rewrite in_app_iff, Hin.
  destruct rejected.
  - destruct (winner_id ids w) as [x|] eqn:E; cbn.
    + split.
      * intros [[H|[]]|H]; [right; split; [reflexivity|congruence]|left; exact H].
      * intros [H|[_ H]]; [right; exact H|left; left; congruence].
    + split; [intros [[]|H]; left; exact H|intros [H|[_ H]]; [right; exact H|discriminate]].
  - cbn. split; [intros [[]|H]; left; exact H|intros [H|[H _]]; [right; exact H|discriminate]].
Qed.
