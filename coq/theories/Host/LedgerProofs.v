From Coq Require Import List Bool NArith ZArith Lia Sorting.Sorted.
From TsrunV Require Import Host.Ledger.
Import ListNotations.
Local Open Scope N_scope.

(* order-preserving sublist *)
Inductive sub {A} : list A -> list A -> Prop :=
| sub_nil l : sub [] l
| sub_keep x a b : sub a b -> sub (x :: a) (x :: b)
| sub_skip x a b : sub a b -> sub a (x :: b).

Lemma sub_refl {A} (l : list A) : sub l l.
Proof. induction l; constructor; auto. Qed.

Lemma sub_app_r {A} (a b c : list A) : sub a b -> sub a (b ++ c).
Proof. induction 1; simpl; constructor; auto. Qed.

Lemma sub_snoc {A} (a b : list A) x : sub a b -> sub (a ++ [x]) (b ++ [x]).
Proof.
  induction 1 as [l|y a b _ IH|y a b _ IH]; simpl.
  - induction l as [|z l IHl]; simpl; [repeat constructor|]. apply sub_skip. exact IHl.
  - apply sub_keep. exact IH.
  - apply sub_skip. exact IH.
Qed.

Lemma sub_trans {A} (a b c : list A) : sub a b -> sub b c -> sub a c.
Proof.
  intros H1 H2. revert a H1. induction H2 as [l|x b c _ IH|x b c _ IH]; intros a H1.
  - inversion H1; subst. constructor.
  - inversion H1; subst; [constructor|apply sub_keep; auto|apply sub_skip; auto].
  - apply sub_skip. auto.
Qed.

Lemma remove_id_sub {A} id (l : list (N * A)) : sub (remove_id id l) l.
Proof.
  induction l as [|[k x] l IH]; simpl; [constructor|].
  destruct (k =? id); [apply sub_skip|apply sub_keep]; auto.
Qed.

Lemma sub_app_l {A} (a b b' : list A) : sub b b' -> sub (a ++ b) (a ++ b').
Proof. intros H. induction a; simpl; auto. apply sub_keep. auto. Qed.

Definition ids {A} (l : list (N * A)) : list N := map fst l.

Record inv (s : st) (rep : list (N * payload)) : Prop := {
  i_sub : sub (rep ++ pending s) (issued s);
  i_sorted : StronglySorted N.lt (ids (issued s));
  i_below : Forall (fun k => k < next_id s) (ids (issued s))
}.

Lemma inv_init p : inv (init p) [].
Proof. constructor; simpl; constructor. Qed.

Lemma sorted_snoc l x : StronglySorted N.lt l -> Forall (fun k => k < x) l -> StronglySorted N.lt (l ++ [x]).
Proof.
  induction 1 as [|y l S IH F]; intros B; simpl.
  - repeat constructor.
  - inversion B; subst. constructor; auto. apply Forall_app. split; auto.
Qed.

Definition pend_of (o : obs) : list (N * payload) :=
  match o with OSuspended p _ => p | _ => [] end.

Lemma inv_issue s rep p pr mk lg :
  inv s rep ->
  inv (mkSt (next_id s + 1) (pending s ++ [(next_id s, p)]) (cancelled s) (responses s) None pr mk lg true
            (issued s ++ [(next_id s, p)])) rep.
Proof.
  intros [S So B]. constructor; simpl.
  - rewrite app_assoc. apply sub_snoc. exact S.
  - unfold ids. rewrite map_app. simpl. apply sorted_snoc; auto.
  - unfold ids. rewrite map_app. apply Forall_app. split.
    + eapply Forall_impl; [|exact B]. simpl. intros; lia.
    + repeat constructor. simpl. lia.
Qed.

Lemma run_inv : forall fuel s rep, inv s rep ->
  inv (fst (run fuel s)) (rep ++ pend_of (snd (run fuel s))) /\
  (forall p c, snd (run fuel s) = OSuspended p c ->
     pending (fst (run fuel s)) = [] /\ (susp (fst (run fuel s)) <> None \/ p <> [])).
Proof.
  induction fuel as [|f IH]; intros s rep I.
  - simpl. rewrite app_nil_r. split; auto. discriminate.
  - simpl. destruct (prog s) as [|e r] eqn:Ep.
    + destruct (pending s) as [|x px] eqn:Epd; simpl.
      * rewrite app_nil_r. split; [|discriminate]. destruct I as [S So B].
        constructor; simpl; auto. rewrite Epd in S. exact S.
      * split.
        -- destruct I as [S So B]. constructor; simpl; auto. rewrite app_nil_r. rewrite Epd in S. exact S.
        -- intros p c E. inversion E; subst. split; auto. right. discriminate.
    + destruct e as [p t|p|j t|id|].
      * (* POrder *)
        simpl. split.
        -- pose proof (inv_issue s rep p r (markers s) (log s) I) as [S So B].
           constructor; simpl in *; auto. rewrite app_nil_r. exact S.
        -- intros p0 c E. split; auto. left. discriminate.
      * (* PIssue *)
        apply IH. apply inv_issue. exact I.
      * (* PAwaitMarker *)
        destruct (nth_error (markers s) j) as [id|].
        -- simpl. split.
           ++ destruct I as [S So B]. constructor; simpl; auto. rewrite app_nil_r. exact S.
           ++ intros p0 c E. split; auto. left. discriminate.
        -- apply IH. destruct I as [S So B]. constructor; simpl; auto.
      * (* PCancel *)
        apply IH. destruct I as [S So B]. constructor; simpl; auto.
        eapply sub_trans; [|exact S]. apply sub_app_l. apply remove_id_sub.
      * (* PGetId *)
        apply IH. destruct I as [S So B]. constructor; simpl; auto.
        eapply Forall_impl; [|exact B]. simpl. intros; lia.
Qed.

Lemma run_log_grows : forall fuel s, (List.length (log s) <= List.length (log (fst (run fuel s))))%nat.
Proof.
  induction fuel as [|f IH]; intros s; simpl; auto.
  destruct (prog s) as [|e r]; [destruct (pending s); simpl; auto|].
  destruct e as [p t|p|j t|id|]; simpl; auto.
  - specialize (IH (mkSt (next_id s + 1) (pending s ++ [(next_id s, p)]) (cancelled s) (responses s) None r
                        (markers s ++ [next_id s]) (log s) true (issued s ++ [(next_id s, p)]))). exact IH.
  - destruct (nth_error (markers s) j); simpl; auto.
    specialize (IH (mkSt (next_id s) (pending s) (cancelled s) (responses s) None r (markers s) (log s) true (issued s))). exact IH.
  - specialize (IH (mkSt (next_id s) (remove_id id (pending s)) (cancelled s ++ [id]) (remove_id id (responses s)) None r
                        (markers s) (log s) true (issued s))). exact IH.
  - specialize (IH (mkSt (next_id s + 1) (pending s) (cancelled s) (responses s) None r (markers s)
                        (log s ++ [SId (next_id s)]) true (issued s))). simpl in IH. rewrite app_length in IH. simpl in IH. lia.
Qed.

Arguments run : simpl never.

Lemma inv_same_ledger s s' rep :
  pending s' = pending s -> issued s' = issued s -> next_id s' = next_id s -> inv s rep -> inv s' rep.
Proof. intros A B C [S So Bd]. constructor; rewrite ?A, ?B, ?C; auto. Qed.

Definition obs_pend (o : option obs) : list (N * payload) :=
  match o with Some x => pend_of x | None => [] end.

Lemma hstep_inv s a rep : inv s rep ->
  inv (fst (hstep s a)) (rep ++ obs_pend (snd (hstep s a))) /\
  (forall p c, snd (hstep s a) = Some (OSuspended p c) ->
     pending (fst (hstep s a)) = [] /\ (susp (fst (hstep s a)) <> None \/ p <> [])).
Proof.
  intros I. destruct a as [|rs]; simpl.
  - destruct (running s) eqn:Er; simpl.
    + destruct (susp s) as [[id t]|] eqn:Es.
      * destruct (lookup id (responses s)) as [[v|]|] eqn:El.
        -- match goal with |- context [run ?f ?x] => pose proof (run_inv f x rep) as R; destruct (run f x) as [s' o] end.
           simpl in *. destruct R as [R1 R2]; [eapply inv_same_ledger with (s := s); auto|].
           split; [exact R1|intros p c E; inversion E; subst; apply (R2 p c); reflexivity].
        -- destruct t.
           ++ match goal with |- context [run ?f ?x] => pose proof (run_inv f x rep) as R; destruct (run f x) as [s' o] end.
              simpl in *. destruct R as [R1 R2]; [eapply inv_same_ledger with (s := s); auto|].
              split; [exact R1|intros p c E; inversion E; subst; apply (R2 p c); reflexivity].
           ++ simpl. rewrite app_nil_r. split; [|discriminate]. eapply inv_same_ledger with (s := s); auto.
        -- simpl. split.
           ++ destruct I as [S So B]. constructor; simpl; auto. rewrite app_nil_r. exact S.
           ++ intros p c E. split; auto. left. discriminate.
      * match goal with |- context [run ?f ?x] => pose proof (run_inv f x rep I) as R; destruct (run f x) as [s' o] end.
        simpl in *. destruct R as [R1 R2].
        split; [exact R1|intros p c E; inversion E; subst; apply (R2 p c); reflexivity].
    + rewrite app_nil_r. split; auto. discriminate.
  - rewrite app_nil_r. split; [|discriminate]. eapply inv_same_ledger with (s := s); auto.
Qed.

(* all observations of a host history *)
Lemma hrun_inv p acts :
  let '(s, os) := hrun p acts in inv s (reported os).
Proof.
  unfold hrun.
  assert (G : forall acts s os, inv s (reported os) ->
            let '(s', os') := fold_left (fun acc a => let '(s, os) := acc in let '(s', o) := hstep s a in
                                          (s', match o with Some x => os ++ [x] | None => os end)) acts (s, os) in
            inv s' (reported os')).
  { induction acts0 as [|a acts0 IH]; intros s os I; simpl; auto.
    pose proof (hstep_inv s a (reported os) I) as [H _]. destruct (hstep s a) as [s' o]. simpl in H.
    apply IH. destruct o as [x|]; simpl in *.
    - assert (E : reported (os ++ [x]) = reported os ++ pend_of x).
      { clear. induction os as [|y os IHo]; simpl.
        - destruct x; simpl; rewrite ?app_nil_r; auto.
        - destruct y; simpl; rewrite ?IHo; auto. rewrite app_assoc. reflexivity. }
      rewrite E. exact H.
    - rewrite app_nil_r in H. exact H. }
  apply G. apply inv_init.
Qed.

Lemma sub_ids {A} (a b : list (N * A)) : sub a b -> sub (ids a) (ids b).
Proof. induction 1; simpl; constructor; auto. Qed.

Lemma sub_In {A} (a b : list A) x : sub a b -> In x a -> In x b.
Proof.
  induction 1 as [l|y a b H IH|y a b H IH]; simpl; intros Hin.
  - contradiction.
  - destruct Hin as [E|Hin]; [left; exact E|right; apply IH; exact Hin].
  - right. apply IH. exact Hin.
Qed.

Lemma sub_sorted a b : sub a b -> StronglySorted N.lt b -> StronglySorted N.lt a.
Proof.
  induction 1 as [l|x a b H IH|x a b H IH]; intros S.
  - constructor.
  - inversion S as [|? ? Sb Fb]; subst. constructor; auto.
    rewrite Forall_forall in *. intros y Hy. apply Fb.
    eapply sub_In; eauto.
  - inversion S; subst. auto.
Qed.


(* T1: what the host has been handed, over any history: every order at most once, payload intact,
   identifiers fresh and strictly increasing; nothing handed over is still queued *)
Theorem orders_reported_once p acts :
  let '(s, os) := hrun p acts in
  sub (reported os ++ pending s) (issued s) /\
  StronglySorted N.lt (ids (reported os ++ pending s)) /\
  (forall o, In o (reported os) -> In o (issued s)).
Proof.
  pose proof (hrun_inv p acts) as H. destruct (hrun p acts) as [s os]. destruct H as [S So B].
  split; auto. split.
  - eapply sub_sorted; [apply sub_ids; exact S|exact So].
  - intros o Ho. eapply sub_In; [exact S|]. apply in_or_app. auto.
Qed.

(* T3/T1b: a Suspended observation empties the queue and leaves the host something to do *)
Theorem suspended_has_work s a rep p c : inv s rep ->
  snd (hstep s a) = Some (OSuspended p c) ->
  pending (fst (hstep s a)) = [] /\ (susp (fst (hstep s a)) <> None \/ p <> []).
Proof. intros I E. destruct (hstep_inv s a rep I) as [_ H]. apply (H p c). exact E. Qed.

(* T4: no lost wake-up -- an answered order is consumed by the next step, exactly once *)
Lemma lookup_remove_id {A} id (l : list (N * A)) : lookup id (remove_id id l) = None.
Proof.
  induction l as [|[k x] l IH]; simpl; auto. destruct (k =? id) eqn:E; auto. simpl. rewrite E. auto.
Qed.

Theorem answered_order_resumes s id t r : running s = true -> susp s = Some (id, t) ->
  lookup id (responses s) = Some r ->
  (forall p c, snd (hstep s HStep) = Some (OSuspended p c) -> susp (fst (hstep s HStep)) <> Some (id, t) \/ prog (fst (hstep s HStep)) <> prog s \/ log (fst (hstep s HStep)) <> log s) /\
  (r = RErr -> t = false -> snd (hstep s HStep) = Some OError).
Proof.
  intros Er Es El. simpl. rewrite Er, Es, El. simpl. split.
  - intros p c E. destruct r as [v|].
    + (* resumed with a value: the log grew before running on *)
      right. right. 
      match goal with |- context [run ?f ?x] => pose proof (run_log_grows f x) as G end.
      destruct (run _ _) as [s' o]. simpl in *. intros X. rewrite X in G. 
      apply (f_equal (@List.length seen)) in X. specialize (G). rewrite app_length in G. simpl in G. lia.
    + destruct t.
      * right. right.
        match goal with |- context [run ?f ?x] => pose proof (run_log_grows f x) as G end.
        destruct (run _ _) as [s' o]. simpl in *. intros X. rewrite X in G. rewrite app_length in G. simpl in G. lia.
      * simpl in E. discriminate.
  - intros -> ->. reflexivity.
Qed.
