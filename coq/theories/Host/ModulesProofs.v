From Coq Require Import List Bool Arith Lia Permutation.
From TsrunV Require Import Host.Modules.
Import ListNotations.

Arguments scan : simpl never.

Lemma mem_In x l : mem x l = true <-> In x l.
Proof.
  unfold mem. rewrite existsb_exists. split.
  - intros [y [Hy E]]. apply Nat.eqb_eq in E. subst; auto.
  - intros H. exists x. split; auto. apply Nat.eqb_refl.
Qed.

Lemma mem_false x l : mem x l = false <-> ~ In x l.
Proof.
  rewrite <- mem_In. destruct (mem x l); split; intros H; try congruence; try discriminate;
  try (exfalso; apply H; reflexivity).
Qed.

Lemma dedupe_spec l : forall seen,
  NoDup (dedupe l seen) /\ (forall x, In x (dedupe l seen) -> In x l /\ ~ In x seen).
Proof.
  induction l as [|x r IH]; intros seen; simpl.
  - split; [constructor|intros y []].
  - destruct (mem x seen) eqn:E.
    + destruct (IH seen) as [N S]. split; auto. intros y Hy. destruct (S y Hy). auto.
    + destruct (IH (x :: seen)) as [N S]. apply mem_false in E. split.
      * constructor; auto. intros Hin. destruct (S x Hin) as [_ Hn]. apply Hn. left; auto.
      * intros y [<-|Hy]; auto. destruct (S y Hy) as [A B]. split; auto. intros C. apply B. right; auto.
Qed.

Lemma NoDup_app_snoc (l : list path) x : NoDup l -> ~ In x l -> NoDup (l ++ [x]).
Proof.
  induction l as [|y l IH]; intros N H; simpl.
  - repeat constructor. intros [].
  - inversion N; subst. constructor.
    + intros Hin. apply in_app_or in Hin as [Hin|[E|[]]]; auto. subst. apply H. left; auto.
    + apply IH; auto. intros Hin. apply H. right; auto.
Qed.

Lemma filter_nil_iff {A} (f : A -> bool) l : (forall x, In x l -> f x = false) -> filter f l = [].
Proof.
  induction l as [|x l IH]; intros H; simpl; auto.
  rewrite (H x (or_introl eq_refl)). apply IH. intros y Hy. apply H. right; auto.
Qed.

Section Proofs.
  Variable g : graph.
  Variable main : path.
  Variable order : list path -> list path.
  Hypothesis order_perm : forall l, Permutation (order l) l.

  (* every module in the log runs after everything it imports *)
  Definition deps_first (l : list path) : Prop :=
    forall l1 m l2, l = l1 ++ m :: l2 -> forall d, In d (g m) -> In d l1.

  Record minv (s : mst) : Prop := {
    mi_nodup : NoDup (loaded s);
    mi_deps : deps_first (loaded s);
    mi_pending : NoDup (pending s)
  }.

  Lemma deps_first_snoc l m : deps_first l -> (forall d, In d (g m) -> In d l) -> deps_first (l ++ [m]).
  Proof.
    intros D H l1 x l2 E d Hd.
    destruct l2 as [|y l2].
    - apply app_inj_tail in E as [-> ->]. auto.
    - assert (E' : l = l1 ++ x :: removelast (y :: l2)).
      { apply (f_equal (@removelast path)) in E. rewrite removelast_app in E by discriminate.
        simpl in E. rewrite app_nil_r in E. rewrite E.
        rewrite removelast_app by discriminate. reflexivity. }
      eapply D; eauto.
  Qed.

  Lemma missing_nil s l : missing s l = [] -> forall d, In d l -> In d (loaded s).
  Proof.
    unfold missing. intros H d Hd. destruct (mem d (loaded s)) eqn:E; [apply mem_In; auto|].
    assert (In d (filter (fun p => negb (mem p (loaded s))) l)) by (apply filter_In; rewrite E; auto).
    rewrite H in H0. destruct H0.
  Qed.

  Lemma exec_inv s m : minv s -> ~ In m (loaded s) -> missing s (g m) = [] -> minv (exec_module s m).
  Proof.
    intros [N D P] Hn Hm. constructor; simpl.
    - apply NoDup_app_snoc; auto.
    - apply deps_first_snoc; auto. apply missing_nil; auto.
    - apply NoDup_filter; auto.
  Qed.

  (* executing a batch of ready modules: each was ready in the state before the batch *)
  Lemma fold_exec_inv ready : forall s, minv s -> NoDup ready ->
    (forall m, In m ready -> ~ In m (loaded s) /\ (forall d, In d (g m) -> In d (loaded s))) ->
    minv (fold_left exec_module ready s) /\
    (forall x, In x (loaded s) -> In x (loaded (fold_left exec_module ready s))).
  Proof.
    induction ready as [|m r IH]; intros s I N H; simpl; [split; auto|].
    inversion N as [|? ? Nm Nr]; subst.
    destruct (H m (or_introl eq_refl)) as [Hn Hd].
    assert (I' : minv (exec_module s m)).
    { apply exec_inv; auto. unfold missing.
      apply filter_nil_iff. intros d Hin. apply negb_false_iff. apply mem_In. auto. }
    destruct (IH (exec_module s m) I' Nr) as [A B].
    - intros x Hx. destruct (H x (or_intror Hx)) as [Xn Xd]. simpl. split.
      + intros Hin. apply in_app_or in Hin as [Hin|[<-|[]]]; auto.
      + intros d Hd'. apply in_or_app. left. auto.
    - split; auto. intros x Hx. apply B. simpl. apply in_or_app. left. auto.
  Qed.

  Lemma scan_ready s : minv s ->
    NoDup (fst (scan g order s)) /\
    (forall m, In m (fst (scan g order s)) -> ~ In m (loaded s) /\ (forall d, In d (g m) -> In d (loaded s))).
  Proof.
    intros [N D P]. unfold scan. simpl. split.
    - apply NoDup_filter, NoDup_filter. eapply Permutation_NoDup; [apply Permutation_sym, order_perm|exact P].
    - intros m Hm. apply filter_In in Hm as [Hm Hr]. apply filter_In in Hm as [_ Hl].
      apply negb_true_iff, mem_false in Hl. split; auto.
      destruct (missing s (g m)) eqn:E; [|discriminate]. apply missing_nil. exact E.
  Qed.

  Lemma process_S f s : process g order (S f) s =
    let '(ready, req) := scan g order s in
    match ready with [] => (s, req) | _ => process g order f (fold_left exec_module ready s) end.
  Proof. reflexivity. Qed.

  Lemma process_inv : forall fuel s, minv s -> minv (fst (process g order fuel s)).
  Proof.
    induction fuel as [|f IH]; intros s I; [simpl; auto|]. rewrite process_S.
    destruct (scan g order s) as [ready req] eqn:E.
    destruct ready as [|m r]; simpl; auto.
    apply IH. pose proof (scan_ready s I) as [Nr Hr]. rewrite E in Nr, Hr. simpl in Nr, Hr.
    apply (fold_exec_inv (m :: r) s I Nr Hr).
  Qed.

  Lemma setup_inv s : minv s -> minv (fst (setup g main order s)).
  Proof.
    intros I. unfold setup.
    destruct (dedupe (unprovided s (g main)) []) as [|u us]; [|destruct I; constructor; simpl; auto].
    pose proof (process_inv (S (length (pending s))) s I) as I1.
    destruct (process g order (S (length (pending s))) s) as [s1 req]. simpl in I1.
    destruct req as [|q qs]; [|destruct I1; constructor; simpl; auto].
    destruct (missing s1 (g main)) as [|x xs] eqn:Em; destruct I1; constructor; simpl; auto.
  Qed.

  (* when the entry program starts, everything it imports has run *)
  Lemma setup_run s log : snd (setup g main order s) = MRun log ->
    log = loaded (fst (setup g main order s)) /\ forall d, In d (g main) -> In d log.
  Proof.
    unfold setup.
    destruct (dedupe (unprovided s (g main)) []) as [|u us]; [|discriminate].
    destruct (process g order (S (length (pending s))) s) as [s1 req].
    destruct req as [|q qs]; [|discriminate].
    destruct (missing s1 (g main)) as [|x xs] eqn:Em; [|discriminate].
    simpl. intros E. inversion E; subst. split; auto. apply missing_nil. exact Em.
  Qed.

  Lemma prepare_inv s : minv s -> minv (fst (prepare g main s)).
  Proof.
    intros [N D P]. unfold prepare. destruct (dedupe (missing s (g main)) []); constructor; simpl; auto.
  Qed.

  Lemma mstep_inv s a : minv s -> minv (fst (mstep g main order s a)).
  Proof.
    intros I. destruct a as [p|]; simpl.
    - destruct I as [N D P]. constructor; simpl; auto. constructor.
      + intros Hin. apply filter_In in Hin as [_ H]. rewrite Nat.eqb_refl in H. discriminate.
      + apply NoDup_filter. exact P.
    - destruct (finished s); auto. destruct (waiting s); auto.
      pose proof (setup_inv s I) as H. destruct (setup g main order s). exact H.
  Qed.

  Lemma rev_nodup_inv early : NoDup early -> minv (mkM [] (rev early) false false).
  Proof.
    intros N. constructor; simpl.
    - constructor.
    - intros l1 m l2 E. destruct l1; discriminate.
    - apply NoDup_rev. exact N.
  Qed.

  (* every module body runs at most once and only after all modules it imports,
     for every graph, every early-supply set, every host action sequence and every
     iteration order of the pending-source map *)
  Theorem bodies_once_deps_first early acts : NoDup early ->
    let s := fst (mrun g main order early acts) in
    NoDup (loaded s) /\ deps_first (loaded s).
  Proof.
    intros N. unfold mrun.
    pose proof (prepare_inv _ (rev_nodup_inv early N)) as I0.
    destruct (prepare g main (mkM [] (rev early) false false)) as [s1 o1]. simpl in I0.
    assert (G : forall acts s os, minv s ->
              minv (fst (fold_left (fun acc a => let '(s, os) := acc in let '(s', o) := mstep g main order s a in
                                     (s', match o with Some x => os ++ [x] | None => os end)) acts (s, os)))).
    { induction acts0 as [|a acts0 IH]; intros s os I; simpl; auto.
      pose proof (mstep_inv s a I) as H. destruct (mstep g main order s a) as [s' o]. simpl in H.
      apply IH. exact H. }
    destruct (G acts s1 [o1] I0) as [A B _]. split; auto.
  Qed.

  Lemma process_req_nodup : forall fuel s, NoDup (snd (process g order fuel s)).
  Proof.
    induction fuel as [|f IH]; intros s; [simpl; constructor|]. rewrite process_S.
    destruct (scan g order s) as [ready req] eqn:E. destruct ready as [|m r]; [|apply IH].
    simpl. unfold scan in E. inversion E; subst. apply dedupe_spec.
  Qed.

  (* import requests name each missing module once (the fall-through list of
     setup_vm_from_program, reached only when a supplied module can never become ready, excepted) *)
  Lemma setup_need_nodup s l : snd (setup g main order s) = MNeed l ->
    NoDup l \/ exists s1, l = unprovided s1 (missing s1 (g main)).
  Proof.
    unfold setup.
    destruct (dedupe (unprovided s (g main)) []) as [|u us] eqn:Ed.
    - pose proof (process_req_nodup (S (length (pending s))) s) as Np.
      destruct (process g order (S (length (pending s))) s) as [s1 req] eqn:Ep.
      destruct req as [|q qs].
      + destruct (missing s1 (g main)) as [|x xs] eqn:Em; [discriminate|].
        intros E. inversion E; subst. right. exists s1. rewrite Em. reflexivity.
      + intros E. inversion E; subst. left. exact Np.
    - intros E. inversion E; subst. left. rewrite <- Ed. apply dedupe_spec.
  Qed.
End Proofs.
