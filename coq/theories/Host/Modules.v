(* Executable model of module loading (src/interpreter/mod.rs: prepare,
   setup_vm_from_program, process_pending_modules, execute_pending_module,
   provide_module, filter_missing/unprovided_imports, dedupe_import_requests).
   Modules are numbers (their canonical resolved path, C18); a graph gives the
   resolved dependency list of each module in source order. The iteration
   order over pending_module_sources (an FxHashMap) is a parameter. No proofs. *)
From Coq Require Import List Bool Arith.
Import ListNotations.

Definition path := nat.
Definition graph := path -> list path.

Record mst := mkM {
  loaded : list path;     (* loaded_modules, in execution order (= the load log) *)
  pending : list path;    (* pending_module_sources keys *)
  waiting : bool;         (* pending_program is Some *)
  finished : bool
}.

Definition mem (x : path) (l : list path) : bool := existsb (Nat.eqb x) l.
Fixpoint dedupe (l : list path) (seen : list path) : list path :=
  match l with
  | [] => []
  | x :: r => if mem x seen then dedupe r seen else x :: dedupe r (x :: seen)
  end.

Definition missing (s : mst) (l : list path) : list path := filter (fun p => negb (mem p (loaded s))) l.
Definition unprovided (s : mst) (l : list path) : list path :=
  filter (fun p => negb (mem p (loaded s)) && negb (mem p (pending s))) l.

(* MRun log: the entry program starts; log = bodies of the dependencies executed so far, in order *)
Inductive mobs := MNeed (l : list path) | MRun (log : list path) | MDone.

Section Order.
  Variable g : graph.
  Variable main : path.                      (* the entry module; its own path is never in the graph's ranges *)
  Variable order : list path -> list path.   (* hash-map iteration order: some permutation *)

  (* one scan of process_pending_modules: (ready modules, requests of the non-ready ones) *)
  Definition scan (s : mst) : list path * list path :=
    let keys := filter (fun m => negb (mem m (loaded s))) (order (pending s)) in
    let ready := filter (fun m => match missing s (g m) with [] => true | _ => false end) keys in
    let blocked := filter (fun m => match missing s (g m) with [] => false | _ => true end) keys in
    (ready, dedupe (flat_map (fun m => unprovided s (g m)) blocked) []).

  (* execute_pending_module *)
  Definition exec_module (s : mst) (m : path) : mst :=
    mkM (loaded s ++ [m]) (filter (fun p => negb (Nat.eqb p m)) (pending s)) (waiting s) (finished s).

  Fixpoint process (fuel : nat) (s : mst) : mst * list path :=
    match fuel with
    | O => (s, [])
    | S f =>
        let '(ready, req) := scan s in
        match ready with
        | [] => (s, req)
        | _ => process f (fold_left exec_module ready s)
        end
    end.

  (* setup_vm_from_program *)
  Definition setup (s : mst) : mst * mobs :=
    let unp := dedupe (unprovided s (g main)) [] in
    match unp with
    | _ :: _ => (mkM (loaded s) (pending s) true false, MNeed unp)
    | [] =>
        let '(s1, req) := process (S (length (pending s))) s in
        match req with
        | _ :: _ => (mkM (loaded s1) (pending s1) true false, MNeed req)
        | [] =>
            match missing s1 (g main) with
            | (_ :: _) as still => (mkM (loaded s1) (pending s1) true false, MNeed (unprovided s1 still))
            | [] => (mkM (loaded s1) (pending s1) false true, MRun (loaded s1))
            end
        end
    end.

  (* Interpreter::prepare on a fresh interpreter state s (modules may have been provided early) *)
  Definition prepare (s : mst) : mst * mobs :=
    match dedupe (missing s (g main)) [] with
    | (_ :: _) as m => (mkM (loaded s) (pending s) true false, MNeed m)
    | [] => (mkM (loaded s) (pending s) false true, MRun (loaded s))
    end.

  Inductive maction := Provide (p : path) | Step.

  Definition mstep (s : mst) (a : maction) : mst * option mobs :=
    match a with
    | Provide p => (mkM (loaded s) (p :: filter (fun q => negb (Nat.eqb q p)) (pending s)) (waiting s) (finished s), None)
    | Step => if finished s then (s, Some MDone)
              else if waiting s then let '(s', o) := setup s in (s', Some o)
              else (s, Some MDone)
    end.

  Definition mrun (early : list path) (acts : list maction) : mst * list mobs :=
    let s0 := mkM [] (rev early) false false in
    let '(s1, o1) := prepare s0 in
    fold_left (fun acc a => let '(s, os) := acc in let '(s', o) := mstep s a in
                            (s', match o with Some x => os ++ [x] | None => os end)) acts (s1, [o1]).
End Order.
