(* C08-M2: which cancellations a settled Promise.race reports
   (handle_promise_race_settle + reject_promise in builtins/promise.rs, after
   the fix that lists every losing order once). `ids` are the order ids linked
   to the racing promises, position by position (None: a promise that is not
   linked to an order); `w` is the position of the promise that settled first.
   No proofs here. *)
From Coq Require Import NArith List Bool.
Import ListNotations.

Definition winner_id (ids : list (option N)) (w : nat) : option N :=
  match nth_error ids w with Some o => o | None => None end.

Definition is_winner (win : option N) (id : N) : bool :=
  match win with Some x => N.eqb x id | None => false end.

Fixpoint mem (id : N) (l : list N) : bool :=
  match l with [] => false | x :: r => N.eqb x id || mem id r end.

(* the loop over input_order_ids *)
Fixpoint losers_from (win : option N) (ids : list (option N)) (acc : list N) : list N :=
  match ids with
  | [] => acc
  | None :: r => losers_from win r acc
  | Some id :: r => if is_winner win id || mem id acc then losers_from win r acc
                    else losers_from win r (acc ++ [id])
  end.
Definition losers (ids : list (option N)) (w : nat) : list N := losers_from (winner_id ids w) ids [].

(* a host promise that is rejected reports its own order as cancelled, then the
   race reports the losers *)
Definition race_cancelled (ids : list (option N)) (w : nat) (rejected : bool) : list N :=
  (if rejected then match winner_id ids w with Some id => [id] | None => [] end else []) ++ losers ids w.
