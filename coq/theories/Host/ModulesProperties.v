(* C09 -- property theorems only. *)
From Coq Require Import List Bool Arith Permutation.
From TsrunV Require Import Host.Modules Host.ModulesProofs.
Import ListNotations.

(* for every graph, every set of early supplies, every host action sequence
   (any permutation, batching, duplicates, unrequested supplies) and every
   iteration order of the pending-source map: every module body runs at most
   once and only after all the modules it imports *)
Theorem c09_bodies_once_deps_first : forall g main order,
  (forall l, Permutation (order l) l) ->
  forall early acts, NoDup early ->
  let s := fst (mrun g main order early acts) in
  NoDup (loaded s) /\ deps_first g (loaded s).
Proof. exact bodies_once_deps_first. Qed.
Print Assumptions c09_bodies_once_deps_first.

(* when the entry program starts, everything it imports has run *)
Theorem c09_entry_after_imports : forall g main order s log,
  snd (setup g main order s) = MRun log ->
  log = loaded (fst (setup g main order s)) /\ forall d, In d (g main) -> In d log.
Proof. exact setup_run. Qed.
Print Assumptions c09_entry_after_imports.

(* import requests name each missing module once *)
Theorem c09_requests_once : forall g main order s l,
  snd (setup g main order s) = MNeed l ->
  NoDup l \/ exists s1, l = unprovided s1 (missing s1 (g main)).
Proof. exact setup_need_nodup. Qed.
Print Assumptions c09_requests_once.
