(* C04: the object a TypeScript enum declaration denotes, as the compiler is
   specified to emit it:
       var E; (function (E) { E[E["A"] = v] = "A"; ... E["S"] = "s"; ... })(E || (E = {}));
   Member names are abstract (KName i), numeric reverse-mapping keys are
   KNum v. Repeated declarations of the same enum extend the same object. No
   proofs in this file. *)
From Coq Require Import List ZArith Bool Arith.
Import ListNotations.
Local Open Scope Z_scope.

Inductive key := KName (n : nat) | KNum (v : Z).
Inductive value := VNum (v : Z) | VStr (s : nat) | VName (n : nat).   (* VStr: a string literal, VName: the member's own name *)

Definition key_eqb (a b : key) : bool :=
  match a, b with
  | KName x, KName y => Nat.eqb x y
  | KNum x, KNum y => Z.eqb x y
  | _, _ => false
  end.

Inductive init :=
| Auto                      (* no initialiser *)
| Num (v : Z)               (* numeric literal or constant expression with value v *)
| Str (s : nat)             (* string literal *)
| Ref (n : nat).            (* the value of an earlier member, E.A or bare A *)

Definition obj := list (key * value).

Fixpoint lookup (k : key) (o : obj) : option value :=
  match o with
  | [] => None
  | (k', v) :: r => if key_eqb k' k then Some v else lookup k r
  end.

(* o[k] = v: replace in place, or append *)
Fixpoint set (k : key) (v : value) (o : obj) : obj :=
  match o with
  | [] => [(k, v)]
  | (k', v') :: r => if key_eqb k' k then (k, v) :: r else (k', v') :: set k v r
  end.

(* one member: [prev] is the value of the previous member if it was numeric *)
Definition member (o : obj) (prev : option Z) (name : nat) (i : init) : option (obj * option Z) :=
  match i with
  | Auto => match prev with
            | Some p => Some (set (KNum (p + 1)) (VName name) (set (KName name) (VNum (p + 1)) o), Some (p + 1))
            | None => None                      (* TypeScript rejects an uninitialised member after a string member *)
            end
  | Num v => Some (set (KNum v) (VName name) (set (KName name) (VNum v) o), Some v)
  | Str s => Some (set (KName name) (VStr s) o, None)
  | Ref n => match lookup (KName n) o with
             | Some (VNum v) => Some (set (KNum v) (VName name) (set (KName name) (VNum v) o), Some v)
             | Some (VStr s) => Some (set (KName name) (VStr s) o, None)     (* tsc: a string-valued reference gets no reverse entry *)
             | _ => None
             end
  end.

Fixpoint members (o : obj) (prev : option Z) (ms : list (nat * init)) : option obj :=
  match ms with
  | [] => Some o
  | (n, i) :: r => match member o prev n i with
                   | Some (o', p') => members o' p' r
                   | None => None
                   end
  end.

(* one declaration starts numbering at 0; several declarations share the object *)
Definition declare (o : obj) (ms : list (nat * init)) : option obj := members o (Some (-1)) ms.
Fixpoint declare_all (o : obj) (ds : list (list (nat * init))) : option obj :=
  match ds with
  | [] => Some o
  | d :: r => match declare o d with Some o' => declare_all o' r | None => None end
  end.
