(* C04 -- TypeScript's run-time constructs behave as their standard JavaScript emit: enums. Only statements. *)
From Coq Require Import List ZArith Bool Arith.
From TsrunV Require Import TsEmit.Enum TsEmit.EnumProofs.
Import ListNotations.
Local Open Scope Z_scope.

(* Each member writes its forward entry, and - when its value is a number - the
   reverse entry; an uninitialised member continues from the previous numeric
   value; a reference takes the referenced member's value. *)
Theorem c04_member_writes : forall o prev name i o' p', member o prev name i = Some (o', p') ->
  exists val, written o' p' name val /\
    (i = Auto -> exists p, prev = Some p /\ val = VNum (p + 1)) /\
    (forall v, i = Num v -> val = VNum v) /\ (forall s, i = Str s -> val = VStr s) /\
    (forall n, i = Ref n -> lookup (KName n) o = Some val).
Proof. exact member_writes. Qed.
Print Assumptions c04_member_writes.

(* Nothing else changes: every other name and every other number keeps its entry. *)
Theorem c04_member_frame : forall o prev name i o' p', member o prev name i = Some (o', p') ->
  (forall n, n <> name -> lookup (KName n) o' = lookup (KName n) o) /\
  (forall v, lookup (KName name) o' <> Some (VNum v) -> lookup (KNum v) o' = lookup (KNum v) o).
Proof. exact member_frame. Qed.
Print Assumptions c04_member_frame.

(* For declarations of any length, including repeated (merged) ones: a name keeps
   its value until a member of the same name is declared again, and E[v] names
   the LAST member whose value is v. *)
Theorem c04_forward_mapping_survives : forall ms o prev o' n val,
  members o prev ms = Some o' -> lookup (KName n) o = Some val -> ~ In n (map fst ms) ->
  lookup (KName n) o' = Some val.
Proof. exact forward_survives. Qed.
Print Assumptions c04_forward_mapping_survives.

Theorem c04_reverse_mapping_is_last_writer : forall ms o prev o' v who,
  members o prev ms = Some o' -> lookup (KNum v) o = Some who ->
  (forall m, In m (map fst ms) -> lookup (KName m) o' <> Some (VNum v)) -> NoDup (map fst ms) ->
  lookup (KNum v) o' = Some who.
Proof. exact reverse_survives. Qed.
Print Assumptions c04_reverse_mapping_is_last_writer.

Theorem c04_auto_numbering : forall o p name o' p',
  member o (Some p) name Auto = Some (o', p') ->
  lookup (KName name) o' = Some (VNum (p + 1)) /\ lookup (KNum (p + 1)) o' = Some (VName name) /\ p' = Some (p + 1).
Proof. exact auto_numbering. Qed.
Print Assumptions c04_auto_numbering.

(* enum E { A, B = 5, C, D = "s", F = B, G = 5 }  then  enum E { H = 0 } *)
Theorem c04_witness :
  declare_all [] [[(0%nat, Auto); (1%nat, Num 5); (2%nat, Auto); (3%nat, Str 7); (4%nat, Ref 1%nat); (5%nat, Num 5)]; [(6%nat, Num 0)]] =
  Some [(KName 0, VNum 0); (KNum 0, VName 6); (KName 1, VNum 5); (KNum 5, VName 5); (KName 2, VNum 6); (KNum 6, VName 2);
        (KName 3, VStr 7); (KName 4, VNum 5); (KName 5, VNum 5); (KName 6, VNum 0)].
Proof. vm_compute. reflexivity. Qed.
Print Assumptions c04_witness.
