From Coq Require Import List ZArith Bool Arith Lia.
From TsrunV Require Import TsEmit.Enum.
Import ListNotations.
Local Open Scope Z_scope.

Lemma key_eqb_refl k : key_eqb k k = true.
Proof. destruct k; cbn; [apply Nat.eqb_refl|apply Z.eqb_refl]. Qed.

Lemma key_eqb_eq a b : key_eqb a b = true -> a = b.
Proof.
  destruct a, b; cbn; try discriminate; intros H.
  - apply Nat.eqb_eq in H. now subst.
  - apply Z.eqb_eq in H. now subst.
Qed.

Lemma lookup_set_same k v o : lookup k (set k v o) = Some v.
Proof.
  induction o as [|[k' v'] r IH]; cbn; [now rewrite key_eqb_refl|].
  destruct (key_eqb k' k) eqn:E; cbn; [now rewrite key_eqb_refl|]. now rewrite E.
Qed.

Lemma lookup_set_other k k' v o : k <> k' -> lookup k' (set k v o) = lookup k' o.
Proof.
  intros N. induction o as [|[k0 v0] r IH]; cbn.
  - destruct (key_eqb k k') eqn:E; [apply key_eqb_eq in E; contradiction|reflexivity].
  - destruct (key_eqb k0 k) eqn:E; cbn.
    + apply key_eqb_eq in E. subst k0.
      destruct (key_eqb k k') eqn:E2; [apply key_eqb_eq in E2; contradiction|reflexivity].
    + destruct (key_eqb k0 k'); [reflexivity|exact IH].
Qed.

(* what one member writes *)
Definition written (o' : obj) (p' : option Z) (name : nat) (val : value) : Prop :=
  lookup (KName name) o' = Some val /\
  match val with
  | VNum v => lookup (KNum v) o' = Some (VName name) /\ p' = Some v
  | VStr _ => p' = None
  | VName _ => False
  end.

Lemma member_writes o prev name i o' p' : member o prev name i = Some (o', p') ->
  exists val, written o' p' name val /\
    (i = Auto -> exists p, prev = Some p /\ val = VNum (p + 1)) /\
    (forall v, i = Num v -> val = VNum v) /\ (forall s, i = Str s -> val = VStr s) /\
    (forall n, i = Ref n -> lookup (KName n) o = Some val).
Proof.
  unfold member, written. destruct i as [|v|s|n].
  - destruct prev as [p|]; [|discriminate]. intros H. injection H as <- <-.
    exists (VNum (p + 1)). repeat split; try discriminate.
    + rewrite lookup_set_other by discriminate. apply lookup_set_same.
    + apply lookup_set_same.
    + intros _. now exists p.
  - intros H. injection H as <- <-. exists (VNum v). repeat split; try discriminate.
    + rewrite lookup_set_other by discriminate. apply lookup_set_same.
    + apply lookup_set_same.
    + intros v0 E. now injection E as ->.
  - intros H. injection H as <- <-. exists (VStr s). repeat split; try discriminate.
    + apply lookup_set_same.
    + intros s0 E. now injection E as ->.
  - destruct (lookup (KName n) o) as [[v|s|m]|] eqn:L; try discriminate; intros H; injection H as <- <-.
    + exists (VNum v). repeat split; try discriminate.
      * rewrite lookup_set_other by discriminate. apply lookup_set_same.
      * apply lookup_set_same.
      * intros n0 E. injection E as <-. exact L.
    + exists (VStr s). repeat split; try discriminate.
      * apply lookup_set_same.
      * intros n0 E. injection E as <-. exact L.
Qed.

(* and what it leaves alone: every other name, every other number *)
Lemma member_frame o prev name i o' p' : member o prev name i = Some (o', p') ->
  (forall n, n <> name -> lookup (KName n) o' = lookup (KName n) o) /\
  (forall v, lookup (KName name) o' <> Some (VNum v) -> lookup (KNum v) o' = lookup (KNum v) o).
Proof.
  intros H. split.
  - intros n Hn. unfold member in H.
    assert (Hk : KName name <> KName n) by congruence.
    destruct i as [|v|s|m].
    + destruct prev; [|discriminate]. injection H as <- <-.
      rewrite lookup_set_other by discriminate. now apply lookup_set_other.
    + injection H as <- <-. rewrite lookup_set_other by discriminate. now apply lookup_set_other.
    + injection H as <- <-. now apply lookup_set_other.
    + destruct (lookup (KName m) o) as [[v|s|x]|]; try discriminate; injection H as <- <-.
      * rewrite lookup_set_other by discriminate. now apply lookup_set_other.
      * now apply lookup_set_other.
  - intros v Hv. destruct (member_writes _ _ _ _ _ _ H) as (val & (Hw & Hk) & _).
    rewrite Hw in Hv. unfold member in H.
    destruct i as [|v0|s|m].
    + destruct prev as [p|]; [|discriminate]. injection H as <- <-.
      destruct (Z.eq_dec (p + 1) v) as [E0|N]; [subst v|].
      * exfalso. apply Hv. rewrite lookup_set_other in Hw by discriminate. rewrite lookup_set_same in Hw. symmetry. exact Hw.
      * rewrite lookup_set_other by congruence. apply lookup_set_other. discriminate.
    + injection H as <- <-. destruct (Z.eq_dec v0 v) as [E0|N]; [subst v|].
      * exfalso. apply Hv. rewrite lookup_set_other in Hw by discriminate. rewrite lookup_set_same in Hw. symmetry. exact Hw.
      * rewrite lookup_set_other by congruence. apply lookup_set_other. discriminate.
    + injection H as <- <-. apply lookup_set_other. discriminate.
    + destruct (lookup (KName m) o) as [[v1|s|x]|]; try discriminate; injection H as <- <-.
      * destruct (Z.eq_dec v1 v) as [E0|N]; [subst v|].
        -- exfalso. apply Hv. rewrite lookup_set_other in Hw by discriminate. rewrite lookup_set_same in Hw. symmetry. exact Hw.
        -- rewrite lookup_set_other by congruence. apply lookup_set_other. discriminate.
      * apply lookup_set_other. discriminate.
Qed.

(* forward mapping: a member's entry survives every later member with a different name *)
Theorem forward_survives : forall ms o prev o' n val,
  members o prev ms = Some o' -> lookup (KName n) o = Some val -> ~ In n (map fst ms) ->
  lookup (KName n) o' = Some val.
Proof.
  induction ms as [|[m i] r IH]; intros o prev o' n val H L Hn; cbn in H.
  - injection H as <-. exact L.
  - destruct (member o prev m i) as [[o1 p1]|] eqn:E; [|discriminate].
    apply (IH o1 p1 o' n val H); [|cbn in Hn; tauto].
    destruct (member_frame _ _ _ _ _ _ E) as [F _]. rewrite F; [exact L|]. cbn in Hn. intros ->. tauto.
Qed.

(* reverse mapping: the entry for a number survives every later member whose value is not that number *)
Theorem reverse_survives : forall ms o prev o' v who,
  members o prev ms = Some o' -> lookup (KNum v) o = Some who ->
  (forall m, In m (map fst ms) -> lookup (KName m) o' <> Some (VNum v)) -> NoDup (map fst ms) ->
  lookup (KNum v) o' = Some who.
Proof.
  induction ms as [|[m i] r IH]; intros o prev o' v who H L Hall Hnd; cbn in H.
  - injection H as <-. exact L.
  - destruct (member o prev m i) as [[o1 p1]|] eqn:E; [|discriminate].
    inversion Hnd as [|? ? Hm Hr]; subst.
    apply (IH o1 p1 o' v who H); [| intros m' Hm'; apply Hall; now right | exact Hr].
    destruct (member_frame _ _ _ _ _ _ E) as [_ F]. rewrite F; [exact L|].
    intros Hc. apply (Hall m (or_introl eq_refl)).
    apply (forward_survives r o1 p1 o' m (VNum v) H Hc Hm).
Qed.

(* auto numbering *)
Theorem auto_numbering : forall o p name o' p',
  member o (Some p) name Auto = Some (o', p') ->
  lookup (KName name) o' = Some (VNum (p + 1)) /\ lookup (KNum (p + 1)) o' = Some (VName name) /\ p' = Some (p + 1).
Proof.
  intros o p name o' p' H. cbn in H. injection H as <- <-. repeat split.
  - rewrite lookup_set_other by discriminate. apply lookup_set_same.
  - apply lookup_set_same.
Qed.
