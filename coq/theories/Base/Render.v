(* Rendering of model results to a single Coq [string], one result per line,
   so that the correspondence harness never parses Coq's wrapped term output:
   `Eval vm_compute in (render ...)` prints one string literal whose body is
   split on newlines by tools. Strings are byte strings (Coq [ascii]). *)
From Coq Require Import List String Ascii NArith ZArith Decimal DecimalString.
Import ListNotations.
Local Open Scope string_scope.

Definition nl : string := String (ascii_of_nat 10) EmptyString.

Definition string_of_N (n : N) : string := NilZero.string_of_uint (N.to_uint n).
Definition string_of_Z (z : Z) : string := NilZero.string_of_int (Z.to_int z).
Definition string_of_nat (n : nat) : string := string_of_N (N.of_nat n).
Definition string_of_bool (b : bool) : string := if b then "T" else "F".

Definition lines (l : list string) : string := String.concat nl l.

(* hex rendering of byte strings so that arbitrary bytes (non-ASCII, quotes,
   newlines) cross the tool boundary unharmed *)
Definition hex_digit (n : N) : ascii :=
  ascii_of_N (if N.ltb n 10 then 48 + n else 87 + n).
Fixpoint hex_of_string (s : string) : string :=
  match s with
  | EmptyString => EmptyString
  | String c r => let n := N_of_ascii c in
                  String (hex_digit (N.div n 16)) (String (hex_digit (N.modulo n 16)) (hex_of_string r))
  end.

Definition unhex_digit (c : ascii) : N :=
  let n := N_of_ascii c in
  if N.leb 97 n then n - 87 else if N.leb 65 n then n - 55 else n - 48.
Fixpoint string_of_hex (s : string) : string :=
  match s with
  | String a (String b r) => String (ascii_of_N (unhex_digit a * 16 + unhex_digit b)) (string_of_hex r)
  | _ => EmptyString
  end.
