(* C14 -- garbage is reclaimed: repeated work does not grow the heap.
   Only statements; each is closed by a lemma proved elsewhere. *)
From Coq Require Import List Bool Arith.
From TsrunV Require Import Gc.Model Gc.Mark Gc.Wf Gc.Step Gc.Collect Gc.Leak Runs.Exits Runs.ExitsProofs.
Import ListNotations.

(* What a collection leaves alive is exactly what the live guards reach: the
   live-object count after collect() is the size of the reachable set, for
   every heap (cycles, closures, settled promises ... are just objects here). *)
Theorem c14_live_after_collect_is_reachable_count : forall s m, wf s ->
  fuel_err (collect s) = false -> fuel_err s = false -> mark s = Some m ->
  length (slots (collect s)) - length (free (collect s)) =
  length (filter (is_marked m) (seq 0 (length (slots s)))).
Proof. exact live_after_collect_is_reach_count. Qed.
Print Assumptions c14_live_after_collect_is_reachable_count.

(* The interpreter's environment roots: every statement of the structured
   language -- blocks, loops, calls, generator resumptions, try/catch/finally,
   with break, continue, return and throw anywhere -- leaves the env_guards
   depth it found, whichever way control leaves it. For every program, every
   nesting, every fuel. *)
Theorem c14_every_exit_releases_its_roots : forall fuel s x, fst (snd (exec true fuel s x)) = fst x.
Proof. exact exec_neutral. Qed.
Print Assumptions c14_every_exit_releases_its_roots.

Theorem c14_program_leaves_no_roots : forall fuel p, fst (snd (run_program true fuel p)) = 0.
Proof. exact program_releases_every_root. Qed.
Print Assumptions c14_program_leaves_no_roots.

(* non-vacuity: a program using every exit, with its trace *)
Theorem c14_witness : run_program true 20 busy = (ONormal, (0, [1; 2; 1; 2; 1; 2; 4; 5; 6])) /\
  fst (run_program false 20 busy) = ONormal /\ fst (snd (run_program false 20 busy)) <> 0.
Proof. exact busy_runs. Qed.
Print Assumptions c14_witness.

(* the code before fixes 49d9f87 and 6615b90 *)
Theorem c14_break_leak_refuted : run_program false 10 [SLoop 0 [SBlock [SBreak]]] = (ONormal, (2, [])).
Proof. exact old_break_leaks. Qed.
Print Assumptions c14_break_leak_refuted.
Theorem c14_return_leak_refuted : run_program false 10 [SCall [SBlock [SReturn]]] = (ONormal, (1, [])).
Proof. exact old_return_leaks. Qed.
Print Assumptions c14_return_leak_refuted.
Theorem c14_generator_leak_refuted : run_program false 10 [SGen [SLog 1]] = (ONormal, (1, [1])).
Proof. exact old_generator_leaks. Qed.
Print Assumptions c14_generator_leak_refuted.
