(* C14: environment roots are released on every way out of a construct.

   Statements of a structured language with the non-local exits of the source
   language; [exec] is the VM's handling of scopes and their environment
   guards as in the current source (fix 49d9f87: Break/Continue carry the
   number of scopes to leave, finally blocks run in the scope of their try
   statement, a returning frame releases the scopes it still has open; fix
   6615b90: a generator resume releases what it pushed). [old_exec] is the
   code before: a jump or return leaves without releasing. *)
From Coq Require Import List Bool Arith Lia.
Import ListNotations.

Inductive stmt :=
| SLog (id : nat)                            (* observable step: appends id to the trace *)
| SBlock (body : list stmt)                 (* own scope: +1 guard while inside *)
| SLoop (n : nat) (body : list stmt)        (* body runs at most n+1 times; per-loop and per-iteration scope *)
| SCall (body : list stmt)                  (* function env guard; Return stops here *)
| SGen (body : list stmt)                   (* generator resumed once: like a call *)
| STry (body handler fin : list stmt)       (* catch body has its own scope, finally runs in the enclosing one *)
| SBreak | SContinue | SReturn | SThrow.

Inductive outcome := ONormal | OBreak | OContinue | OReturn | OThrow.

(* environment-guard count and the trace of executed SLog statements *)
Definition st := (nat * list nat)%type.
Definition up (x : st) : st := (S (fst x), snd x).
Definition down (x : st) : st := (fst x - 1, snd x).

Section Exec.
  Variable fixed : bool.     (* true: current source; false: before the fixes *)

  (* leaving a construct by outcome [o] with one guard of the construct still on the stack *)
  Definition leave (o : outcome) (x : st) : st :=
    match o with
    | ONormal | OThrow => down x          (* PopScope on the normal path; the handler search unwinds on throw *)
    | _ => if fixed then down x else x    (* jumps and returns used to leave the guards behind *)
    end.

  (* statements in sequence, given how one statement runs *)
  Fixpoint seq_with (ex : stmt -> st -> outcome * st) (l : list stmt) (x : st) : outcome * st :=
    match l with
    | [] => (ONormal, x)
    | s :: r => match ex s x with
                | (ONormal, x') => seq_with ex r x'
                | other => other
                end
    end.

  (* rounds of a loop body: a fresh per-iteration scope each time *)
  Fixpoint rounds_with (body : st -> outcome * st) (k : nat) (x : st) : outcome * st :=
    match k with
    | O => (ONormal, x)
    | S k' =>
        let '(o, x') := body (up x) in
        match o with
        | ONormal | OContinue => rounds_with body k' (leave o x')
        | OBreak => (ONormal, leave o x')
        | _ => (o, leave o x')
        end
    end.

  Definition scoped (r : outcome * st) : outcome * st := let '(o, x') := r in (o, leave o x').

  Fixpoint exec (fuel : nat) (s : stmt) (x : st) {struct fuel} : outcome * st :=
    match fuel with
    | O => (OThrow, x)
    | S f =>
      let seq := seq_with (exec f) in
      match s with
      | SLog id => (ONormal, (fst x, snd x ++ [id]))
      | SBreak => (OBreak, x)
      | SContinue => (OContinue, x)
      | SReturn => (OReturn, x)
      | SThrow => (OThrow, x)
      | SBlock body => scoped (seq body (up x))
      | SLoop n body =>
          (* one per-loop scope for the whole loop, one per-iteration scope per round *)
          let '(o, x') := rounds_with (seq body) (S n) (up x) in
          (o, match o with ONormal => down x' | _ => leave o x' end)
      | SCall body =>
          let '(o, x') := seq body (up x) in
          match o with
          | OThrow => (OThrow, down x')
          | _ => (ONormal, down x')
          end
      | SGen body =>
          let '(o, x') := seq body (up x) in
          match o with
          | OThrow => (OThrow, down x')
          | _ => (ONormal, if fixed then down x' else x')   (* the generator guard was never popped *)
          end
      | STry body handler fin =>
          let '(o, x1) := scoped (seq body (up x)) in
          let '(o, x2) := match o with
                          | OThrow => (match handler with
                                       | [] => (OThrow, x1)
                                       | _ => scoped (seq handler (up x1))
                                       end)
                          | _ => (o, x1)
                          end in
          match fin with
          | [] => (o, x2)
          | _ => match seq fin x2 with
                 | (ONormal, x3) => (o, x3)
                 | other => other
                 end
          end
      end
    end.
End Exec.

(* a program: statements run at top level, at guard depth 0 *)
Definition run_program (fixed : bool) (fuel : nat) (p : list stmt) : outcome * st :=
  exec fixed fuel (SBlock p) (0, []).
