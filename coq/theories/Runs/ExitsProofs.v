From Coq Require Import List Bool Arith Lia.
From TsrunV Require Import Runs.Exits.
Import ListNotations.

(* "whatever way out, the guard count found is the guard count left" *)
Definition neutral (ex : stmt -> st -> outcome * st) : Prop := forall s x, fst (snd (ex s x)) = fst x.

Lemma seq_neutral ex : neutral ex -> forall l x, fst (snd (seq_with ex l x)) = fst x.
Proof.
  intros H l. induction l as [|s r IH]; intros x; cbn; [reflexivity|].
  pose proof (H s x) as Hx. destruct (ex s x) as [o x']. cbn in Hx.
  destruct o; cbn; auto. rewrite IH. exact Hx.
Qed.

Lemma leave_fixed o x : fst (leave true o (up x)) = fst x.
Proof. destruct o; cbn; lia. Qed.

Lemma leave_fixed' o x g : fst x = S g -> fst (leave true o x) = g.
Proof. intros H. destruct o; cbn; lia. Qed.

Lemma scoped_neutral (r : outcome * st) g : fst (snd r) = S g -> fst (snd (scoped true r)) = g.
Proof. destruct r as [o x']. cbn. apply leave_fixed'. Qed.

Lemma rounds_neutral (body : st -> outcome * st) : (forall x, fst (snd (body x)) = fst x) ->
  forall k x, fst (snd (rounds_with true body k x)) = fst x.
Proof.
  intros H k. induction k as [|k IH]; intros x; cbn; [reflexivity|].
  pose proof (H (up x)) as Hb. destruct (body (up x)) as [o x']. cbn in Hb.
  destruct o; cbn [snd]; rewrite ?IH; apply leave_fixed'; exact Hb.
Qed.

Theorem exec_neutral : forall fuel, neutral (exec true fuel).
Proof.
  induction fuel as [|f IH]; intros s x; [reflexivity|].
  pose proof (seq_neutral _ IH) as Hseq.
  destruct s as [id|body|n body|body|body|body handler fin| | | |]; cbn [exec]; try reflexivity.
  - apply scoped_neutral. rewrite Hseq. reflexivity.
  - pose proof (rounds_neutral (seq_with (exec true f) body) (Hseq body) (S n) (up x)) as Hr.
    destruct (rounds_with true (seq_with (exec true f) body) (S n) (up x)) as [o x']. cbn in Hr.
    destruct o; cbn; lia.
  - pose proof (Hseq body (up x)) as Hb. destruct (seq_with (exec true f) body (up x)) as [o x']. cbn in Hb.
    destruct o; cbn; lia.
  - pose proof (Hseq body (up x)) as Hb. destruct (seq_with (exec true f) body (up x)) as [o x']. cbn in Hb.
    destruct o; cbn; lia.
  - assert (H1 : fst (snd (scoped true (seq_with (exec true f) body (up x)))) = fst x).
    { apply scoped_neutral. rewrite Hseq. reflexivity. }
    destruct (scoped true (seq_with (exec true f) body (up x))) as [o x1]. cbn in H1.
    assert (H2 : fst (snd (match o with
                      | OThrow => match handler with [] => (OThrow, x1) | _ => scoped true (seq_with (exec true f) handler (up x1)) end
                      | _ => (o, x1) end)) = fst x).
    { destruct o; try exact H1. destruct handler; [exact H1|]. apply scoped_neutral. rewrite Hseq. cbn. now rewrite H1. }
    destruct (match o with
              | OThrow => match handler with [] => (OThrow, x1) | _ => scoped true (seq_with (exec true f) handler (up x1)) end
              | _ => (o, x1) end) as [o2 x2]. cbn in H2.
    destruct fin as [|y fin]; [exact H2|].
    pose proof (Hseq (y :: fin) x2) as H3. destruct (seq_with (exec true f) (y :: fin) x2) as [o3 x3]. cbn in H3.
    destruct o3; cbn; lia.
Qed.

Theorem program_releases_every_root : forall fuel p, fst (snd (run_program true fuel p)) = 0.
Proof. intros. apply (exec_neutral fuel (SBlock p) (0, [])). Qed.

(* before the fixes *)
Lemma old_break_leaks : run_program false 10 [SLoop 0 [SBlock [SBreak]]] = (ONormal, (2, [])).
Proof. vm_compute. reflexivity. Qed.
Lemma old_return_leaks : run_program false 10 [SCall [SBlock [SReturn]]] = (ONormal, (1, [])).
Proof. vm_compute. reflexivity. Qed.
Lemma old_generator_leaks : run_program false 10 [SGen [SLog 1]] = (ONormal, (1, [1])).
Proof. vm_compute. reflexivity. Qed.
(* and a program that exercises every exit, on the current code *)
Definition busy : list stmt :=
  [SLoop 2 [STry [SBlock [SLog 1; SContinue]] [] [SBlock [SLog 2]]; SBreak];
   SCall [SLoop 1 [STry [SBlock [SReturn]] [SLog 3] [SLog 4]]];
   STry [SCall [SBlock [SThrow]]] [SBlock [SLog 5]] [];
   SGen [SLoop 0 [SBlock [SLog 6; SBreak]]]].
Lemma busy_runs : run_program true 20 busy = (ONormal, (0, [1; 2; 1; 2; 1; 2; 4; 5; 6])) /\ fst (run_program false 20 busy) = ONormal /\ fst (snd (run_program false 20 busy)) <> 0.
Proof. vm_compute. repeat split. discriminate. Qed.
