(* C11 -- an interpreter stays usable and clean after failed or abandoned runs.
   Only statements; each is closed by a lemma proved elsewhere. *)
From Coq Require Import List Bool Arith.
From TsrunV Require Import Runs.Model Runs.Proofs.
Import ListNotations.

(* For every history of runs on one interpreter -- each run an ARBITRARY
   sequence of scope/call/suspension events (a run may die anywhere), ending
   by completing, failing or being abandoned; completing runs are well
   bracketed -- the next run finds the scope chain, the environment roots, the
   trace stack and the set of parked continuations exactly as on a fresh
   interpreter. *)
Theorem c11_every_run_starts_clean : forall rs, forallb ok_run rs = true ->
  seen_at_start (fold_left do_run rs initial) = ([], 0, 0, 0).
Proof. exact every_run_starts_clean. Qed.
Print Assumptions c11_every_run_starts_clean.

(* A failed run leaves the interpreter clean at once (not only at the next prepare). *)
Theorem c11_failed_run_leaves_nothing : forall b r, clean b -> how r = Fails -> clean (do_run b r).
Proof. exact failed_run_clean. Qed.
Print Assumptions c11_failed_run_leaves_nothing.

(* Bookkeeping at a program point, as a function of its nesting path
   (compared with the implementation's hook summary at abandon points). *)
Theorem c11_bookkeeping_at_point : forall path is_mod,
  guards (at_point is_mod path) = scopes_of (rev path) /\
  cstack (at_point is_mod path) = calls_of (rev path) /\
  length (env (at_point is_mod path)) = scopes_of (rev path) + (if is_mod then 1 else 0).
Proof. exact at_point_counts. Qed.
Print Assumptions c11_bookkeeping_at_point.

(* non-vacuity: a history with a module that throws inside a block in a call,
   an abandoned run parked on an order deep in calls, and a completing run *)
Definition h1 : list run :=
  [ mkRun true [Enter CCall; Enter CBlock; Enter CForLoop] Fails;
    mkRun false [Enter CCall; Enter CCall; Enter CBlock; Suspend] Abandoned;
    mkRun true [Enter CBlock; Enter CCall; Leave CCall; Leave CBlock] Completes ].
Theorem c11_witness : forallb ok_run h1 = true /\
  seen_at_start (fold_left do_run (firstn 2 h1) initial) = ([], 0, 0, 0) /\
  guards (fold_left do_run (firstn 2 h1) initial) = 3 /\ waiting (fold_left do_run (firstn 2 h1) initial) = 1 /\
  clean (fold_left do_run h1 initial).
Proof. vm_compute. repeat split. Qed.
Print Assumptions c11_witness.

(* the code before fixes fc19135 / 2c5aaff: a module that throws inside a block
   leaves its scopes and roots to the next run *)
Theorem c11_prefix_refuted :
  let b := old_do_run initial (mkRun true [Enter CBlock] Fails) in
  env b = [1; 0] /\ guards b = 1 /\ base b = None.
Proof. vm_compute. repeat split. Qed.
Print Assumptions c11_prefix_refuted.
