(* C11: the run bookkeeping of Interpreter (src/interpreter/mod.rs):
   env (scope chain), env_guards, call_stack, active_vm, the suspended
   continuations, and begin_run / abort_active_execution /
   finalize_active_execution as introduced by fixes fc19135 and 2c5aaff.
   A run is an arbitrary sequence of scope/call events -- nothing is assumed
   about it being well bracketed, because a run can die anywhere -- followed
   by the way it ends. No proofs in this file. *)
From Coq Require Import List Bool Arith.
Import ListNotations.

(* syntactic constructs a program point can be nested in, with the
   bookkeeping each one holds while control is inside it (measured on the
   implementation by lib/c11.py at abandon points) *)
Inductive construct :=
| CBlock      (* { } with its own scope: block, if/else arm, try and catch body, case block, while body, labeled block *)
| CForLoop    (* for (let ..) / for (.. of ..) body: per-loop scope + per-iteration scope *)
| CCall       (* trampolined call: function, method, constructor, arrow, async function, static block *)
| CFinally.   (* finally body: runs in the enclosing scope *)

Record book := mkBook {
  env : list nat;        (* scope chain above the global environment, innermost first; the numbers name scopes *)
  guards : nat;          (* env_guards.len() *)
  cstack : nat;          (* call_stack.len() *)
  vm : bool;             (* active_vm.is_some() *)
  waiting : nat;         (* suspended_for_order + waiting contexts + unreported orders of the run *)
  base : option (list nat * nat * nat);   (* active_base *)
  fresh_id : nat         (* ghost: next scope name *)
}.

Definition initial : book := mkBook [] 0 0 false 0 None 0.

Inductive event :=
| Enter (c : construct)
| Leave (c : construct)
| Suspend.            (* a context parks on an order or a promise *)

Definition push_scope (b : book) : book :=
  mkBook (fresh_id b :: env b) (S (guards b)) (cstack b) (vm b) (waiting b) (base b) (S (fresh_id b)).
Definition pop_scope (b : book) : book :=
  mkBook (tl (env b)) (pred (guards b)) (cstack b) (vm b) (waiting b) (base b) (fresh_id b).

Definition exec (b : book) (e : event) : book :=
  match e with
  | Enter CBlock => push_scope b
  | Enter CForLoop => push_scope (push_scope b)
  | Enter CCall => let b' := push_scope b in
                   mkBook (env b') (guards b') (S (cstack b')) (vm b') (waiting b') (base b') (fresh_id b')
  | Enter CFinally => b
  | Leave CBlock => pop_scope b
  | Leave CForLoop => pop_scope (pop_scope b)
  | Leave CCall => let b' := pop_scope b in
                   mkBook (env b') (guards b') (pred (cstack b')) (vm b') (waiting b') (base b') (fresh_id b')
  | Leave CFinally => b
  | Suspend => mkBook (env b) (guards b) (cstack b) (vm b) (S (waiting b)) (base b) (fresh_id b)
  end.

(* abort_active_execution *)
Definition abort (b : book) : book :=
  match base b with
  | Some (e, g, c) => mkBook e g c false 0 None (fresh_id b)
  | None => b
  end.

(* begin_run, then the module environment if the program has a path, then the VM *)
Definition begin (is_module : bool) (b : book) : book :=
  let b := abort b in
  let b := mkBook (env b) (guards b) (cstack b) (vm b) (waiting b) (Some (env b, guards b, cstack b)) (fresh_id b) in
  let b := if is_module then mkBook (fresh_id b :: env b) (guards b) (cstack b) (vm b) (waiting b) (base b) (S (fresh_id b)) else b in
  mkBook (env b) (guards b) (cstack b) true (waiting b) (base b) (fresh_id b).

Inductive ending :=
| Completes      (* StepResult::Complete: finalize_active_execution *)
| Fails          (* an Err from step()/eval() *)
| Abandoned.     (* the host stops stepping *)

Definition finish (is_module : bool) (en : ending) (b : book) : book :=
  match en with
  | Completes => mkBook (if is_module then tl (env b) else env b) (guards b) (cstack b) false (waiting b) None (fresh_id b)
  | Fails => abort b
  | Abandoned => b
  end.

Record run := mkRun { is_module : bool; events : list event; how : ending }.

Definition do_run (b : book) (r : run) : book :=
  finish (is_module r) (how r) (fold_left exec (events r) (begin (is_module r) b)).

(* what a run finds when it starts: the state right after begin's abort *)
Definition seen_at_start (b : book) : list nat * nat * nat * nat :=
  let b := abort b in (env b, guards b, cstack b, waiting b).

(* well-bracketed event sequences (the only ones a completing program produces) *)
Fixpoint balanced (stack : list construct) (es : list event) : bool :=
  match es with
  | [] => match stack with [] => true | _ => false end
  | Enter c :: r => balanced (c :: stack) r
  | Leave c :: r => match stack with
                    | d :: st => (match c, d with
                                  | CBlock, CBlock | CForLoop, CForLoop | CCall, CCall | CFinally, CFinally => true
                                  | _, _ => false end) && balanced st r
                    | [] => false
                    end
  | Suspend :: r => false     (* a completing run in this model has no parked context left *)
  end.

Definition ok_run (r : run) : bool :=
  match how r with Completes => balanced [] (events r) | _ => true end.

(* the nesting path to a program point, and the bookkeeping there *)
Definition at_point (is_mod : bool) (path : list construct) : book :=
  fold_left exec (map Enter path) (begin is_mod initial).

(* ---- the code before the fixes: no base, errors and new runs restore nothing ------------- *)
Definition old_begin (is_module : bool) (b : book) : book :=
  let b := if is_module then mkBook (fresh_id b :: env b) (guards b) (cstack b) (vm b) (waiting b) None (S (fresh_id b)) else b in
  mkBook (env b) (guards b) (cstack b) true (waiting b) None (fresh_id b).
Definition old_finish (is_module : bool) (en : ending) (b : book) : book :=
  match en with
  | Completes => mkBook (if is_module then tl (env b) else env b) (guards b) (cstack b) false (waiting b) None (fresh_id b)
  | Fails => mkBook (env b) (guards b) (cstack b) false (waiting b) None (fresh_id b)
  | Abandoned => b
  end.
Definition old_do_run (b : book) (r : run) : book :=
  old_finish (is_module r) (how r) (fold_left exec (events r) (old_begin (is_module r) b)).
