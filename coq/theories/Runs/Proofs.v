From Coq Require Import List Bool Arith Lia.
From TsrunV Require Import Runs.Model.
Import ListNotations.

(* events never touch the recorded base *)
Lemma exec_base b e : base (exec b e) = base b.
Proof. destruct e as [[]|[]|]; reflexivity. Qed.

Lemma fold_exec_base es : forall b, base (fold_left exec es b) = base b.
Proof. induction es as [|e es IH]; intros b; cbn; [reflexivity|]. now rewrite IH, exec_base. Qed.

Definition clean (b : book) : Prop :=
  env b = [] /\ guards b = 0 /\ cstack b = 0 /\ vm b = false /\ waiting b = 0 /\ base b = None.

Lemma abort_clean_base b e g c : base b = Some (e, g, c) ->
  env (abort b) = e /\ guards (abort b) = g /\ cstack (abort b) = c /\ vm (abort b) = false /\
  waiting (abort b) = 0 /\ base (abort b) = None.
Proof. intros H. unfold abort. rewrite H. cbn. repeat split. Qed.

Lemma abort_of_base b e g c : base b = Some (e, g, c) -> abort b = mkBook e g c false 0 None (fresh_id b).
Proof. intros H. unfold abort. now rewrite H. Qed.

(* a dead run (failed or abandoned), whatever it did, is invisible to the next one *)
Lemma dead_run_invisible b r : clean b -> how r <> Completes ->
  seen_at_start (do_run b r) = ([], 0, 0, 0).
Proof.
  intros (He & Hg & Hc & Hv & Hw & Hb) Hh. unfold seen_at_start, do_run.
  assert (Hbase : base (fold_left exec (events r) (begin (is_module r) b)) = Some ([], 0, 0)).
  { rewrite fold_exec_base. unfold begin, abort. rewrite Hb. cbn. destruct (is_module r); cbn; now rewrite He, Hg, Hc. }
  destruct (how r); [congruence| |]; cbn [finish]; rewrite (abort_of_base _ _ _ _ Hbase); reflexivity.
Qed.

(* and the state it leaves, once the next run has begun or the error was returned, is clean *)
Lemma failed_run_clean b r : clean b -> how r = Fails -> clean (do_run b r).
Proof.
  intros (He & Hg & Hc & Hv & Hw & Hb) Hh. unfold do_run. rewrite Hh. cbn [finish].
  assert (Hbase : base (fold_left exec (events r) (begin (is_module r) b)) = Some ([], 0, 0)).
  { rewrite fold_exec_base. unfold begin, abort. rewrite Hb. cbn. destruct (is_module r); cbn; now rewrite He, Hg, Hc. }
  destruct (abort_clean_base _ _ _ _ Hbase) as (A & B & C & D & E & F). repeat split; assumption.
Qed.

(* balanced events return the bookkeeping to where it was *)
Definition undo (c : construct) (b : book) : book := exec b (Leave c).

Lemma exec_enter_leave b c :
  let b' := exec (exec b (Enter c)) (Leave c) in
  env b' = env b /\ guards b' = guards b /\ cstack b' = cstack b /\ vm b' = vm b /\ waiting b' = waiting b /\ base b' = base b.
Proof. destruct c; cbn; repeat split. Qed.

(* state modulo the ghost scope counter *)
Definition same (a b : book) : Prop :=
  guards a = guards b /\ cstack a = cstack b /\ vm a = vm b /\ waiting a = waiting b /\ base a = base b /\
  length (env a) = length (env b).

(* depth bookkeeping: the lengths/counters after a balanced word *)
Fixpoint scopes_of (st : list construct) : nat :=
  match st with
  | [] => 0
  | CBlock :: r => 1 + scopes_of r
  | CForLoop :: r => 2 + scopes_of r
  | CCall :: r => 1 + scopes_of r
  | CFinally :: r => scopes_of r
  end.
Fixpoint calls_of (st : list construct) : nat :=
  match st with
  | [] => 0
  | CCall :: r => 1 + calls_of r
  | _ :: r => calls_of r
  end.

Lemma balanced_counts : forall es st b g0 c0 n0,
  balanced st es = true ->
  guards b = g0 + scopes_of st -> cstack b = c0 + calls_of st -> length (env b) = n0 + scopes_of st ->
  let b' := fold_left exec es b in
  guards b' = g0 /\ cstack b' = c0 /\ length (env b') = n0 /\ waiting b' = waiting b /\ vm b' = vm b.
Proof.
  induction es as [|e es IH]; intros st b g0 c0 n0 Hb Hg Hc Hn; cbn in Hb.
  - destruct st; [|discriminate]. cbn in *. repeat split; lia.
  - destruct e as [c|c|]; [| |discriminate].
    + cbn [fold_left]. specialize (IH (c :: st) (exec b (Enter c)) g0 c0 n0 Hb).
      assert (W : waiting (exec b (Enter c)) = waiting b /\ vm (exec b (Enter c)) = vm b) by (destruct c; cbn; auto).
      destruct W as [W1 W2]. rewrite W1, W2 in IH. apply IH; destruct c; cbn; lia.
    + destruct st as [|d st]; [discriminate|]. apply andb_true_iff in Hb. destruct Hb as [Hm Hb].
      cbn [fold_left]. specialize (IH st (exec b (Leave c)) g0 c0 n0 Hb).
      assert (W : waiting (exec b (Leave c)) = waiting b /\ vm (exec b (Leave c)) = vm b) by (destruct c; cbn; auto).
      destruct W as [W1 W2]. rewrite W1, W2 in IH.
      assert (c = d) by (destruct c, d; cbn in Hm; congruence). subst d.
      apply IH; destruct c; cbn in *; try lia;
        revert Hn; destruct (env b) as [|x [|y l]]; cbn; intros Hn; lia.
Qed.

Lemma completed_run_clean b r : clean b -> how r = Completes -> balanced [] (events r) = true -> clean (do_run b r).
Proof.
  intros (He & Hg & Hc & Hv & Hw & Hb) Hh Hbal. unfold do_run. rewrite Hh. cbn [finish].
  set (b0 := begin (is_module r) b).
  pose proof (balanced_counts (events r) [] b0 (guards b0) (cstack b0) (length (env b0)) Hbal) as H.
  cbn [scopes_of calls_of] in H. destruct H as (A & B & C & D & E); try lia.
  assert (G0 : guards b0 = 0 /\ cstack b0 = 0 /\ waiting b0 = 0 /\ length (env b0) = if is_module r then 1 else 0).
  { unfold b0, begin, abort. rewrite Hb. cbn. destruct (is_module r); cbn; rewrite ?He, ?Hg, ?Hc, ?Hw; auto. }
  destruct G0 as (G1 & G2 & G3 & G4).
  unfold clean. cbn. repeat split; try lia.
  destruct (is_module r).
  - destruct (env (fold_left exec (events r) b0)) as [|x [|y l]]; cbn in *; try lia. reflexivity.
  - destruct (env (fold_left exec (events r) b0)); cbn in *; [reflexivity|lia].
Qed.

(* invariant that survives abandoned runs: "abort b is clean" *)
Definition restorable (b : book) : Prop := clean (abort b).

Lemma clean_restorable b : clean b -> restorable b.
Proof. intros H. unfold restorable, abort. destruct H as (He & Hg & Hc & Hv & Hw & Hb). rewrite Hb. repeat split; assumption. Qed.

Lemma do_run_abort s r : do_run s r = do_run (abort s) r.
Proof.
  unfold do_run, begin. assert (abort (abort s) = abort s) as ->; [|reflexivity].
  unfold abort. destruct (base s) as [[[e g] c]|] eqn:E; cbn; [reflexivity|now rewrite E].
Qed.

Lemma do_run_restorable b r : restorable b -> ok_run r = true -> restorable (do_run b r).
Proof.
  intros Hb Hok. rewrite do_run_abort. unfold restorable in Hb. remember (abort b) as a eqn:Ea. clear Ea.
  destruct (how r) eqn:Eh.
  - apply clean_restorable. apply completed_run_clean; auto. unfold ok_run in Hok. now rewrite Eh in Hok.
  - apply clean_restorable. now apply failed_run_clean.
  - (* abandoned: state is dirty but carries the base *)
    unfold restorable. destruct Hb as (He & Hg & Hc & Hv & Hw & Hbb).
    unfold do_run. rewrite Eh. cbn [finish].
    assert (Hbase : base (fold_left exec (events r) (begin (is_module r) a)) = Some ([], 0, 0)).
    { rewrite fold_exec_base. unfold begin, abort. rewrite Hbb. cbn. destruct (is_module r); cbn; now rewrite He, Hg, Hc. }
    destruct (abort_clean_base _ _ _ _ Hbase) as (A & B & C & D & E & F). repeat split; assumption.
Qed.

Theorem history_restorable : forall rs b, restorable b -> forallb ok_run rs = true -> restorable (fold_left do_run rs b).
Proof.
  induction rs as [|r rs IH]; intros b Hb Hok; cbn; [exact Hb|].
  cbn in Hok. apply andb_true_iff in Hok. destruct Hok as [H1 H2].
  apply IH; [|exact H2]. now apply do_run_restorable.
Qed.

Theorem every_run_starts_clean : forall rs, forallb ok_run rs = true ->
  seen_at_start (fold_left do_run rs initial) = ([], 0, 0, 0).
Proof.
  intros rs Hok. assert (Hi : restorable initial) by (apply clean_restorable; repeat split).
  pose proof (history_restorable rs initial Hi Hok) as (He & Hg & Hc & Hv & Hw & Hb).
  unfold seen_at_start. now rewrite He, Hg, Hc, Hw.
Qed.

(* the bookkeeping at a program point is determined by its nesting path *)
Theorem at_point_counts : forall path is_mod,
  guards (at_point is_mod path) = scopes_of (rev path) /\
  cstack (at_point is_mod path) = calls_of (rev path) /\
  length (env (at_point is_mod path)) = scopes_of (rev path) + (if is_mod then 1 else 0).
Proof.
  intros path is_mod. unfold at_point.
  set (b0 := begin is_mod initial).
  assert (G : guards b0 = 0 /\ cstack b0 = 0 /\ length (env b0) = if is_mod then 1 else 0) by (destruct is_mod; cbn; auto).
  revert G. generalize b0. clear b0.
  assert (K : forall p b st, guards b = scopes_of st -> cstack b = calls_of st ->
            length (env b) = scopes_of st + (if is_mod then 1 else 0) ->
            let b' := fold_left exec (map Enter p) b in
            guards b' = scopes_of (rev p ++ st) /\ cstack b' = calls_of (rev p ++ st) /\
            length (env b') = scopes_of (rev p ++ st) + (if is_mod then 1 else 0)).
  { induction p as [|c p IH]; intros b st Hg Hc Hn; cbn [map fold_left rev app]; [auto|].
    rewrite <- app_assoc. cbn [app]. apply IH; destruct c; cbn; lia. }
  intros b0 (G1 & G2 & G3). specialize (K path b0 [] G1 G2). rewrite app_nil_r in K. apply K. cbn. exact G3.
Qed.
