(* C03: type syntax is erased.
   The AST as the compiler sees it: value nodes (anything with run-time
   meaning), type nodes (annotations, type parameters and arguments, interface
   / type-alias / declare statements, overload signatures, modifiers) hanging
   off value nodes as extra children, and the two value-transparent wrappers
   (`e as T` / `<T>e`, `e!`). [comp] is the compiler: it walks value children,
   skips type children and compiles a wrapper as its operand - which is what
   src/compiler does (regenerated fact type_syntax_uses). No proofs here. *)
From Coq Require Import List Arith.
Import ListNotations.

Inductive tree :=
| V (label : nat) (kids : list tree)       (* value node *)
| T (label : nat) (kids : list tree)       (* type-only node *)
| W (inner : tree) (ty : tree).            (* e as T, <T>e, e! *)

Fixpoint comp (t : tree) : list nat :=
  match t with
  | V l ks => l :: flat_map comp ks
  | T _ _ => []
  | W e _ => comp e
  end.

Definition is_type (t : tree) : bool := match t with T _ _ => true | _ => false end.

(* erasure: what the undecorated program's AST is *)
Fixpoint erase (t : tree) : tree :=
  match t with
  | V l ks => V l ((fix go (l : list tree) : list tree :=
                      match l with
                      | [] => []
                      | k :: r => if is_type k then go r else erase k :: go r
                      end) ks)
  | T l ks => T l ks
  | W e _ => erase e
  end.

(* a decoration: type children inserted anywhere among a value node's children,
   value subtrees wrapped in assertions, recursively *)
Inductive dec : tree -> tree -> Prop :=
| dec_V l ks ks' : decs ks ks' -> dec (V l ks) (V l ks')
| dec_W e e' ty : dec e e' -> dec e (W e' ty)
with decs : list tree -> list tree -> Prop :=
| decs_nil : decs [] []
| decs_cons k k' r r' : dec k k' -> decs r r' -> decs (k :: r) (k' :: r')
| decs_ins l ks r r' : decs r r' -> decs r (T l ks :: r').
