From Coq Require Import List Arith.
From TsrunV Require Import Erase.Model.
Import ListNotations.

Scheme dec_ind2 := Induction for dec Sort Prop
  with decs_ind2 := Induction for decs Sort Prop.

(* however a program is decorated with type syntax, it compiles to the same code *)
Theorem decoration_invisible : forall t t', dec t t' -> comp t' = comp t.
Proof.
  apply (dec_ind2 (fun t t' _ => comp t' = comp t)
                  (fun ks ks' _ => flat_map comp ks' = flat_map comp ks)).
  - intros l ks ks' _ IH. cbn. now rewrite IH.
  - intros e e' ty _ IH. cbn. exact IH.
  - reflexivity.
  - intros k k' r r' _ IHk _ IHr. cbn. now rewrite IHk, IHr.
  - intros l ks r r' _ IH. cbn. exact IH.
Qed.

Lemma tree_ind2 (P : tree -> Prop) :
  (forall l ks, Forall P ks -> P (V l ks)) -> (forall l ks, P (T l ks)) ->
  (forall e ty, P e -> P (W e ty)) -> forall t, P t.
Proof.
  intros HV HT HW. fix IH 1. intros [l ks|l ks|e ty].
  - apply HV. revert ks. fix IHl 1. intros [|k r]; constructor; [apply IH|apply IHl].
  - apply HT.
  - apply HW, IH.
Qed.

(* the compiler only sees the erasure *)
Theorem comp_erase : forall t, comp (erase t) = comp t.
Proof.
  induction t as [l ks IHks|l ks|e ty IHe] using tree_ind2; cbn.
  - f_equal. induction IHks as [|k r Hk _ IHr]; [reflexivity|].
    destruct k as [l' ks'|l' ks'|e' ty']; cbn [is_type flat_map].
    + rewrite <- IHr. f_equal. exact Hk.
    + exact IHr.
    + rewrite <- IHr. f_equal. exact Hk.
  - reflexivity.
  - exact IHe.
Qed.
