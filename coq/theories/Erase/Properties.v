(* C03 -- TypeScript type syntax is erased. Only statements. *)
From Coq Require Import List String Arith.
From TsrunV Require Import Erase.Model Erase.Proofs Generated.FactsC03.
Import ListNotations.
Local Open Scope string_scope.

(* For every program tree and every decoration of it - type-only children
   inserted at any position of any node, any value subtree wrapped in an
   assertion, nested arbitrarily - a compiler that walks value children, skips
   type children and compiles a wrapper as its operand emits the same code. *)
Theorem c03_decoration_is_invisible_to_the_compiler : forall t t', dec t t' -> comp t' = comp t.
Proof. exact decoration_invisible. Qed.
Print Assumptions c03_decoration_is_invisible_to_the_compiler.

Theorem c03_compiler_sees_only_the_erasure : forall t, comp (erase t) = comp t.
Proof. exact comp_erase. Qed.
Print Assumptions c03_compiler_sees_only_the_erasure.

(* src/compiler and src/interpreter are such a compiler: regenerated on every
   run, these are ALL the places where they mention type-only syntax - the two
   wrappers compiled as their operand (and looked through when a call's
   receiver is determined), type-only statements compiled to
   nothing and skipped by hoisting, and AST reconstructions that copy or blank
   the fields. Nothing reads a type to decide what to emit. *)
Theorem c03_every_mention_of_type_syntax_ignores_it :
  type_syntax_uses =
  ["compiler/compile_expr.rs::callee_without_wrappers: Expression::NonNull(nn) => nn.expression.as_ref(),";
   "compiler/compile_expr.rs::callee_without_wrappers: Expression::TypeAssertion(ta) => ta.expression.as_ref(),";
   "compiler/compile_expr.rs::compile_class_expression_with_name: type_parameters: class.type_parameters.clone(),";
   "compiler/compile_expr.rs::compile_expression: Expression::NonNull(nn) => {";
   "compiler/compile_expr.rs::compile_expression: Expression::TypeAssertion(ta) => {";
   "compiler/compile_stmt.rs::compile_class_expression_for_export: type_parameters: None,";
   "compiler/compile_stmt.rs::compile_function_expression_for_export: return_type: None,";
   "compiler/compile_stmt.rs::compile_function_expression_for_export: type_parameters: None,";
   "compiler/compile_stmt.rs::compile_statement_impl: Statement::TypeAlias(_) | Statement::InterfaceDeclaration(_) => Ok(()),";
   "compiler/hoist.rs::collect_hoisted_vars_stmt: | Statement::InterfaceDeclaration(_)";
   "compiler/hoist.rs::collect_hoisted_vars_stmt: | Statement::TypeAlias(_)"].
Proof. reflexivity. Qed.
Print Assumptions c03_every_mention_of_type_syntax_ignores_it.

Theorem c03_witness :
  let p := V 1 [V 2 []; V 3 [V 4 []]] in
  let d := V 1 [T 9 [T 8 []]; W (V 2 []) (T 7 []); V 3 [W (W (V 4 []) (T 6 [])) (T 5 []); T 4 []]; T 3 []] in
  dec p d /\ comp d = [1; 2; 3; 4] /\ erase d = p.
Proof.
  cbv zeta. split; [|split; reflexivity].
  apply dec_V. apply decs_ins. apply decs_cons.
  { apply dec_W. apply dec_V. apply decs_nil. }
  apply decs_cons.
  { apply dec_V. apply decs_cons.
    { apply dec_W. apply dec_W. apply dec_V. apply decs_nil. }
    apply decs_ins. apply decs_nil. }
  apply decs_ins. apply decs_nil.
Qed.
Print Assumptions c03_witness.
