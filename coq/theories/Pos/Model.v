(* C20: positions. Lexer::advance (src/lexer.rs) keeps (line, column) while it
   consumes characters: a line terminator (LF, U+2028, U+2029) starts a new
   line at column 1, every other character - CR, tab, any non-ASCII scalar
   value - advances the column by one. A token's span carries the position at
   which the token starts. No proofs in this file. *)
From Coq Require Import List Arith Bool.
Import ListNotations.

Inductive ch := NL | Other.          (* a character, as the position tracker sees it *)

Definition advance (p : nat * nat) (c : ch) : nat * nat :=
  match c with
  | NL => (S (fst p), 1)
  | Other => (fst p, S (snd p))
  end.

(* position at which the character with index n starts (n characters consumed) *)
Definition pos_at (src : list ch) (n : nat) : nat * nat := fold_left advance (firstn n src) (1, 1).

(* the specification, by counting *)
Definition is_nl (c : ch) : bool := match c with NL => true | Other => false end.
Definition lines_before (src : list ch) (n : nat) : nat := length (filter is_nl (firstn n src)).
Fixpoint since_last_nl (l : list ch) : nat :=     (* characters after the last line terminator of l *)
  match l with
  | [] => 0
  | NL :: r => if existsb is_nl r then since_last_nl r else length r
  | Other :: r => if existsb is_nl r then since_last_nl r else S (length r)
  end.
Definition spec_pos (src : list ch) (n : nat) : nat * nat :=
  (1 + lines_before src n, 1 + since_last_nl (firstn n src)).

(* lexicographic order on positions *)
Definition pos_le (p q : nat * nat) : Prop := fst p < fst q \/ (fst p = fst q /\ snd p <= snd q).

(* the call stack behind a stack trace: calls push, returns pop; the trace is the stack, innermost first *)
Inductive cev := Call (name : nat) | Ret.
Definition cstep (st : list nat) (e : cev) : list nat :=
  match e with Call f => f :: st | Ret => tl st end.
Definition trace_after (es : list cev) : list nat := fold_left cstep es [].
