(* C20 -- error reports point at the code that failed. Only statements. *)
From Coq Require Import List Arith Bool.
From TsrunV Require Import Pos.Model Pos.Proofs.
Import ListNotations.

(* However the source is laid out - any mix of line terminators and other
   characters (CR, tabs, comments, non-ASCII text are all "other") - the
   tracked position of every offset is: line = 1 + line terminators before it,
   column = 1 + characters since the last of them. *)
Theorem c20_position_is_line_and_column : forall src n, pos_at src n = spec_pos src n.
Proof. exact pos_is_spec. Qed.
Print Assumptions c20_position_is_line_and_column.

(* A position reported for something that starts inside a token or expression
   lies between the positions of its first and last character; on one line,
   different offsets have different columns. *)
Theorem c20_positions_stay_inside_spans : forall src a b, a <= b -> pos_le (pos_at src a) (pos_at src b).
Proof. exact pos_monotone. Qed.
Print Assumptions c20_positions_stay_inside_spans.

Theorem c20_columns_name_one_character : forall src a b, a < b -> b <= length src ->
  fst (pos_at src a) = fst (pos_at src b) -> snd (pos_at src a) < snd (pos_at src b).
Proof. exact pos_injective_on_line. Qed.
Print Assumptions c20_columns_name_one_character.

(* The stack behind a trace: with calls f1 .. fk active - whatever calls were
   made and returned in between, at any depth - the stack lists exactly
   fk, ..., f1, innermost first. *)
Theorem c20_trace_lists_the_active_calls : forall (chain : list (nat * list cev)),
  Forall (fun x => balanced 0 (snd x) = true) chain ->
  trace_after (flat_map (fun x => snd x ++ [Call (fst x)]) chain) = rev (map fst chain).
Proof. exact trace_is_active_calls. Qed.
Print Assumptions c20_trace_lists_the_active_calls.

Theorem c20_witness :
  pos_at [Other; Other; NL; Other; NL; NL; Other; Other; Other] 8 = (4, 3) /\
  trace_after [Call 1; Call 7; Ret; Call 2; Call 8; Call 9; Ret; Ret; Call 3] = [3; 2; 1].
Proof. vm_compute. split; reflexivity. Qed.
Print Assumptions c20_witness.
