From Coq Require Import List Arith Bool Lia.
From TsrunV Require Import Pos.Model.
Import ListNotations.

Lemma fold_advance_line l : forall p, fst (fold_left advance l p) = fst p + length (filter is_nl l).
Proof.
  induction l as [|c l IH]; intros p; cbn; [lia|]. rewrite IH. destruct c; cbn; lia.
Qed.

Lemma fold_advance_col l : forall p,
  snd (fold_left advance l p) = if existsb is_nl l then 1 + since_last_nl l else snd p + length l.
Proof.
  induction l as [|c l IH]; intros p; cbn; [lia|]. rewrite IH.
  destruct c; cbn [advance fst snd is_nl orb].
  - destruct (existsb is_nl l); cbn; lia.
  - destruct (existsb is_nl l); cbn; lia.
Qed.

Lemma since_last_no_nl l : existsb is_nl l = false -> since_last_nl l = length l.
Proof.
  induction l as [|c l IH]; cbn; [reflexivity|]. destruct c; cbn; [discriminate|].
  intros H. now rewrite H.
Qed.

(* the tracker computes the counting specification, for every source and every offset *)
Theorem pos_is_spec : forall src n, pos_at src n = spec_pos src n.
Proof.
  intros src n. unfold pos_at, spec_pos, lines_before.
  apply injective_projections; cbn [fst snd].
  - rewrite fold_advance_line. reflexivity.
  - rewrite fold_advance_col. destruct (existsb is_nl (firstn n src)) eqn:E; [reflexivity|].
    rewrite since_last_no_nl by exact E. reflexivity.
Qed.

Lemma advance_le p c : pos_le p (advance p c).
Proof. destruct c; unfold pos_le; cbn; lia. Qed.

Lemma pos_le_trans p q r : pos_le p q -> pos_le q r -> pos_le p r.
Proof. unfold pos_le. lia. Qed.

Lemma pos_le_refl p : pos_le p p.
Proof. unfold pos_le. lia. Qed.

Lemma fold_le l : forall p, pos_le p (fold_left advance l p).
Proof.
  induction l as [|c l IH]; intros p; cbn; [apply pos_le_refl|].
  eapply pos_le_trans; [apply advance_le|apply IH].
Qed.

(* positions are monotone in the offset: what starts inside a span has its position inside the span's positions *)
Theorem pos_monotone : forall src a b, a <= b -> pos_le (pos_at src a) (pos_at src b).
Proof.
  intros src a b H. unfold pos_at.
  replace b with (a + (b - a)) by lia.
  rewrite <- (firstn_skipn a (firstn (a + (b - a)) src)).
  rewrite firstn_firstn, Nat.min_l by lia. rewrite fold_left_app. apply fold_le.
Qed.

(* distinct offsets on one line have distinct columns: a position names one character *)
Theorem pos_injective_on_line : forall src a b, a < b -> b <= length src ->
  fst (pos_at src a) = fst (pos_at src b) -> snd (pos_at src a) < snd (pos_at src b).
Proof.
  intros src a b H Hb Hl. unfold pos_at in *.
  replace b with (a + (b - a)) in * by lia.
  rewrite <- (firstn_skipn a (firstn (a + (b - a)) src)) in *.
  rewrite firstn_firstn, Nat.min_l in * by lia. rewrite fold_left_app in *.
  set (p := fold_left advance (firstn a src) (1, 1)) in *.
  set (m := skipn a (firstn (a + (b - a)) src)) in *.
  assert (Hm : length m = b - a).
  { unfold m. rewrite skipn_length, firstn_length. lia. }
  rewrite fold_advance_line in Hl. rewrite fold_advance_col.
  assert (Hn : filter is_nl m = []) by (destruct (filter is_nl m); [reflexivity|cbn in Hl; lia]).
  assert (He : existsb is_nl m = false).
  { clear -Hn. induction m as [|c m IH]; [reflexivity|]. cbn in *. destruct c; cbn in *; [discriminate|auto]. }
  rewrite He. lia.
Qed.

(* the stack behind a trace: after a well-bracketed prefix the callers are untouched *)
Fixpoint balanced (d : nat) (es : list cev) : bool :=
  match es with
  | [] => Nat.eqb d 0
  | Call _ :: r => balanced (S d) r
  | Ret :: r => match d with O => false | S d' => balanced d' r end
  end.

Lemma balanced_keeps : forall es d st extra, balanced d es = true -> length extra = d ->
  fold_left cstep es (extra ++ st) = st.
Proof.
  induction es as [|e es IH]; intros d st extra Hb Hl; cbn in *.
  - apply Nat.eqb_eq in Hb. subst. destruct extra; [reflexivity|discriminate].
  - destruct e as [f|].
    + apply (IH (S d) st (f :: extra)); [exact Hb|cbn; lia].
    + destruct d as [|d]; [discriminate|]. destruct extra as [|x extra]; [discriminate|].
      cbn. apply (IH d st extra); [exact Hb|cbn in Hl; lia].
Qed.

(* the trace when a chain of calls f1, f2, ..., fk is active, whatever completed calls happened in between *)
Theorem trace_is_active_calls : forall (chain : list (nat * list cev)),
  Forall (fun x => balanced 0 (snd x) = true) chain ->
  trace_after (flat_map (fun x => snd x ++ [Call (fst x)]) chain) = rev (map fst chain).
Proof.
  intros chain H. unfold trace_after.
  assert (G : forall st, fold_left cstep (flat_map (fun x => snd x ++ [Call (fst x)]) chain) st = rev (map fst chain) ++ st).
  { induction H as [|[f w] chain Hw _ IH]; intros st; [reflexivity|].
    cbn [flat_map map rev fst snd]. rewrite !fold_left_app. cbn [fold_left cstep].
    pose proof (balanced_keeps w 0 st [] Hw eq_refl) as Hk. cbn [app] in Hk. rewrite Hk. rewrite IH. now rewrite <- app_assoc. }
  rewrite G. apply app_nil_r.
Qed.
