(* C18 — property theorems only. Each is closed by [exact lemma]; the
   statements here are the pinned ones. *)
From Coq Require Import List String Ascii Bool Relations.
From TsrunV Require Import Path.Model Path.Rewrite Path.Proofs.
Import ListNotations.
Local Open Scope string_scope.

(* bare specifiers pass through untouched *)
Theorem c18_bare_untouched : forall spec base, is_bare spec = true -> resolve spec base = spec.
Proof. exact resolve_bare. Qed.
Print Assumptions c18_bare_untouched.

(* the stack algorithm computes the normal form of the rewrite system that
   removes '.', '..' and empty segments, and that normal form is unique *)
Theorem c18_normalize_is_normal_form : forall p,
  steps p (norm_segs p) /\ normal (norm_segs p) /\
  (forall q, steps p q -> normal q -> q = norm_segs p).
Proof.
  exact (fun p => conj (norm_reaches p) (conj (norm_is_normal p) (normal_form_unique p))).
Qed.
Print Assumptions c18_normalize_is_normal_form.

(* resolving against an absolute importer: join, normalise, absolute, no
   '.', '..', empty segments, no trailing slash, never above the root *)
Theorem c18_absolute_canonical : forall spec b,
  starts_slash b = true -> is_bare spec = false ->
  exists segs,
    resolve spec (Some b) = "/" +++ join segs /\
    segs = norm_segs (spec_segs spec b) /\
    steps (spec_segs spec b) segs /\
    good_segs segs /\
    (segs <> [] -> exists c, last_char (resolve spec (Some b)) = Some c /\ is_slash c = false).
Proof. exact resolve_canonical. Qed.
Print Assumptions c18_absolute_canonical.

(* resolving the result again, against anything, changes nothing *)
Theorem c18_idempotent : forall spec b b',
  starts_slash b = true -> is_bare spec = false ->
  resolve (resolve spec (Some b)) b' = resolve spec (Some b).
Proof. exact resolve_idempotent_lemma. Qed.
Print Assumptions c18_idempotent.

(* two spellings of one file resolve to equal paths *)
Theorem c18_spellings_equal : forall s1 b1 s2 b2,
  starts_slash b1 = true -> starts_slash b2 = true ->
  is_bare s1 = false -> is_bare s2 = false ->
  same_file (spec_segs s1 b1) (spec_segs s2 b2) ->
  resolve s1 (Some b1) = resolve s2 (Some b2).
Proof. exact resolve_same_file. Qed.
Print Assumptions c18_spellings_equal.

(* the pre-fix code violated the statement on importers directly under the root *)
Theorem c18_prefix_code_refuted :
  resolve_prefix "./m.ts" (Some "/main.ts") = "m.ts" /\ resolve "./m.ts" (Some "/main.ts") = "/m.ts".
Proof. exact resolve_prefix_root_refuted. Qed.
Print Assumptions c18_prefix_code_refuted.
