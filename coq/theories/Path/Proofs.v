From Coq Require Import List String Ascii Bool Relations Lia.
From TsrunV Require Import Path.Model Path.Rewrite.
Import ListNotations.
Local Open Scope string_scope.
Local Open Scope list_scope.

(* ------------------------------------------------------------------ *)
(* segment level                                                       *)

Lemma push_cases st seg :
  (seg = "" /\ push st seg = st) \/ (seg = "." /\ push st seg = st) \/
  (seg = ".." /\ push st seg = tl st) \/ (is_plain seg = true /\ push st seg = seg :: st).
Proof.
  unfold push, is_plain.
  destruct (String.eqb_spec seg "") as [E1|N1]; [left; auto|].
  destruct (String.eqb_spec seg ".") as [E2|N2]; [right; left; auto|].
  destruct (String.eqb_spec seg "..") as [E3|N3]; [right; right; left; auto|].
  right; right; right; auto.
Qed.

Lemma push_plain st x : is_plain x = true -> push st x = x :: st.
Proof.
  intros H. destruct (push_cases st x) as [[E _]|[[E _]|[[E _]|[_ E]]]]; subst; try discriminate; auto.
Qed.

Lemma run_app st p q : run st (p ++ q) = run (run st p) q.
Proof. unfold run. apply fold_left_app. Qed.

Lemma tl_normal st : normal st -> normal (tl st).
Proof. intros H. destruct st; simpl; auto. inversion H; auto. Qed.

Lemma run_normal p : forall st, normal st -> normal (run st p).
Proof.
  induction p as [|seg p IH]; intros st H; simpl; auto.
  apply IH.
  destruct (push_cases st seg) as [[_ E]|[[_ E]|[[_ E]|[P E]]]]; rewrite E; auto.
  - apply tl_normal; auto.
  - constructor; auto.
Qed.

Lemma norm_is_normal p : normal (norm_segs p).
Proof.
  unfold norm_segs, normal. apply Forall_rev. apply run_normal. constructor.
Qed.

Lemma run_reaches p : forall st, normal st -> steps (rev st ++ p) (rev (run st p)).
Proof.
  induction p as [|seg p IH]; intros st H.
  - simpl. rewrite app_nil_r. apply rt_refl.
  - simpl run.
    destruct (push_cases st seg) as [[S E]|[[S E]|[[S E]|[P E]]]]; unfold run in *; simpl; rewrite E.
    + subst seg. eapply rt_trans; [apply rt_step; apply s_empty|]. apply IH; auto.
    + subst seg. eapply rt_trans; [apply rt_step; apply s_dot|]. apply IH; auto.
    + subst seg. destruct st as [|x st'].
      * simpl. eapply rt_trans; [apply rt_step; apply s_root|]. apply (IH []); constructor.
      * simpl. rewrite <- app_assoc. simpl.
        inversion H as [|? ? Px Hst']; subst.
        eapply rt_trans; [apply rt_step; apply s_cancel; exact Px|]. apply IH; auto.
    + replace (rev st ++ seg :: p) with (rev (seg :: st) ++ p) by (simpl; rewrite <- app_assoc; reflexivity).
      apply IH. constructor; auto.
Qed.

Lemma norm_reaches p : steps p (norm_segs p).
Proof. unfold norm_segs. apply (run_reaches p []). constructor. Qed.

Lemma step_respects p q : step p q -> norm_segs p = norm_segs q.
Proof.
  intros H. unfold norm_segs. f_equal.
  destruct H as [l r|l r|l x r P|r].
  - rewrite !run_app. reflexivity.
  - rewrite !run_app. reflexivity.
  - rewrite !run_app. simpl. unfold run at 2. simpl.
    rewrite (push_plain _ x P). reflexivity.
  - reflexivity.
Qed.

Lemma steps_respects p q : steps p q -> norm_segs p = norm_segs q.
Proof.
  induction 1 as [p q H| |p q r _ IH1 _ IH2]; auto using step_respects. congruence.
Qed.

Lemma run_normal_id p : forall st, normal p -> run st p = rev p ++ st.
Proof.
  induction p as [|x p IH]; intros st H; simpl; auto.
  inversion H as [|? ? Px Hp]; subst.
  unfold run in *. simpl. rewrite (push_plain _ x Px). rewrite IH; auto.
  rewrite <- app_assoc. reflexivity.
Qed.

Lemma norm_normal_id p : normal p -> norm_segs p = p.
Proof.
  intros H. unfold norm_segs. rewrite run_normal_id; auto.
  rewrite app_nil_r. apply rev_involutive.
Qed.

(* the normal form is unique: whatever rewriting order is used *)
Lemma normal_form_unique p q : steps p q -> normal q -> q = norm_segs p.
Proof.
  intros S N. rewrite (steps_respects _ _ S). symmetry. apply norm_normal_id; auto.
Qed.

(* ------------------------------------------------------------------ *)
(* string level: split / join                                          *)

Fixpoint noslash (s : string) : bool :=
  match s with EmptyString => true | String c r => negb (is_slash c) && noslash r end.

Lemma split_not_nil s : split s <> [].
Proof.
  destruct s as [|c r]; simpl; [discriminate|].
  destruct (is_slash c); [discriminate|]. destruct (split r); discriminate.
Qed.

Lemma split_noslash_id s : noslash s = true -> split s = [s].
Proof.
  induction s as [|c r IH]; simpl; auto.
  intros H. apply andb_true_iff in H as [Hc Hr].
  destruct (is_slash c); [discriminate|]. rewrite IH; auto.
Qed.

Lemma split_pieces_noslash s : Forall (fun x => noslash x = true) (split s).
Proof.
  induction s as [|c r IH]; simpl.
  - repeat constructor.
  - destruct (is_slash c) eqn:Hc.
    + constructor; auto.
    + destruct (split r) as [|h t]; [repeat constructor; simpl; rewrite Hc; auto|].
      inversion IH; subst. constructor; auto. simpl. rewrite Hc. auto.
Qed.

Lemma split_app_slash a b : split (a +++ String slash b) = split a ++ split b.
Proof.
  induction a as [|c r IH]; simpl.
  - reflexivity.
  - destruct (is_slash c); [rewrite IH; reflexivity|].
    rewrite IH. destruct (split r) as [|h t] eqn:E.
    + exfalso. apply (split_not_nil r E).
    + reflexivity.
Qed.

Lemma split_noslash_app_slash x b : noslash x = true -> split (x +++ String slash b) = x :: split b.
Proof. intros H. rewrite split_app_slash, split_noslash_id; auto. Qed.

Lemma join_cons x y l : join (x :: y :: l) = x +++ String slash (join (y :: l)).
Proof. reflexivity. Qed.

Lemma split_join l : l <> [] -> Forall (fun x => noslash x = true) l -> split (join l) = l.
Proof.
  induction l as [|x l IH]; [congruence|]. intros _ H.
  inversion H as [|? ? Hx Hl]; subst.
  destruct l as [|y l].
  - simpl. apply split_noslash_id; auto.
  - rewrite join_cons, split_noslash_app_slash; auto. f_equal. apply IH; auto. discriminate.
Qed.

Lemma prefix_slash_cons s : starts_slash (String slash s) = true.
Proof. reflexivity. Qed.

Lemma prefix_slash_inv s : starts_slash s = true -> exists r, s = String slash r.
Proof.
  destruct s as [|c r]; simpl; [discriminate|]. unfold is_slash.
  destruct (Ascii.eqb_spec c slash) as [E|N]; [|discriminate].
  intros _. exists r. congruence.
Qed.

(* pieces produced by run/norm come from the input *)
Lemma run_incl (P : string -> Prop) p : forall st, Forall P st -> Forall P p -> Forall P (run st p).
Proof.
  induction p as [|seg p IH]; intros st Hs Hp; simpl; auto.
  inversion Hp; subst. apply IH; auto.
  destruct (push_cases st seg) as [[_ E]|[[_ E]|[[_ E]|[_ E]]]]; rewrite E; auto.
  destruct st; simpl; auto. inversion Hs; auto.
Qed.

Lemma norm_incl (P : string -> Prop) p : Forall P p -> Forall P (norm_segs p).
Proof. intros H. unfold norm_segs. apply Forall_rev. apply run_incl; auto. Qed.

(* ------------------------------------------------------------------ *)
(* ModulePath                                                          *)

Definition good_segs (l : list string) : Prop :=
  normal l /\ Forall (fun x => noslash x = true) l.

Lemma normalize_abs s : starts_slash s = true ->
  normalize_path s = "/" +++ join (norm_segs (split s)) /\ good_segs (norm_segs (split s)).
Proof.
  intros H. unfold normalize_path. rewrite H. split; auto.
  split; [apply norm_is_normal|apply norm_incl, split_pieces_noslash].
Qed.

Lemma resolve_bare spec base : is_bare spec = true -> resolve spec base = spec.
Proof. intros H. unfold resolve. rewrite H. reflexivity. Qed.

Lemma parent_abs b : starts_slash b = true ->
  exists d, parent b = Some d /\ (d = "" \/ starts_slash d = true).
Proof.
  intros H. apply prefix_slash_inv in H as [r ->].
  simpl. destruct (parent r) as [d|].
  - exists (String slash d). split; auto.
  - exists "". auto.
Qed.

(* segments of the importer's directory and of the specifier, joined *)
Definition joined_segs (spec b : string) : list string :=
  match parent b with
  | Some d => split d ++ split spec
  | None => split spec
  end.

Lemma string_app_assoc (a b c : string) : (a +++ b) +++ c = a +++ (b +++ c).
Proof. induction a; simpl; congruence. Qed.

Lemma resolve_abs_importer spec b :
  starts_slash b = true -> is_bare spec = false ->
  let segs := if starts_slash spec then norm_segs (split spec)
              else norm_segs (joined_segs spec b) in
  resolve spec (Some b) = "/" +++ join segs /\ good_segs segs.
Proof.
  intros Hb Hs. unfold resolve. rewrite Hs.
  destruct (starts_slash spec) eqn:Ha.
  - apply normalize_abs; auto.
  - destruct (parent_abs b Hb) as [d [Hp Hd]]. unfold joined_segs. rewrite Hp.
    assert (Hc : starts_slash (d +++ "/" +++ spec) = true).
    { destruct Hd as [->|Hd]; [apply prefix_slash_cons|].
      apply prefix_slash_inv in Hd as [r ->]. apply prefix_slash_cons. }
    destruct (normalize_abs _ Hc) as [E G].
    change ("/" +++ spec) with (String slash spec) in *.
    rewrite split_app_slash in E, G. auto.
Qed.

Lemma resolve_root_result l : good_segs l -> resolve ("/" +++ join l) None = "/" +++ join l
  /\ forall b, resolve ("/" +++ join l) b = "/" +++ join l.
Proof.
  intros [N S].
  assert (forall b, resolve ("/" +++ join l) b = "/" +++ join l) as H.
  { intros b. unfold resolve.
    change ("/" +++ join l) with (String slash (join l)).
    assert (is_bare (String slash (join l)) = false) as ->.
    { unfold is_bare. rewrite prefix_slash_cons. reflexivity. }
    rewrite prefix_slash_cons. unfold normalize_path. rewrite prefix_slash_cons.
    change (String slash (join l)) with (EmptyString +++ String slash (join l)).
    rewrite split_app_slash. simpl (split "").
    destruct l as [|x l].
    - reflexivity.
    - rewrite split_join; auto; [|discriminate].
      change ([""] ++ x :: l) with ("" :: x :: l).
      assert (norm_segs ("" :: x :: l) = x :: l) as ->.
      { rewrite <- (norm_normal_id (x :: l) N) at 2.
        apply step_respects. apply (s_empty [] (x :: l)). }
      reflexivity. }
  split; auto.
Qed.

Theorem resolve_idempotent_lemma spec b b' :
  starts_slash b = true -> is_bare spec = false ->
  resolve (resolve spec (Some b)) b' = resolve spec (Some b).
Proof.
  intros Hb Hs. destruct (resolve_abs_importer spec b Hb Hs) as [E G].
  rewrite E. apply resolve_root_result; auto.
Qed.

(* no trailing slash unless the result is the root itself *)
Fixpoint last_char (s : string) : option ascii :=
  match s with
  | EmptyString => None
  | String c r => match last_char r with Some d => Some d | None => Some c end
  end.

Lemma last_char_app a b : b <> "" -> last_char (a +++ b) = last_char b.
Proof.
  intros Hb. induction a as [|c a IH]; simpl; auto. rewrite IH.
  destruct (last_char b) eqn:E; auto. destruct b; [congruence|]. simpl in E.
  destruct (last_char b); discriminate.
Qed.

Lemma last_char_noslash x : x <> "" -> noslash x = true ->
  exists c, last_char x = Some c /\ is_slash c = false.
Proof.
  induction x as [|c r IH]; [congruence|]. intros _ H. simpl in H.
  apply andb_true_iff in H as [Hc Hr].
  destruct r as [|c' r'].
  - exists c. simpl. split; auto. destruct (is_slash c); auto; discriminate.
  - destruct IH as [d [E D]]; auto; [discriminate|]. exists d. split; auto.
    simpl in *. rewrite E. reflexivity.
Qed.

Lemma plain_nonempty x : is_plain x = true -> x <> "".
Proof. intros H E. subst. discriminate. Qed.

Lemma join_last l : l <> [] -> good_segs l ->
  exists c, last_char (join l) = Some c /\ is_slash c = false.
Proof.
  induction l as [|x l IH]; [congruence|]. intros _ [N S].
  inversion N as [|? ? Px Nl]; inversion S as [|? ? Sx Sl]; subst.
  destruct l as [|y l].
  - simpl. apply last_char_noslash; auto using plain_nonempty.
  - rewrite join_cons. rewrite last_char_app.
    + simpl. destruct IH as [c [E D]]; [discriminate|split; auto|].
      exists c. rewrite E. auto.
    + discriminate.
Qed.

Lemma no_trailing_slash l : good_segs l -> l <> [] ->
  exists c, last_char ("/" +++ join l) = Some c /\ is_slash c = false.
Proof.
  intros G H. destruct (join_last l H G) as [c [E D]]. exists c. split; auto.
  rewrite last_char_app; auto. destruct l as [|x l]; [congruence|].
  destruct G as [N _]. inversion N; subst.
  destruct l; simpl; destruct x; try discriminate; auto.
Qed.

(* the code before the fix: refuted on the root importer *)
Lemma resolve_prefix_root_refuted :
  resolve_prefix "./m.ts" (Some "/main.ts") = "m.ts" /\ resolve "./m.ts" (Some "/main.ts") = "/m.ts".
Proof. split; vm_compute; reflexivity. Qed.

(* two spellings related by any zig-zag of rewrite steps *)
Definition same_file := clos_refl_sym_trans (list string) step.

Lemma same_file_respects p q : same_file p q -> norm_segs p = norm_segs q.
Proof.
  induction 1 as [p q H| |p q _ IH|p q r _ IH1 _ IH2]; auto using step_respects; congruence.
Qed.

Definition spec_segs (spec b : string) : list string :=
  if starts_slash spec then split spec else joined_segs spec b.

Lemma resolve_same_file s1 b1 s2 b2 :
  starts_slash b1 = true -> starts_slash b2 = true ->
  is_bare s1 = false -> is_bare s2 = false ->
  same_file (spec_segs s1 b1) (spec_segs s2 b2) ->
  resolve s1 (Some b1) = resolve s2 (Some b2).
Proof.
  intros B1 B2 S1 S2 H.
  destruct (resolve_abs_importer s1 b1 B1 S1) as [E1 _].
  destruct (resolve_abs_importer s2 b2 B2 S2) as [E2 _].
  rewrite E1, E2. f_equal. f_equal. apply same_file_respects in H.
  unfold spec_segs in H. destruct (starts_slash s1), (starts_slash s2); exact H.
Qed.

Lemma resolve_canonical spec b :
  starts_slash b = true -> is_bare spec = false ->
  exists segs,
    resolve spec (Some b) = "/" +++ join segs /\
    segs = norm_segs (spec_segs spec b) /\
    steps (spec_segs spec b) segs /\
    good_segs segs /\
    (segs <> [] -> exists c, last_char (resolve spec (Some b)) = Some c /\ is_slash c = false).
Proof.
  intros Hb Hs. destruct (resolve_abs_importer spec b Hb Hs) as [E G].
  exists (norm_segs (spec_segs spec b)).
  assert (X : (if starts_slash spec then norm_segs (split spec) else norm_segs (joined_segs spec b))
              = norm_segs (spec_segs spec b)).
  { unfold spec_segs. destruct (starts_slash spec); reflexivity. }
  rewrite X in E, G.
  split; [exact E|]. split; [reflexivity|]. split; [apply norm_reaches|]. split; [exact G|].
  intros NE. rewrite E. apply no_trailing_slash; auto.
Qed.

(* non-vacuity: a concrete importer/specifier pair meeting the hypotheses *)
Example resolve_example :
  starts_slash "/src/app/main.ts" = true /\ is_bare "../lib/./x//y/../helper.ts" = false /\
  resolve "../lib/./x//y/../helper.ts" (Some "/src/app/main.ts") = "/src/lib/x/helper.ts".
Proof. repeat split; vm_compute; reflexivity. Qed.
