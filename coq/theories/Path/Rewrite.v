(* Declarative specification of path canonicalisation, independent of the
   stack algorithm: a rewrite relation on the segment list of a path that is
   anchored at the root, and its normal forms. *)
From Coq Require Import List String Bool Relations.
Import ListNotations.
Local Open Scope string_scope.

Definition is_plain (x : string) : bool :=
  negb (x =? "") && negb (x =? ".") && negb (x =? "..").

Inductive step : list string -> list string -> Prop :=
| s_empty  l r   : step (l ++ "" :: r) (l ++ r)                    (* a//b  -> a/b *)
| s_dot    l r   : step (l ++ "." :: r) (l ++ r)                   (* a/./b -> a/b *)
| s_cancel l x r : is_plain x = true ->
                   step (l ++ x :: ".." :: r) (l ++ r)             (* a/x/../b -> a/b *)
| s_root   r     : step (".." :: r) r.                             (* /../b -> /b : never above the root *)

Definition steps := clos_refl_trans (list string) step.

Definition normal (p : list string) : Prop := Forall (fun x => is_plain x = true) p.
