(* Executable model of tsrun::ModulePath (src/lib.rs, "Module Path System").
   Strings are byte strings; '/' is ASCII so splitting UTF-8 on the byte '/'
   is exactly Rust's str::split('/'). No proofs in this file. *)
From Coq Require Import List String Ascii Bool.
Import ListNotations.
Local Open Scope string_scope.

Infix "+++" := String.append (right associativity, at level 60).

Definition slash : ascii := "/"%char.
Definition is_slash (c : ascii) : bool := Ascii.eqb c slash.

(* str::split('/'): always at least one piece *)
Fixpoint split (s : string) : list string :=
  match s with
  | EmptyString => [EmptyString]
  | String c r =>
      if is_slash c then EmptyString :: split r
      else match split r with
           | [] => [String c EmptyString]      (* unreachable: split is never [] *)
           | h :: t => String c h :: t
           end
  end.

(* [&str]::join("/") *)
Definition join (l : list string) : string := String.concat "/" l.

(* str::starts_with('/'), starts_with("./"), starts_with("../") *)
Definition is_dot (c : ascii) : bool := Ascii.eqb c "."%char.
Definition starts_slash (s : string) : bool :=
  match s with String c _ => is_slash c | _ => false end.
Definition starts_dot_slash (s : string) : bool :=
  match s with String a (String b _) => is_dot a && is_slash b | _ => false end.
Definition starts_dot_dot_slash (s : string) : bool :=
  match s with String a (String b (String c _)) => is_dot a && is_dot b && is_slash c | _ => false end.

(* ModulePath::is_relative / is_bare *)
Definition is_relative (s : string) : bool := starts_dot_slash s || starts_dot_dot_slash s.
Definition is_bare (s : string) : bool := negb (starts_slash s) && negb (is_relative s).

(* the body of the `for segment in path.split('/')` loop; the Vec is kept
   top-first, Vec::pop on an empty Vec is a no-op *)
Definition push (st : list string) (seg : string) : list string :=
  if (seg =? "") then st
  else if (seg =? ".") then st
  else if (seg =? "..") then tl st
  else seg :: st.

Definition run (st : list string) (p : list string) : list string := fold_left push p st.
Definition norm_segs (p : list string) : list string := rev (run [] p).

(* ModulePath::normalize_path *)
Definition normalize_path (path : string) : string :=
  let segs := norm_segs (split path) in
  if starts_slash path then "/" +++ join segs else join segs.

(* ModulePath::parent: self.0.rfind('/').and_then(|idx| self.0.get(..idx)) *)
Fixpoint parent (s : string) : option string :=
  match s with
  | EmptyString => None
  | String c r =>
      match parent r with
      | Some d => Some (String c d)
      | None => if is_slash c then Some EmptyString else None
      end
  end.

(* ModulePath::resolve *)
Definition resolve (spec : string) (base : option string) : string :=
  if is_bare spec then spec
  else if starts_slash spec then normalize_path spec
  else
    let combined :=
      match base with
      | Some b => match parent b with
                  | Some d => d +++ "/" +++ spec
                  | None => spec
                  end
      | None => spec
      end in
    normalize_path combined.

(* the code as it stood before the "fix:" commit bc2e76f: an importer directly
   under the root has parent "" and was treated as a missing importer. Kept so
   that the refutation of the full statement for the old code stays checked. *)
Definition resolve_prefix (spec : string) (base : option string) : string :=
  if is_bare spec then spec
  else if starts_slash spec then normalize_path spec
  else
    let base_dir := match base with
                    | Some b => match parent b with Some d => d | None => "" end
                    | None => ""
                    end in
    let combined := if (base_dir =? "") then spec else base_dir +++ "/" +++ spec in
    normalize_path combined.
