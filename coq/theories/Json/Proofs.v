From Coq Require Import List String Ascii ZArith NArith Bool Lia.
From TsrunV Require Import Json.Model.
Import ListNotations.
Local Open Scope string_scope.
Local Open Scope list_scope.

(* ---- keys ---- *)
Theorem key_string_canon s : key_string (canon s) = s.
Proof.
  unfold canon. destruct (parse_u32 s) as [n|]; [|reflexivity].
  destruct (String.eqb_spec (u32_to_string n) s); simpl; auto.
Qed.

Lemma canon_inj a b : canon a = canon b -> a = b.
Proof. intros H. rewrite <- (key_string_canon a), <- (key_string_canon b), H. reflexivity. Qed.

Lemma key_eqb_eq a b : key_eqb a b = true <-> a = b.
Proof.
  destruct a, b; simpl; try (split; congruence).
  - rewrite N.eqb_eq. split; congruence.
  - rewrite String.eqb_eq. split; congruence.
Qed.

Lemma key_eqb_refl a : key_eqb a a = true.
Proof. apply key_eqb_eq. reflexivity. Qed.

(* ---- property lists ---- *)
Lemma set_prop_fresh props k v :
  (forall kv, In kv props -> fst kv <> k) -> set_prop props k v = props ++ [(k, v)].
Proof.
  induction props as [|[k' v'] r IH]; intros H; simpl; auto.
  destruct (key_eqb k' k) eqn:E.
  - apply key_eqb_eq in E. exfalso. apply (H (k', v')); simpl; auto.
  - rewrite IH; auto. intros kv Hin. apply H. right; auto.
Qed.

Definition entry (kv : string * json) : key * value := (canon (fst kv), to_js (snd kv)).

Lemma fold_set_prop m : forall acc,
  NoDup (map fst acc ++ map (fun kv => canon (fst kv)) m) ->
  fold_left (fun props kv => set_prop props (canon (fst kv)) (to_js (snd kv))) m acc = acc ++ map entry m.
Proof.
  induction m as [|[k x] m IH]; intros acc N; simpl.
  - rewrite app_nil_r. reflexivity.
  - rewrite set_prop_fresh.
    + rewrite IH.
      * rewrite <- app_assoc. reflexivity.
      * rewrite map_app. simpl. rewrite <- app_assoc. simpl. exact N.
    + intros kv Hin E. simpl in N. apply NoDup_remove_2 in N. apply N.
      apply in_or_app. left. rewrite <- E. apply in_map. exact Hin.
Qed.

Lemma NoDup_map_canon (l : list string) : NoDup l -> NoDup (map canon l).
Proof.
  induction 1 as [|x l Hx N IH]; simpl; constructor; auto.
  intros Hin. apply in_map_iff in Hin as [y [E Hy]]. apply canon_inj in E. subst. auto.
Qed.

(* ---- documents ---- *)
Fixpoint wf (d : json) : Prop :=
  match d with
  | JArr l => (fix all (l : list json) : Prop := match l with [] => True | x :: r => wf x /\ all r end) l
  | JObj m => NoDup (map fst m) /\
              (fix all (m : list (string * json)) : Prop := match m with [] => True | kv :: r => wf (snd kv) /\ all r end) m
  | _ => True
  end.

Lemma not_omitted d : omitted (to_js d) = false.
Proof. destruct d; reflexivity. Qed.

Lemma to_js_obj m : NoDup (map fst m) -> to_js (JObj m) = VObj (map entry m).
Proof.
  intros N. simpl. rewrite fold_set_prop; auto. simpl.
  rewrite <- map_map. apply NoDup_map_canon; auto.
Qed.

Theorem host_roundtrip : forall d, wf d -> to_json (to_js d) = d.
Proof.
  fix IH 1. intros d W. destruct d as [| | | |l|m]; try reflexivity.
  - simpl. f_equal. simpl in W. induction l as [|x l IHl]; simpl; auto.
    destruct W as [Wx Wl]. rewrite IH by exact Wx. f_equal. apply IHl. exact Wl.
  - destruct W as [N W]. rewrite to_js_obj by exact N. simpl. f_equal.
    clear N. induction m as [|[k x] m IHm]; simpl; auto.
    destruct W as [Wx Wm]. simpl in Wx. rewrite not_omitted. rewrite key_string_canon.
    rewrite IH by exact Wx. f_equal. apply IHm. exact Wm.
Qed.

Lemma get_prop_entry m k x : NoDup (map fst m) -> In (k, x) m ->
  get_prop (map entry m) (canon k) = Some (to_js x).
Proof.
  induction m as [|[k' x'] m IH]; intros N Hin; [destruct Hin|].
  simpl. inversion N as [|? ? Nk Nm]; subst. destruct Hin as [E|Hin].
  - inversion E; subst. rewrite key_eqb_refl. reflexivity.
  - destruct (key_eqb (canon k') (canon k)) eqn:E.
    + apply key_eqb_eq, canon_inj in E. subst. exfalso. apply Nk.
      change k with (fst (k, x)). apply in_map. exact Hin.
    + apply IH; auto.
Qed.

(* a script reading a host-supplied document by member access sees its components *)
Theorem script_sees_document m k x : NoDup (map fst m) -> In (k, x) m ->
  member (to_js (JObj m)) k = Some (to_js x).
Proof.
  intros N Hin. rewrite to_js_obj by exact N. simpl. apply get_prop_entry; auto.
Qed.

(* the pinned code stored "0" as a String key: lookups through the canonical key miss *)
Lemma pinned_integer_keys_refuted :
  member (to_js_pinned (JObj [("0", JStr "zero")])) "0" = None /\
  member (to_js (JObj [("0", JStr "zero")])) "0" = Some (VStr "zero").
Proof. vm_compute. auto. Qed.

(* ---- cycles: serialisation of any value graph terminates within heap-size fuel ---- *)
Lemma existsb_In o l : existsb (Nat.eqb o) l = true <-> In o l.
Proof.
  rewrite existsb_exists. split.
  - intros [x [Hx E]]. apply Nat.eqb_eq in E. subst; auto.
  - intros H. exists o. split; auto. apply Nat.eqb_refl.
Qed.

Lemma g_list_no_fuel f l : (forall x, f x <> GFuel) -> g_list f l <> inr GFuel.
Proof.
  intros H. induction l as [|x r IH]; simpl; [discriminate|].
  destruct (f x) eqn:E; try discriminate.
  - destruct (g_list f r) as [js|e]; [discriminate|]. intros X. inversion X; subst. apply IH. reflexivity.
  - exfalso. apply (H x). exact E.
Qed.

Lemma bounded_nodup_length (l : list nat) n : NoDup l -> (forall x, In x l -> x < n) -> List.length l <= n.
Proof.
  intros N B. rewrite <- (seq_length n 0). apply NoDup_incl_length; auto.
  intros x Hx. apply in_seq. specialize (B x Hx). lia.
Qed.

Lemma g_to_json_no_fuel h : forall fuel visited v,
  NoDup visited -> (forall x, In x visited -> x < List.length h) ->
  List.length h < fuel + List.length visited ->
  g_to_json fuel h visited v <> GFuel.
Proof.
  induction fuel as [|f IH]; intros visited v N B L; destruct v as [j|o]; simpl; try discriminate.
  - pose proof (bounded_nodup_length visited _ N B). lia.
  - destruct (existsb (Nat.eqb o) visited) eqn:Ev; [discriminate|].
    destruct (nth_error h o) as [obj|] eqn:Eo; [|discriminate].
    assert (Lo : o < List.length h) by (apply nth_error_Some; congruence).
    assert (Nv : ~ In o visited) by (intros Hin; apply existsb_In in Hin; congruence).
    assert (Rec : forall x, g_to_json f h (o :: visited) x <> GFuel).
    { intros x. apply IH; [constructor; auto|intros y [<-|Hy]; auto|simpl; lia]. }
    destruct obj as [elems|props].
    + destruct (g_list (g_to_json f h (o :: visited)) elems) as [js|e] eqn:E; [discriminate|].
      intros X. subst e. eapply g_list_no_fuel; eauto.
    + destruct (g_list (g_to_json f h (o :: visited)) (map snd props)) as [js|e] eqn:E; [discriminate|].
      intros X. subst e. eapply g_list_no_fuel; eauto.
Qed.

Theorem stringify_total h v : g_stringify h v <> GFuel.
Proof.
  unfold g_stringify. apply g_to_json_no_fuel.
  - constructor.
  - intros x [].
  - simpl. lia.
Qed.

(* a self-referencing object is refused; a shared (diamond) sub-object is not *)
Example cycle_refused_diamond_accepted :
  g_stringify [GObj [("self", GRef 0)]] (GRef 0) = GCircular /\
  g_stringify [GObj [("p", GRef 1); ("q", GRef 1)]; GObj [("x", GPrim (JNum (NInt 1)))]] (GRef 0)
  = GOk (JObj [("p", JObj [("x", JNum (NInt 1))]); ("q", JObj [("x", JNum (NInt 1))])]).
Proof. vm_compute. auto. Qed.
