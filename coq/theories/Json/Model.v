(* Executable model of the JSON boundary (src/interpreter/builtins/json.rs after
   fixes 42998c0 and c2f3ec8): json_to_js_value_with_guard, property-key
   canonicalisation, js_value_to_json_with_visited. serde_json's text <-> tree
   step is not modelled (oracle). No proofs in this file. *)
From Coq Require Import List String Ascii ZArith NArith Bool.
Import ListNotations.
Local Open Scope string_scope.

(* serde_json::Number: an integer (i64/u64) or a finite non-integer double,
   the latter opaque (only its identity matters across the boundary) *)
Inductive jnum := NInt (z : Z) | NFrac (id : positive).

Inductive json :=
| JNull | JBool (b : bool) | JNum (n : jnum) | JStr (s : string)
| JArr (l : list json) | JObj (m : list (string * json)).

(* ---- property keys ---- *)
Inductive key := KIndex (n : N) | KString (s : string).

(* u32::to_string *)
Fixpoint dec_digits (fuel : nat) (n : N) (acc : string) : string :=
  match fuel with
  | O => acc
  | S f => let d := String (ascii_of_N (48 + N.modulo n 10)) acc in
           if N.ltb n 10 then d else dec_digits f (N.div n 10) d
  end.
Definition u32_to_string (n : N) : string := dec_digits 10 n "".

(* str::parse::<u32>() restricted to what the canonicality test lets through:
   the value of a string of ASCII digits, None on anything else or overflow *)
Fixpoint parse_digits (s : string) (acc : N) : option N :=
  match s with
  | EmptyString => Some acc
  | String c r =>
      let v := N_of_ascii c in
      if (N.leb 48 v && N.leb v 57)%bool then parse_digits r (acc * 10 + (v - 48)) else None
  end.
Definition parse_u32 (s : string) : option N :=
  match s with
  | EmptyString => None
  | _ => match parse_digits s 0 with
         | Some n => if N.ltb n 4294967296 then Some n else None
         | None => None
         end
  end.

(* Interpreter::property_key / PropertyKey::from_name *)
Definition canon (s : string) : key :=
  match parse_u32 s with
  | Some n => if String.eqb (u32_to_string n) s then KIndex n else KString s
  | None => KString s
  end.
(* PropertyKey -> String as used when serialising *)
Definition key_string (k : key) : string :=
  match k with KIndex n => u32_to_string n | KString s => s end.
Definition key_eqb (a b : key) : bool :=
  match a, b with
  | KIndex x, KIndex y => N.eqb x y
  | KString x, KString y => String.eqb x y
  | _, _ => false
  end.

(* ---- script values as trees (documents never share or cycle) ---- *)
Inductive vnum := VN (n : jnum) | VNaN | VInf | VNegZero.
Inductive value :=
| VUndef | VNull | VBool (b : bool) | VNum (n : vnum) | VStr (s : string)
| VFun | VSym
| VArr (l : list value)
| VObj (props : list (key * value)).

(* JsObject::set_property on an ordinary object: overwrite in place or append *)
Fixpoint set_prop (props : list (key * value)) (k : key) (v : value) : list (key * value) :=
  match props with
  | [] => [(k, v)]
  | (k', v') :: r => if key_eqb k' k then (k', v) :: r else (k', v') :: set_prop r k v
  end.
Fixpoint get_prop (props : list (key * value)) (k : key) : option value :=
  match props with
  | [] => None
  | (k', v') :: r => if key_eqb k' k then Some v' else get_prop r k
  end.

(* json_to_js_value_with_guard *)
Fixpoint to_js (d : json) : value :=
  match d with
  | JNull => VNull
  | JBool b => VBool b
  | JNum n => VNum (VN n)
  | JStr s => VStr s
  | JArr l => VArr (map to_js l)
  | JObj m => VObj (fold_left (fun props kv => set_prop props (canon (fst kv)) (to_js (snd kv))) m [])
  end.

(* the pinned code: every key stored as a String key *)
Fixpoint to_js_pinned (d : json) : value :=
  match d with
  | JNull => VNull
  | JBool b => VBool b
  | JNum n => VNum (VN n)
  | JStr s => VStr s
  | JArr l => VArr (map to_js_pinned l)
  | JObj m => VObj (fold_left (fun props kv => set_prop props (KString (fst kv)) (to_js_pinned (snd kv))) m [])
  end.

(* js_value_to_json on tree values: undefined/function/symbol members are
   omitted, as array elements and at top level they become null; non-finite
   numbers become null; -0 becomes the integer 0 *)
Definition omitted (v : value) : bool :=
  match v with VUndef | VFun | VSym => true | _ => false end.
Fixpoint to_json (v : value) : json :=
  match v with
  | VUndef | VFun | VSym | VNull => JNull
  | VBool b => JBool b
  | VNum (VN n) => JNum n
  | VNum VNegZero => JNum (NInt 0)
  | VNum _ => JNull
  | VStr s => JStr s
  | VArr l => JArr (map to_json l)
  | VObj props =>
      JObj (fold_right (fun kv acc => if omitted (snd kv) then acc else (key_string (fst kv), to_json (snd kv)) :: acc)
                       [] props)
  end.

(* member access from a script: obj[k] with a string or numeric key *)
Definition member (v : value) (name : string) : option value :=
  match v with VObj props => get_prop props (canon name) | _ => None end.

(* ---- value graphs (objects with identity): cycle detection ---- *)
Inductive gval := GPrim (j : json) | GRef (o : nat).
Inductive gobj := GArr (elems : list gval) | GObj (props : list (string * gval)).
Definition gheap := list gobj.

Inductive gres := GOk (j : json) | GCircular | GFuel.

(* elements in order; the first error aborts *)
Fixpoint g_list (f : gval -> gres) (l : list gval) : list json + gres :=
  match l with
  | [] => inl []
  | x :: r => match f x with
              | GOk j => match g_list f r with
                         | inl js => inl (j :: js)
                         | inr e => inr e
                         end
              | e => inr e
              end
  end.

(* js_value_to_json_with_visited: `visited` is the set of objects on the
   current path (inserted on entry, removed on exit) *)
Fixpoint g_to_json (fuel : nat) (h : gheap) (visited : list nat) (v : gval) : gres :=
  match v with
  | GPrim j => GOk j
  | GRef o =>
      if existsb (Nat.eqb o) visited then GCircular else
      match fuel with
      | O => GFuel
      | S f =>
          match nth_error h o with
          | None => GOk JNull
          | Some (GArr elems) =>
              match g_list (g_to_json f h (o :: visited)) elems with
              | inl js => GOk (JArr js)
              | inr e => e
              end
          | Some (GObj props) =>
              match g_list (g_to_json f h (o :: visited)) (map snd props) with
              | inl js => GOk (JObj (combine (map fst props) js))
              | inr e => e
              end
          end
      end
  end.

Definition g_stringify (h : gheap) (v : gval) : gres := g_to_json (S (List.length h)) h [] v.
