(* C16 -- property theorems only. *)
From Coq Require Import List String ZArith NArith Bool.
From TsrunV Require Import Json.Model Json.Proofs.
Import ListNotations.
Local Open Scope string_scope.
Local Open Scope list_scope.

(* a host-supplied or parsed document reads back as the same document *)
Theorem c16_host_roundtrip : forall d, wf d -> to_json (to_js d) = d.
Proof. exact host_roundtrip. Qed.
Print Assumptions c16_host_roundtrip.

(* ... and a script reaches every member through ordinary member access,
   integer-like keys included *)
Theorem c16_script_sees_document : forall m k x, NoDup (map fst m) -> In (k, x) m ->
  member (to_js (JObj m)) k = Some (to_js x).
Proof. exact script_sees_document. Qed.
Print Assumptions c16_script_sees_document.

(* keys survive with every character intact *)
Theorem c16_key_roundtrip : forall s, key_string (canon s) = s.
Proof. exact key_string_canon. Qed.
Print Assumptions c16_key_roundtrip.

(* serialising any value graph, cyclic or not, terminates (within heap-size fuel):
   cycles are refused with an error, never a crash or a loop *)
Theorem c16_stringify_total : forall h v, g_stringify h v <> GFuel.
Proof. exact stringify_total. Qed.
Print Assumptions c16_stringify_total.

(* the code before fix 42998c0 *)
Theorem c16_pinned_integer_keys_refuted :
  member (to_js_pinned (JObj [("0", JStr "zero")])) "0" = None /\
  member (to_js (JObj [("0", JStr "zero")])) "0" = Some (VStr "zero").
Proof. exact pinned_integer_keys_refuted. Qed.
Print Assumptions c16_pinned_integer_keys_refuted.
