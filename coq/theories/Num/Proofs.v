From Coq Require Import List String ZArith Bool Lia.
From TsrunV Require Import Num.Model.
Import ListNotations.
Local Open Scope Z_scope.

(* ---- ToInt32 / ToUint32 ---- *)
Lemma two32_pos : 0 < two32. Proof. reflexivity. Qed.

Lemma rem_mod_two32 t : (Z.rem t two32) mod two32 = t mod two32.
Proof.
  pose proof (Z.rem_mod_nonneg) as _.
  rewrite (Z.rem_eq t two32) by (unfold two32; lia).
  rewrite <- Zminus_mod_idemp_r, Z.mul_comm, Z_mod_mult, Z.sub_0_r.
  reflexivity.
Qed.

Lemma narrow_spec m : narrow_i32 m = es_to_int32 m.
Proof.
  unfold narrow_i32, es_to_int32.
  pose proof (Z.mod_pos_bound m two32 two32_pos) as B.
  destruct (Z.leb_spec two31 (m mod two32)) as [H|H].
  - (* k >= 2^31: (m + 2^31) mod 2^32 = k - 2^31 *)
    assert (E : (m + two31) mod two32 = m mod two32 - two31).
    { rewrite <- Zplus_mod_idemp_l. 
      replace (m mod two32 + two31) with ((m mod two32 - two31) + 1 * two32) by (unfold two32, two31; lia).
      rewrite Z_mod_plus_full. apply Z.mod_small. unfold two32, two31 in *. lia. }
    rewrite E. unfold two32, two31. lia.
  - assert (E : (m + two31) mod two32 = m mod two32 + two31).
    { rewrite <- Zplus_mod_idemp_l. apply Z.mod_small. unfold two32, two31 in *. lia. }
    rewrite E. lia.
Qed.

Lemma es_to_int32_mod t : es_to_int32 (Z.rem t two32) = es_to_int32 t.
Proof. unfold es_to_int32. rewrite rem_mod_two32. reflexivity. Qed.

Theorem to_int32_spec t : to_int32 t = es_to_int32 t.
Proof. unfold to_int32. rewrite narrow_spec. apply es_to_int32_mod. Qed.

Lemma es_to_int32_cong t : (es_to_int32 t) mod two32 = t mod two32.
Proof.
  unfold es_to_int32. pose proof (Z.mod_pos_bound t two32 two32_pos) as B.
  destruct (Z.leb_spec two31 (t mod two32)).
  - replace (t mod two32 - two32) with (t mod two32 + (-1) * two32) by lia.
    rewrite Z_mod_plus_full. apply Z.mod_mod. unfold two32; lia.
  - apply Z.mod_mod. unfold two32; lia.
Qed.

Theorem to_uint32_spec t : to_uint32 t = es_to_uint32 t.
Proof. unfold to_uint32, es_to_uint32. rewrite to_int32_spec. apply es_to_int32_cong. Qed.

Theorem to_int32_range t : - two31 <= to_int32 t < two31.
Proof.
  rewrite to_int32_spec. unfold es_to_int32.
  pose proof (Z.mod_pos_bound t two32 two32_pos) as B.
  destruct (Z.leb_spec two31 (t mod two32)); unfold two32, two31 in *; lia.
Qed.

(* the pinned code saturated: refuted at 2^32, agreed inside the i32 range *)
Lemma to_int32_saturating_refuted :
  to_int32_saturating two32 = 2147483647 /\ es_to_int32 two32 = 0 /\ to_int32 two32 = 0.
Proof. vm_compute. auto. Qed.

Lemma to_int32_saturating_small t : - two31 <= t < two31 -> to_int32_saturating t = es_to_int32 t.
Proof.
  intros H. unfold to_int32_saturating, es_to_int32.
  destruct (Z.ltb_spec t (- two31)); [lia|]. destruct (Z.ltb_spec (two31 - 1) t); [lia|].
  destruct (Z.leb_spec two31 (t mod two32)) as [K|K].
  - (* t negative *)
    assert (t < 0).
    { destruct (Z.lt_ge_cases t 0); auto. rewrite Z.mod_small in K; unfold two32, two31 in *; lia. }
    assert (E : t mod two32 = t + two32).
    { replace t with ((t + two32) + (-1) * two32) at 1 by lia. rewrite Z_mod_plus_full.
      apply Z.mod_small. unfold two32, two31 in *. lia. }
    lia.
  - assert (0 <= t).
    { destruct (Z.lt_ge_cases t 0); auto.
      assert (E : t mod two32 = t + two32).
      { replace t with ((t + two32) + (-1) * two32) at 1 by lia. rewrite Z_mod_plus_full.
        apply Z.mod_small. unfold two32, two31 in *. lia. }
      unfold two32, two31 in *. lia. }
    rewrite Z.mod_small; unfold two32, two31 in *; lia.
Qed.

(* ---- layout ---- *)
Lemma digits_val_app a : forall b acc, digits_val (a ++ b) acc = digits_val b (digits_val a acc).
Proof. induction a as [|x a IH]; intros b acc; simpl; auto. Qed.

Lemma digits_val_shift ds : forall acc, digits_val ds acc = acc * 10 ^ Z.of_nat (List.length ds) + dv ds.
Proof.
  unfold dv. induction ds as [|d ds IH]; intros acc.
  - simpl. lia.
  - cbn [digits_val]. rewrite IH. rewrite (IH (10 * 0 + d)).
    replace (Z.of_nat (List.length (d :: ds))) with (Z.succ (Z.of_nat (List.length ds)))
      by (cbn [List.length]; lia).
    rewrite Z.pow_succ_r by lia. lia.
Qed.

Lemma firstn_skipn_len {A} n (l : list A) : (n <= List.length l)%nat ->
  List.length (skipn n l) = (List.length l - n)%nat.
Proof. intros. apply skipn_length. Qed.

(* (m1, s1) and (m2, s2) denote the same number *)
Definition same_number (a b : Z * Z) : Prop :=
  let '(m1, s1) := a in let '(m2, s2) := b in
  let lo := Z.min s1 s2 in m1 * 10 ^ (s1 - lo) = m2 * 10 ^ (s2 - lo).

(* every notation chosen by the layout denotes d1.d2..dk * 10^e exactly *)
Theorem layout_value digits e : digits <> [] ->
  same_number (denote (choose digits e)) (dv digits, e + 1 - Z.of_nat (List.length digits)).
Proof.
  intros NE. unfold choose.
  set (k := Z.of_nat (List.length digits)).
  assert (Kpos : 0 < k) by (unfold k; destruct digits; [congruence|simpl; lia]).
  destruct (Z.leb_spec k (e + 1)) as [H1|H1]; simpl andb.
  - destruct (Z.leb_spec (e + 1) 21) as [H2|H2]; simpl andb.
    + (* integer *)
      cbn [denote same_number]. rewrite Z2Nat.id by lia.
      rewrite Z.min_l by lia. rewrite Z.sub_diag, Z.pow_0_r. 
      replace (e + 1 - k - 0) with (e + 1 - k) by lia. lia.
    + destruct (Z.ltb_spec 0 (e + 1)); [|lia]. simpl andb.
      destruct (Z.ltb_spec (-6) (e + 1)); simpl andb; [destruct (Z.leb_spec (e + 1) 0); [lia|]|];
      (* exponent form *)
      (destruct digits as [|d r]; [congruence|]; cbn [denote same_number hd tl List.length];
       unfold k; cbn [List.length]; rewrite Nat2Z.inj_succ;
       replace (e + 1 - Z.succ (Z.of_nat (List.length r))) with (e - Z.of_nat (List.length r)) by lia;
       rewrite Z.min_id, Z.sub_diag, Z.pow_0_r; reflexivity).
  - destruct (Z.ltb_spec 0 (e + 1)) as [H3|H3]; simpl andb.
    + destruct (Z.leb_spec (e + 1) 21) as [H4|H4]; simpl andb.
      * (* point inside *)
        cbn [denote same_number]. rewrite firstn_skipn.
        rewrite skipn_length. 
        replace (- Z.of_nat (List.length digits - Z.to_nat (e + 1))) with (e + 1 - k) by (unfold k; lia).
        rewrite Z.min_id, Z.sub_diag, Z.pow_0_r. reflexivity.
      * destruct (Z.ltb_spec (-6) (e + 1)); simpl andb; [destruct (Z.leb_spec (e + 1) 0); [lia|]|];
        (destruct digits as [|d r]; [congruence|]; cbn [denote same_number hd tl List.length];
         unfold k; cbn [List.length]; rewrite Nat2Z.inj_succ;
         replace (e + 1 - Z.succ (Z.of_nat (List.length r))) with (e - Z.of_nat (List.length r)) by lia;
         rewrite Z.min_id, Z.sub_diag, Z.pow_0_r; reflexivity).
    + destruct (Z.ltb_spec (-6) (e + 1)) as [H5|H5]; simpl andb.
      * destruct (Z.leb_spec (e + 1) 0); [|lia]. simpl andb.
        (* 0.000ddd *)
        cbn [denote same_number]. rewrite Z2Nat.id by lia.
        replace (- (- (e + 1) + Z.of_nat (List.length digits))) with (e + 1 - k) by (unfold k; lia).
        rewrite Z.min_id, Z.sub_diag, Z.pow_0_r. reflexivity.
      * destruct digits as [|d r]; [congruence|]. cbn [denote same_number hd tl List.length].
        unfold k. cbn [List.length]. rewrite Nat2Z.inj_succ.
        replace (e + 1 - Z.succ (Z.of_nat (List.length r))) with (e - Z.of_nat (List.length r)) by lia.
        rewrite Z.min_id, Z.sub_diag, Z.pow_0_r. reflexivity.
Qed.

(* which notation: exactly the ranges ECMAScript prescribes *)
Theorem layout_notation digits e :
  let k := Z.of_nat (List.length digits) in
  let n := e + 1 in
  match choose digits e with
  | NInt _ _ => k <= n <= 21
  | NPoint _ _ => 0 < n <= 21 /\ n < k
  | NSmall _ _ => -6 < n <= 0
  | NExp _ _ _ => n <= -6 \/ 21 < n
  end.
Proof.
  unfold choose. cbv zeta.
  destruct (Z.leb_spec (Z.of_nat (List.length digits)) (e + 1));
  destruct (Z.leb_spec (e + 1) 21); destruct (Z.ltb_spec 0 (e + 1));
  destruct (Z.ltb_spec (-6) (e + 1)); destruct (Z.leb_spec (e + 1) 0); simpl; lia.
Qed.

Example layout_examples :
  number_to_string false [1;2;3;4;5;6;7;8;9;0;1;2;3;4;5;6;8] 20 = "123456789012345680000"%string /\
  number_to_string false [5] (-324) = "5e-324"%string /\
  number_to_string true [1;7;9;7;6;9;3;1;3;4;8;6;2;3;1;5;7] 308 = "-1.7976931348623157e+308"%string /\
  number_to_string false [1] 21 = "1e+21"%string /\ number_to_string false [1] 20 = "100000000000000000000"%string /\
  number_to_string false [1;5] (-7) = "1.5e-7"%string /\ number_to_string false [1;5] (-6) = "0.0000015"%string /\
  number_to_string false [1;2;5] 1 = "12.5"%string.
Proof. vm_compute. repeat split. Qed.
