(* C15 -- property theorems only. *)
From Coq Require Import List String ZArith Bool.
From TsrunV Require Import Num.Model Num.Proofs.
Import ListNotations.
Local Open Scope Z_scope.

(* conversions to 32-bit integers wrap modulo 2^32, for every integer value *)
Theorem c15_to_int32_wraps : forall t, to_int32 t = es_to_int32 t.
Proof. exact to_int32_spec. Qed.
Print Assumptions c15_to_int32_wraps.

Theorem c15_to_uint32_wraps : forall t, to_uint32 t = es_to_uint32 t.
Proof. exact to_uint32_spec. Qed.
Print Assumptions c15_to_uint32_wraps.

Theorem c15_to_int32_range : forall t, - two31 <= to_int32 t < two31.
Proof. exact to_int32_range. Qed.
Print Assumptions c15_to_int32_range.

(* whatever notation is chosen, it denotes exactly d1.d2..dk * 10^e, for all
   digit strings and exponents (so the text reads back to the same number) *)
Theorem c15_layout_preserves_value : forall digits e, digits <> [] ->
  same_number (denote (choose digits e)) (dv digits, e + 1 - Z.of_nat (List.length digits)).
Proof. exact layout_value. Qed.
Print Assumptions c15_layout_preserves_value.

(* plain versus exponent notation exactly where the language prescribes *)
Theorem c15_layout_notation : forall digits e,
  let k := Z.of_nat (List.length digits) in
  let n := e + 1 in
  match choose digits e with
  | NInt _ _ => k <= n <= 21
  | NPoint _ _ => 0 < n <= 21 /\ n < k
  | NSmall _ _ => -6 < n <= 0
  | NExp _ _ _ => n <= -6 \/ 21 < n
  end.
Proof. exact layout_notation. Qed.
Print Assumptions c15_layout_notation.

(* the code before fix a62973b saturated instead of wrapping *)
Theorem c15_saturating_cast_refuted :
  to_int32_saturating two32 = 2147483647 /\ es_to_int32 two32 = 0 /\ to_int32 two32 = 0.
Proof. exact to_int32_saturating_refuted. Qed.
Print Assumptions c15_saturating_cast_refuted.
