(* Executable model of the numeric conversions in src/value.rs after the
   fixes a62973b (ToInt32/ToUint32) and d4b615a (Number::toString layout).
   Doubles enter as exact mathematical objects: the truncated integer value
   for the 32-bit conversions, and (shortest digits, decimal exponent) for
   printing -- the digit generation itself is Rust's `{:e}` (an oracle).
   No proofs in this file. *)
From Coq Require Import List String Ascii ZArith Bool.
Import ListNotations.
Local Open Scope Z_scope.

(* ---- 32-bit conversions ---- *)
Definition two32 : Z := 4294967296.
Definition two31 : Z := 2147483648.

(* `(wrapped as i64) as i32` for |wrapped| < 2^63: two's-complement narrowing *)
Definition narrow_i32 (m : Z) : Z := (m + two31) mod two32 - two31.

(* value::to_int32 on a finite double whose truncation is t:
   `let wrapped = trunc(n) % 4294967296.0; (wrapped as i64) as i32` *)
Definition to_int32 (t : Z) : Z := narrow_i32 (Z.rem t two32).
(* value::to_uint32 : `to_int32(n) as u32` *)
Definition to_uint32 (t : Z) : Z := (to_int32 t) mod two32.

(* the pinned code: `n as i32` saturates *)
Definition to_int32_saturating (t : Z) : Z :=
  if t <? - two31 then - two31 else if two31 - 1 <? t then two31 - 1 else t.

(* ECMAScript 7.1.6 / 7.1.7 *)
Definition es_to_int32 (t : Z) : Z :=
  let k := t mod two32 in if two31 <=? k then k - two32 else k.
Definition es_to_uint32 (t : Z) : Z := t mod two32.

(* the bitwise operators as the VM computes them (operands already truncated) *)
Definition i32_of_u32 (u : Z) : Z := if two31 <=? u then u - two32 else u.
Definition vm_bitand (a b : Z) : Z := i32_of_u32 (Z.land (to_uint32 a) (to_uint32 b)).
Definition vm_bitor (a b : Z) : Z := i32_of_u32 (Z.lor (to_uint32 a) (to_uint32 b)).
Definition vm_bitxor (a b : Z) : Z := i32_of_u32 (Z.lxor (to_uint32 a) (to_uint32 b)).
Definition vm_bitnot (a : Z) : Z := - (to_int32 a) - 1.
Definition vm_shl (a b : Z) : Z := narrow_i32 (Z.shiftl (to_int32 a) (Z.land (to_uint32 b) 31)).
Definition vm_shr (a b : Z) : Z := Z.shiftr (to_int32 a) (Z.land (to_uint32 b) 31).
Definition vm_ushr (a b : Z) : Z := Z.shiftr (to_uint32 a) (Z.land (to_uint32 b) 31).

(* ---- Number::toString layout ---- *)
(* digits: most significant first, each 0..9, first non-zero; the number is
   d1.d2..dk * 10^e *)
Inductive notation :=
| NInt (digits : list Z) (zeros : nat)              (* ddd000 *)
| NPoint (int_part frac_part : list Z)              (* dd.ddd *)
| NSmall (zeros : nat) (digits : list Z)            (* 0.000ddd *)
| NExp (first : Z) (rest : list Z) (exponent : Z).  (* d.ddde+x *)

(* value::layout_number_digits *)
Definition choose (digits : list Z) (e : Z) : notation :=
  let k := Z.of_nat (List.length digits) in
  let n := e + 1 in
  if (k <=? n) && (n <=? 21) then NInt digits (Z.to_nat (n - k))
  else if (0 <? n) && (n <=? 21) then NPoint (firstn (Z.to_nat n) digits) (skipn (Z.to_nat n) digits)
  else if (-6 <? n) && (n <=? 0) then NSmall (Z.to_nat (- n)) digits
  else NExp (hd 0 digits) (tl digits) e.

Definition digit_char (d : Z) : ascii := ascii_of_N (Z.to_N (48 + d)).
Fixpoint digits_string (ds : list Z) : string :=
  match ds with [] => EmptyString | d :: r => String (digit_char d) (digits_string r) end.
Fixpoint zeros_string (n : nat) : string :=
  match n with O => EmptyString | S k => String "0"%char (zeros_string k) end.

Fixpoint pos_digits (fuel : nat) (n : Z) (acc : list Z) : list Z :=
  match fuel with
  | O => acc
  | S f => if n <? 10 then n :: acc else pos_digits f (n / 10) (n mod 10 :: acc)
  end.
Definition nat_string (n : Z) : string := digits_string (pos_digits 20 n []).

Definition sapp (a b : string) : string := String.append a b.
Definition render (nt : notation) : string :=
  match nt with
  | NInt ds z => sapp (digits_string ds) (zeros_string z)
  | NPoint i f => sapp (digits_string i) (sapp "."%string (digits_string f))
  | NSmall z ds => sapp "0."%string (sapp (zeros_string z) (digits_string ds))
  | NExp d r e =>
      sapp (String (digit_char d) (match r with [] => EmptyString | _ => sapp "."%string (digits_string r) end))
           (sapp "e"%string (sapp (if (0 <=? e)%Z then "+"%string else "-"%string) (nat_string (Z.abs e))))
  end.

(* value::number_to_string on a finite non-zero double with sign, shortest digits and exponent *)
Definition number_to_string (neg : bool) (digits : list Z) (e : Z) : string :=
  sapp (if neg then "-"%string else ""%string) (render (choose digits e)).

(* ---- the denotation of a notation: an integer scaled by a power of ten ---- *)
Fixpoint digits_val (ds : list Z) (acc : Z) : Z :=
  match ds with [] => acc | d :: r => digits_val r (10 * acc + d) end.
Definition dv (ds : list Z) : Z := digits_val ds 0.

(* (m, s) stands for m * 10^s *)
Definition denote (nt : notation) : Z * Z :=
  match nt with
  | NInt ds z => (dv ds * 10 ^ Z.of_nat z, 0)
  | NPoint i f => (dv (i ++ f), - Z.of_nat (List.length f))
  | NSmall z ds => (dv ds, - (Z.of_nat z + Z.of_nat (List.length ds)))
  | NExp d r e => (dv (d :: r), e - Z.of_nat (List.length r))
  end.
